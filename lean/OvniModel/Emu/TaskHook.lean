import OvniModel.Emu.Core
import OvniModel.Emu.Task

/-
  The task layer of nOS-V and Nanos6 as a hook of `modelEvent` (Emu/Core):
  `pre_task` / `pre_type` of src/emu/nosv/event.c and src/emu/nanos6/event.c.

  The task / body state machine and the decisions of `update_task` are
  `Emu/Task.lean` (`Ovni.Task.Emu.step`).  This file adds what `update_task`
  does to the THREAD'S CHANNELS of the reference emulator, in the order of the C
  code:

    update_task_ss_channel   x: chan_push(subsystem, ST_TASK_BODY), e: chan_pop
    update_task_channels     x r X E: chan_set bodyid, taskid, type, appid, rank
                                      (`chan_body_running` / `chan_body_switch`)
                             e p:     the same five set to null
                                      (`chan_body_stopped`)
    (Nanos6: taskid, type, rank; no bodyid / appid channels)

  `VTc` / `VTC` / `VYc` (`task_create`, `task_type_create`) write no channel.

  `modelEvent` hands a hook the thread, the model and the category, not the event
  value, and `Emu` has no field for the task state of the process: the hook is
  built per event from the process' task state `ε` and the decoded event
  (`Ovni.Task.Ev`), both kept by the caller.
-/
namespace Ovni.Emu
open Ovni.Generated

/-- one channel operation of the task layer on the event's thread -/
inductive TaskWr where
  | set (ch : Nat) (v : Value)
  | push (ch : Nat) (v : Value)
  | pop (ch : Nat) (v : Value)
deriving DecidableEq, Repr

def TaskWr.chan : TaskWr → Nat
  | .set c _ => c
  | .push c _ => c
  | .pop c _ => c

/-- perform the operations, in order, on the channels of model `mc` of thread `ti` -/
def applyWrites (e : Emu) (ti mc : Nat) : List TaskWr → Except Err Emu
  | [] => .ok e
  | w :: ws =>
    match (match w with
      | .set c v => withChan e ti mc c (·.set v)
      | .push c v => withChan e ti mc c (Chan.push e.maxStack · v)
      | .pop c v => withChan e ti mc c (·.pop v)) with
    | .error x => .error x
    | .ok e1 => applyWrites e1 ti mc ws

/-- `enum nosv_chan` / `enum nanos6_chan`: indices of the task channels -/
structure TaskChanIdx where
  bodyid : Option Nat
  taskid : Nat
  typ : Nat
  appid : Option Nat
  ss : Nat
  rank : Nat
deriving Repr

/-- `CH_BODYID = 0, CH_TASKID, CH_TYPE, CH_APPID, CH_SUBSYSTEM, CH_RANK, CH_IDLE` -/
def TaskChanIdx.nosv : TaskChanIdx := ⟨some 0, 1, 2, some 3, 4, 5⟩
/-- `CH_TASKID = 0, CH_TYPE, CH_SUBSYSTEM, CH_RANK, CH_THREAD, CH_IDLE` -/
def TaskChanIdx.nanos6 : TaskChanIdx := ⟨none, 0, 1, none, 2, 3⟩

def taskIdx : Ovni.Task.Model → TaskChanIdx
  | .nosv => .nosv
  | .nanos6 => .nanos6

/-- the channels the task layer can write -/
def TaskChanIdx.all (k : TaskChanIdx) : List Nat :=
  k.bodyid.toList ++ [k.taskid, k.typ] ++ k.appid.toList ++ [k.ss, k.rank]

/-- the `chan_set`s of `chan_body_running` / `chan_body_switch` / `chan_body_stopped`
    (`chan_task_*` for Nanos6), in source order; `vals = none`: stopped -/
def taskSets (k : TaskChanIdx) (P : Ovni.Task.ProcInfo) (vals : Option (Int × Int × Int)) : List TaskWr :=
  let v : (Int × Int × Int → Int) → Value := fun f =>
    match vals with
    | some x => .int (f x)
    | none => .null
  (match k.bodyid with | some c => [TaskWr.set c (v (·.1))] | none => []) ++
  [TaskWr.set k.taskid (v (·.2.1)), TaskWr.set k.typ (v (·.2.2))] ++
  (match k.appid with
    | some c => [TaskWr.set c (match vals with | some _ => .int P.appid | none => .null)]
    | none => []) ++
  (if P.rank ≥ 0 then [TaskWr.set k.rank (match vals with | some _ => .int (P.rank + 1) | none => .null)]
   else [])

/-- The channel operations of `update_task`, in the order of the C code:
    `update_task_ss_channel` first, then `update_task_channels`. -/
def taskWrites (m : Ovni.Task.Model) (P : Ovni.Task.ProcInfo) (tv : Ovni.Task.TaskEv) (tr : Ovni.Task.Tr)
    (next : Option (Ovni.Task.Task × Ovni.Task.Body)) : List TaskWr :=
  let k := taskIdx m
  (match tv with
    | .x => [TaskWr.push k.ss (.int m.cfg.stTaskBody)]
    | .e => [TaskWr.pop k.ss (.int m.cfg.stTaskBody)]
    | _ => []) ++
  (match tr with
    | .e | .p => taskSets k P none
    | _ =>
      match next with
      | some (T, B) => taskSets k P (some ((B.id : Int), (T.id : Int), (T.gid : Int)))
      | none => [])

/-- **The task hook.**  `ε`: task state of the thread's process before the
    event; `ev`: the decoded event.  The event must be accepted by the task layer
    (`Ovni.Task.Emu.step`: task / body rules, nesting, subsystem rule); a state
    event then performs `taskWrites` on the thread's channels (each `chan_set` /
    `chan_push` / `chan_pop` of the reference emulator may still refuse). -/
def taskHook (m : Ovni.Task.Model) (P : Ovni.Task.ProcInfo) (ε : Ovni.Task.Emu) (ev : Ovni.Task.Ev) :
    Emu → Nat → Nat → Nat → List Nat → Except Err Emu :=
  fun e ti mc _ _ =>
    match Ovni.Task.Emu.step m P ε ev with
    | .error _ => .error .task
    | .ok _ =>
      match ev with
      | .task th tv t bp =>
        if th ≠ ti then .error .other
        else
          match Ovni.Task.updateTaskState m ε.sys th tv t bp with
          | .error _ => .error .task
          | .ok sys' =>
            let prev := ε.sys.runningT th
            let next := sys'.runningT th
            applyWrites e ti mc (taskWrites m P tv (Ovni.Task.expand tv prev.isSome next.isSome) next)
      | .typeCreate _ _ _ => .ok e
      | .taskCreate _ _ _ => .ok e
      | .ssPush _ _ => .error .other
      | .ssPop _ _ => .error .other

end Ovni.Emu
