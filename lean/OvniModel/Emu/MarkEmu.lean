import OvniModel.Emu.View
import OvniModel.Rt.Mark

/-
  Mark types in the emulator (src/emu/ovni/mark.c): scan_thread / parse_mark /
  add_label merge the `ovni.mark` metadata of all threads (in thread order);
  every type gets a channel per thread (ALLOW_DUP, tracked ACTIVE on the thread
  row, RUNNING on the CPU row, Paraver type 100 + type, PRV_SKIPDUPNULL);
  mark_event handles OM[ OM] OM=.
-/
namespace Ovni.Emu
open Ovni.Rt.Mark

/-- A mark definition as found in one thread's metadata (already JSON-decoded):
    `chanType` is the string stored under "chan_type". -/
structure MarkIn where
  type : Int
  title : Option String
  chanType : Option String
  labels : List (Int × String) := []
deriving Repr

/-- merged table entry (`struct mark_type`) -/
structure MarkType where
  type : Int
  title : String
  stack : Bool
  labels : List (Int × String)
deriving DecidableEq, Repr

/-- `add_label`: same value twice is fine only with the same label. -/
def addLabel (ls : List (Int × String)) (v : Int) (l : String) : Except Err (List (Int × String)) :=
  match ls.find? (·.1 == v) with
  | some (_, l') => if l' = l then .ok ls else .error .other
  | none => .ok (ls ++ [(v, l)])

def addLabels (ls : List (Int × String)) : List (Int × String) → Except Err (List (Int × String))
  | [] => .ok ls
  | (v, l) :: r => match addLabel ls v l with
    | .error e => .error e
    | .ok ls' => addLabels ls' r

/-- `parse_mark` for one definition against the table so far. -/
def parseMark (tab : List MarkType) (d : MarkIn) : Except Err (List MarkType) :=
  if d.type < 0 || d.type ≥ 100 then .error .other else
  match d.title, d.chanType with
  | none, _ => .error .other
  | _, none => .error .other
  | some title, some ct =>
    if ct ≠ "single" && ct ≠ "stack" then .error .other else
    let stack : Bool := decide (ct = "stack")
    match tab.find? (·.type == d.type) with
    | none =>
      match addLabels [] d.labels with
      | .error e => .error e
      | .ok ls => .ok (tab ++ [{ type := d.type, title := title, stack := stack, labels := ls }])
    | some t =>
      if t.title ≠ title then .error .other
      else if t.stack ≠ stack then .error .other
      else match addLabels t.labels d.labels with
        | .error e => .error e
        | .ok ls => .ok (tab.map fun x => if x.type == d.type then { x with labels := ls } else x)

def parseMarks (tab : List MarkType) : List MarkIn → Except Err (List MarkType)
  | [] => .ok tab
  | d :: r => match parseMark tab d with
    | .error e => .error e
    | .ok tab' => parseMarks tab' r

/-- `mark_create`: scan every thread (gindex order), every definition. -/
def mergeMarks (threads : List (List MarkIn)) : Except Err (List MarkType) :=
  parseMarks [] threads.flatten

/-- pseudo model id of the mark channel group -/
def markGroup : Nat := 1000

/-- The mark types as a channel group: channel i = i-th created type. -/
def markSpec (tab : List MarkType) : ModelSpec :=
  { char := markGroup, nch := tab.length,
    chanStack := tab.map (·.stack), chanDup := tab.map (fun _ => true),
    pvtType := tab.map (fun t => Generated.prvOvniMark + t.type.toNat),
    prvFlags := tab.map (fun _ => Generated.prvSkipDupNull),
    thTrack := tab.map (fun _ => Generated.trackAct), cpuTrack := tab.map (fun _ => Generated.trackRun),
    table := [], cats := some [], stateReq := 0, checkOutOfCpu := false, lintChan := none }

/-- channel groups added to the emulator for a merged mark table -/
def markExtra (tab : List MarkType) : List ModelSpec := if tab.isEmpty then [] else [markSpec tab]

def i64At (p : List Nat) (k : Nat) : Int := toSigned 64 (leNat ((p.drop (8 * k)).take 8))

/-- `mark_event` -/
def markEvent (tab : List MarkType) (e : Emu) (ti v : Nat) (payload : List Nat) : Except Err Emu :=
  if payload.length ≠ 12 then .error .payload else
  let value := i64At payload 0
  let type := i32At payload 2
  match tab.findIdx? (·.type == type) with
  | none => .error .other                    -- "cannot find mark with type"
  | some idx =>
    if value = 0 then .error .other else
    if v = 91 then withChan e ti markGroup idx (Chan.push e.maxStack · (.int value))
    else if v = 93 then withChan e ti markGroup idx (·.pop (.int value))
    else if v = 61 then withChan e ti markGroup idx (·.set (.int value))
    else .error .unknownEvent

/-- PCF contents for the mark types: (type id, title, labels) -/
def markPcf (tab : List MarkType) : List (Nat × String × List (Int × String)) :=
  tab.map fun t => (Generated.prvOvniMark + t.type.toNat, t.title, t.labels)

end Ovni.Emu
