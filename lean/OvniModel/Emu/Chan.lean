/-
  Channels (src/emu/chan.c, value.c): single/stack channels with the dirty
  flag, `last_value`, and the DIRTY_WRITE / ALLOW_DUP / IGNORE_DUP properties.
  `Except`'s error is the class of the C `err()` site.
-/
namespace Ovni.Emu

inductive Value where
  | null
  | int (i : Int)
deriving DecidableEq, Repr

/-- Error classes (never message text). -/
inductive Err where
  | chanType        -- set on stack / push-pop on single
  | chanDirty       -- "cannot modify dirty channel"
  | chanDup         -- "same value as last_value"
  | stackFull
  | stackEmpty
  | stackMismatch   -- pop value differs from top
  | state           -- thread state / precondition guard
  | payload         -- wrong payload size
  | noCpu           -- cpu index not found / thread has no cpu
  | oversub         -- physical cpu oversubscribed
  | unknownEvent
  | notEnabled
  | cpuList         -- add existing / remove missing thread
  | prvZero         -- "forbidden value 0"
  | finish          -- thread not dead at the end / lint failure
  | task            -- task/body rule violated
  | other
deriving DecidableEq, Repr

structure Chan where
  isStack : Bool := false
  /-- single: `[v]` or `[]` (null); stack: bottom … top (top = last element) -/
  vals : List Value := []
  /-- value at the last flush (`last_value`) -/
  last : Value := .null
  dirty : Bool := false
  allowDup : Bool := false
  ignoreDup : Bool := false
  dirtyWrite : Bool := false
deriving Repr

/-- `get_value` / `chan_read` result. -/
def Chan.cur (c : Chan) : Value :=
  match c.vals.getLast? with
  | some v => v
  | none => .null

/-- `MAX_CHAN_STACK` is a parameter. -/
def Chan.set (c : Chan) (v : Value) : Except Err Chan :=
  if c.isStack then .error .chanType
  else if c.dirty && !c.dirtyWrite then .error .chanDirty
  else if !c.allowDup && c.last = v then
    (if c.ignoreDup then .ok c else .error .chanDup)
  else .ok { c with vals := (match v with | .null => [] | _ => [v]), dirty := true }

def Chan.push (maxStack : Nat) (c : Chan) (v : Value) : Except Err Chan :=
  if !c.isStack then .error .chanType
  else if c.dirty && !c.dirtyWrite then .error .chanDirty
  else if !c.allowDup && c.last = v then
    (if c.ignoreDup then .ok c else .error .chanDup)
  else if c.vals.length ≥ maxStack then .error .stackFull
  else .ok { c with vals := c.vals ++ [v], dirty := true }

def Chan.pop (c : Chan) (v : Value) : Except Err Chan :=
  if !c.isStack then .error .chanType
  else if c.dirty && !c.dirtyWrite then .error .chanDirty
  else match c.vals.getLast? with
    | none => .error .stackEmpty
    | some top =>
      if top ≠ v then .error .stackMismatch
      else .ok { c with vals := c.vals.dropLast, dirty := true }

/-- `chan_flush` at the end of `bay_propagate` (only dirty channels are on the list). -/
def Chan.flush (c : Chan) : Chan :=
  if c.dirty then { c with last := c.cur, dirty := false } else c

end Ovni.Emu
