/-
  Model of the metadata merge of the emulator (property C15):

    src/emu/trace.c    trace_load (the relpath sort of the streams)
    src/emu/system.c   system_init: create_system (is_thread_stream, create_loom,
                       create_proc, create_thread), set_sort_criteria, sort_lpt,
                       init_global_lists, init_global_indices, init_end_system,
                       report_libovni_version; the row names of system_connect
    src/emu/loom.c     loom_name, loom_init_begin, loom_load_metadata/load_cpus,
                       loom_find_cpu, loom_get_cpu, loom_add_cpu, loom_set_rank_min,
                       loom_sort, loom_init_end
    src/emu/proc.c     proc_stream_get_pid, proc_init_begin, load_appid, load_rank,
                       proc_add_thread, proc_sort, proc_init_end
    src/emu/thread.c   thread_stream_get_tid, thread_load_metadata
    src/emu/cpu.c      cpu_init_begin, set_name

  Representation.  The C keeps, per loom, a uthash of processes and one of CPUs,
  per process a uthash of threads; uthash iterates in insertion order and
  HASH_SORT / DL_SORT are stable merge sorts.  The model keeps the same data as
  four flat tables in *global insertion order* (`looms`, `procs`, `threads`,
  `cpus`, every row carrying its loom name / pid); "the hash of loom L" is the
  sub-list of rows of L, which is in the same (insertion) order as the C hash.
  `finish` regroups the tables into the loom → process → thread hierarchy the
  way `sort_lpt`/`init_global_lists` walk it.

  Numbers.  JSON numbers are modelled as integers that fit an `int`
  (`(int) json_number(..)` is the identity); a missing numeric key reads as 0
  exactly as `json_object_dotget_number` does.  Strings are byte lists.

  `Mode.asIs` is the code as it is in /repo.  `Mode.fixed` differs in exactly one
  place: `loom_get_cpu` called from `load_cpus` looks the index up among the CPUs
  already in the hash instead of indexing the (not yet allocated) `cpus_array`.
-/
namespace Ovni.Emu.System

/-- C strings as lists of byte values (no NUL). -/
abbrev Str := List Nat

/-- Error classes (one per `err(...)` exit that the modelled functions have). -/
inductive Err where
  | noPart            -- is_thread_stream: no ovni.part
  | noLoom            -- loom_name: no ovni.loom
  | loomName          -- loom_init_begin: '/' in the name, or name too long
  | cpusEmpty         -- load_cpus: empty array
  | cpuIndexNeg       -- load_cpus: index < 0
  | cpuIndexMismatch  -- load_cpus: phyid known with another index
  | cpuIndexRedefined -- load_cpus: index known with another phyid
  | cpuPhyidNeg       -- loom_add_cpu: negative phyid
  | pid               -- proc_stream_get_pid
  | appidMismatch     -- load_appid
  | appidNonPos       -- load_appid
  | rankNeg | rankMismatch | nranksMissing | nranksNonPos | nranksMismatch | rankRange -- load_rank
  | tid               -- thread_stream_get_tid
  | dupThread         -- create_thread: thread with tid already exists
  | notFinished       -- thread_load_metadata
  | rankMissing       -- loom_set_rank_min: process has no rank information
  | appidMissing      -- proc_init_end: appid not set
  | rankMinUnset      -- loom_init_end
  | noCpus            -- loom_init_end: loom has no physical CPUs
  | cpuIndexOob       -- loom_init_end: cpu index out of bounds
  | cpuIndexTaken     -- loom_init_end: cpu with index already taken
  | noVersion | noCommit -- report_libovni_version
  deriving DecidableEq, Repr

/-- Result of a modelled C function: returned 0 / returned -1 after `err(..)` /
    the C code would dereference NULL. -/
inductive Res (α : Type) where
  | ok (a : α)
  | error (e : Err)
  | crash
  deriving DecidableEq, Repr

def Res.bind {α β : Type} : Res α → (α → Res β) → Res β
  | .ok a, f => f a
  | .error e, _ => .error e
  | .crash, _ => .crash

inductive Mode where
  | asIs | fixed
  deriving DecidableEq, Repr

/-! ### Input -/

/-- The attributes that belong to the stream (thread) itself. `pid`, `tid`,
    `finished` are 0 when the key is absent (`json_object_dotget_number`). -/
structure ThreadPart where
  relpath : Str
  part : Option Str
  loom : Option Str
  pid : Int
  tid : Int
  finished : Int
  hasVersion : Bool
  hasCommit : Bool
  deriving DecidableEq, Repr

/-- One stream's metadata: the thread part plus the per-process (`appId`,
    `rank`, `nranks`) and per-loom (`cpus` = list of (index, phyid)) attributes
    that this stream happens to carry. -/
structure StreamMeta where
  tp : ThreadPart
  appId : Option Int
  rank : Option Int
  nranks : Option Int
  cpus : Option (List (Int × Int))
  deriving DecidableEq, Repr

def sThread : Str := [116, 104, 114, 101, 97, 100]   -- "thread"
def cSlash : Nat := 47
def pathMax : Nat := 4096
def intMax : Int := 2147483647

/-! ### strcmp and the stable sort -/

/-- `strcmp` on unsigned bytes. -/
def cmpStr : Str → Str → Ordering
  | [], [] => .eq
  | [], _ :: _ => .lt
  | _ :: _, [] => .gt
  | a :: as, b :: bs => if a < b then .lt else if b < a then .gt else cmpStr as bs

def leStr (a b : Str) : Bool := cmpStr a b != .gt

/-- Insert `x` before the first element `y` with `x ≤ y`. -/
def insertBy {α : Type} (le : α → α → Bool) (x : α) : List α → List α
  | [] => [x]
  | y :: ys => if le x y then x :: y :: ys else y :: insertBy le x ys

/-- Stable sort (`DL_SORT`, `HASH_SORT`: stable merge sorts; the result of a
    stable sort is unique, so insertion from the right models it). -/
def sortBy {α : Type} (le : α → α → Bool) : List α → List α
  | [] => []
  | x :: xs => insertBy le x (sortBy le xs)

/-- `trace_load`: streams are sorted by relpath (`cmp_streams`) whatever the
    order in which `nftw` enumerated them. -/
def load (ss : List StreamMeta) : List StreamMeta :=
  sortBy (fun a b => leStr a.tp.relpath b.tp.relpath) ss

/-! ### State built by create_system -/

structure ProcRow where
  loom : Str
  pid : Int
  appid : Int
  rank : Int
  nranks : Int
  deriving DecidableEq, Repr

structure ThreadRow where
  loom : Str
  pid : Int
  tid : Int
  hasVersion : Bool
  hasCommit : Bool
  deriving DecidableEq, Repr

structure CpuRow where
  loom : Str
  index : Int
  phyid : Int
  deriving DecidableEq, Repr

structure Sys where
  looms : List Str
  procs : List ProcRow
  threads : List ThreadRow
  cpus : List CpuRow
  deriving DecidableEq, Repr

def Sys.empty : Sys := ⟨[], [], [], []⟩

/-! ### loom.c: load_cpus -/

/-- `loom->ncpus`. -/
def ncpus (cpus : List CpuRow) (n : Str) : Nat :=
  (cpus.filter (fun c => c.loom = n)).length

/-- `loom_find_cpu` for a physical id (`HASH_FIND_INT`). -/
def findCpu (cpus : List CpuRow) (n : Str) (phyid : Int) : Option CpuRow :=
  cpus.find? (fun c => c.loom = n ∧ c.phyid = phyid)

def findCpuIdx (cpus : List CpuRow) (n : Str) (index : Int) : Option CpuRow :=
  cpus.find? (fun c => c.loom = n ∧ c.index = index)

/-- `loom_get_cpu` as `load_cpus` calls it, i.e. before `loom_init_end`
    allocated `cpus_array` (it is NULL): `ok true` = a CPU was returned,
    `ok false` = NULL returned, `crash` = `loom->cpus_array[index]` is
    evaluated with `cpus_array == NULL`. -/
def getCpuEarly (m : Mode) (cpus : List CpuRow) (n : Str) (index : Int) : Res Bool :=
  match m with
  | .asIs =>
    if index = -1 then .ok true
    else if index < 0 ∨ index ≥ (ncpus cpus n : Int) then .ok false
    else .crash
  | .fixed =>
    if index = -1 then .ok true
    else .ok (findCpuIdx cpus n index).isSome

/-- One iteration of the loop of `load_cpus`. -/
def loadCpuEntry (m : Mode) (n : Str) (cpus : List CpuRow) (e : Int × Int) : Res (List CpuRow) :=
  let index := e.1
  let phyid := e.2
  if index < 0 then .error .cpuIndexNeg
  else if phyid = -1 then
    -- loom_find_cpu returns the virtual CPU, whose index is -1 ≠ index
    .error .cpuIndexMismatch
  else
    match findCpu cpus n phyid with
    | some c => if c.index ≠ index then .error .cpuIndexMismatch else .ok cpus
    | none =>
      match getCpuEarly m cpus n index with
      | .crash => .crash
      | .error e => .error e
      | .ok true => .error .cpuIndexRedefined
      | .ok false =>
        -- cpu_init_begin; loom_add_cpu
        if phyid < 0 then .error .cpuPhyidNeg
        else .ok (cpus ++ [⟨n, index, phyid⟩])

def loadCpuList (m : Mode) (n : Str) : List CpuRow → List (Int × Int) → Res (List CpuRow)
  | cpus, [] => .ok cpus
  | cpus, e :: es =>
    match loadCpuEntry m n cpus e with
    | .ok cpus' => loadCpuList m n cpus' es
    | .error x => .error x
    | .crash => .crash

/-- `load_cpus` / `loom_load_metadata`. -/
def loadCpus (m : Mode) (n : Str) (cpus : List CpuRow) : Option (List (Int × Int)) → Res (List CpuRow)
  | none => .ok cpus
  | some [] => .error .cpusEmpty
  | some (e :: es) => loadCpuList m n cpus (e :: es)

/-! ### proc.c: load_appid, load_rank -/

def loadAppid (p : ProcRow) : Option Int → Res ProcRow
  | none => .ok p
  | some a =>
    if p.appid ≠ 0 ∧ p.appid ≠ a then .error .appidMismatch
    else if a ≤ 0 then .error .appidNonPos
    else .ok { p with appid := a }

def loadRank (p : ProcRow) (rank nranks : Option Int) : Res ProcRow :=
  match rank with
  | none => .ok p
  | some r =>
    if r < 0 then .error .rankNeg
    else if p.rank ≥ 0 ∧ p.rank ≠ r then .error .rankMismatch
    else match nranks with
      | none => .error .nranksMissing
      | some k =>
        if k ≤ 0 then .error .nranksNonPos
        else if p.nranks > 0 ∧ p.nranks ≠ k then .error .nranksMismatch
        else if r ≥ k then .error .rankRange
        else .ok { p with rank := r, nranks := k }

/-- `proc_load_metadata`. -/
def loadProc (p : ProcRow) (s : StreamMeta) : Res ProcRow :=
  (loadAppid p s.appId).bind fun p' => loadRank p' s.rank s.nranks

def isProc (n : Str) (pid : Int) (p : ProcRow) : Prop := p.loom = n ∧ p.pid = pid
instance (n : Str) (pid : Int) (p : ProcRow) : Decidable (isProc n pid p) := by
  unfold isProc; exact inferInstance

/-- `loom_find_proc`. -/
def findProc (procs : List ProcRow) (n : Str) (pid : Int) : Option ProcRow :=
  procs.find? (fun p => isProc n pid p)

def setProc (procs : List ProcRow) (n : Str) (pid : Int) (q : ProcRow) : List ProcRow :=
  procs.map (fun p => if isProc n pid p then q else p)

def isThread (n : Str) (pid tid : Int) (t : ThreadRow) : Prop := t.loom = n ∧ t.pid = pid ∧ t.tid = tid
instance (n : Str) (pid tid : Int) (t : ThreadRow) : Decidable (isThread n pid tid t) := by
  unfold isThread; exact inferInstance

/-! ### system.c: create_system -/

/-- `create_loom`: `loom_name`, `find_loom`, `loom_init_begin`, then
    `loom_load_metadata`. Returns the loom name too. -/
def createLoom (m : Mode) (sys : Sys) (s : StreamMeta) : Res (Str × List Str × List CpuRow) :=
  match s.tp.loom with
  | none => .error .noLoom
  | some n =>
    let looms : Res (List Str) :=
      if n ∈ sys.looms then .ok sys.looms
      else if cSlash ∈ n ∨ n.length ≥ pathMax then .error .loomName
      else .ok (sys.looms ++ [n])
    looms.bind fun ls =>
    (loadCpus m n sys.cpus s.cpus).bind fun cs => .ok (n, ls, cs)

/-- `create_proc`: `proc_stream_get_pid`, `loom_find_proc`, `proc_init_begin` +
    `loom_add_proc` when new, then `proc_load_metadata`. -/
def createProc (procs : List ProcRow) (n : Str) (s : StreamMeta) : Res (List ProcRow) :=
  let pid := s.tp.pid
  if pid ≤ 0 then .error .pid
  else
    let procs' := match findProc procs n pid with
      | some _ => procs
      | none => procs ++ [⟨n, pid, 0, -1, 0⟩]
    match findProc procs' n pid with
    | none => .ok procs'   -- unreachable
    | some p => (loadProc p s).bind fun p' => .ok (setProc procs' n pid p')

/-- `create_thread`: `thread_stream_get_tid`, `proc_find_thread`,
    `thread_load_metadata` (finished flag), `proc_add_thread`. -/
def createThread (threads : List ThreadRow) (n : Str) (s : StreamMeta) : Res (List ThreadRow) :=
  let tid := s.tp.tid
  if tid ≤ 0 then .error .tid
  else if threads.any (fun t => isThread n s.tp.pid tid t) then .error .dupThread
  else if s.tp.finished ≠ 1 then .error .notFinished
  else .ok (threads ++ [⟨n, s.tp.pid, tid, s.tp.hasVersion, s.tp.hasCommit⟩])

/-- Body of the loop of `create_system` for one stream. -/
def step (m : Mode) (sys : Sys) (s : StreamMeta) : Res Sys :=
  match s.tp.part with
  | none => .error .noPart
  | some p =>
    if p ≠ sThread then .ok sys      -- "ignoring unknown stream"
    else
      (createLoom m sys s).bind fun (n, ls, cs) =>
      (createProc sys.procs n s).bind fun ps =>
      (createThread sys.threads n s).bind fun ts =>
      .ok ⟨ls, ps, ts, cs⟩

/-- `create_system`. -/
def createFrom (m : Mode) : Sys → List StreamMeta → Res Sys
  | sys, [] => .ok sys
  | sys, s :: r =>
    match step m sys s with
    | .ok sys' => createFrom m sys' r
    | .error e => .error e
    | .crash => .crash

def create (m : Mode) (l : List StreamMeta) : Res Sys := createFrom m Sys.empty l

/-! ### The sorted hierarchy -/

structure HProc where
  pid : Int
  appid : Int
  rank : Int
  nranks : Int
  threads : List ThreadRow      -- sorted by tid
  deriving DecidableEq, Repr

structure HLoom where
  name : Str
  rankEnabled : Bool
  rankMin : Int
  procs : List HProc            -- sorted by rank or pid
  cpus : List CpuRow            -- sorted by phyid (the virtual CPU is implicit, last)
  deriving DecidableEq, Repr

structure Hier where
  sortByRank : Bool
  looms : List HLoom
  deriving DecidableEq, Repr

def leInt (a b : Int) : Bool := decide (a ≤ b)

/-- `loom_set_rank_min` (rank_enabled, rank_min) for the processes of one loom. -/
def rankMinOf (ps : List ProcRow) : Int :=
  ps.foldl (fun acc p => if p.rank < acc then p.rank else acc) intMax

/-- `proc_sort`. -/
def mkProc (threads : List ThreadRow) (p : ProcRow) : HProc :=
  { pid := p.pid, appid := p.appid, rank := p.rank, nranks := p.nranks,
    threads := sortBy (fun a b => leInt a.tid b.tid)
      (threads.filter (fun t => t.loom = p.loom ∧ t.pid = p.pid)) }

/-- `loom_set_rank_min` followed (later) by `loom_sort` for one loom. -/
def mkLoom (sys : Sys) (n : Str) : Res HLoom :=
  let ps := sys.procs.filter (fun p => p.loom = n)
  let enabled := ps.any (fun p => decide (p.rank ≥ 0))
  if enabled ∧ ps.any (fun p => decide (p.rank < 0)) then .error .rankMissing
  else
    let rmin := if enabled then rankMinOf ps else intMax
    let sorted := if enabled then sortBy (fun a b => leInt a.rank b.rank) ps
                  else sortBy (fun a b => leInt a.pid b.pid) ps
    .ok { name := n, rankEnabled := enabled, rankMin := rmin,
          procs := sorted.map (mkProc sys.threads),
          cpus := sortBy (fun a b => leInt a.phyid b.phyid) (sys.cpus.filter (fun c => c.loom = n)) }

/-- `set_sort_criteria` loop (stops at the first failing loom). -/
def mkLooms (sys : Sys) : List Str → Res (List HLoom)
  | [] => .ok []
  | n :: r =>
    match mkLoom sys n with
    | .ok l => (mkLooms sys r).bind fun ls => .ok (l :: ls)
    | .error e => .error e
    | .crash => .crash

/-- `sort_lpt`: looms by rank_min when every loom has ranks, else by name. -/
def sortLooms (ls : List HLoom) : Bool × List HLoom :=
  let byRank := ls.all (fun l => l.rankEnabled)
  (byRank, if byRank then sortBy (fun a b => leInt a.rankMin b.rankMin) ls
           else sortBy (fun a b => leStr a.name b.name) ls)

/-- Array fill of `loom_init_end`: walk the CPUs (sorted by phyid), `taken` =
    indices already placed in `cpus_array`. -/
def fillArray (n : Nat) : List Int → List CpuRow → Res Unit
  | _, [] => .ok ()
  | taken, c :: cs =>
    if c.index < 0 ∨ c.index ≥ (n : Int) then .error .cpuIndexOob
    else if c.index ∈ taken then .error .cpuIndexTaken
    else fillArray n (c.index :: taken) cs

/-- Body of `init_end_system` for one loom: `proc_init_end` of every process,
    then `loom_init_end`. -/
def initEndLoom (l : HLoom) : Res Unit :=
  if l.procs.any (fun p => decide (p.appid ≤ 0)) then .error .appidMissing
  else if l.rankEnabled ∧ l.rankMin = intMax then .error .rankMinUnset
  else if l.cpus.length = 0 then .error .noCpus
  else fillArray l.cpus.length [] l.cpus

def initEnd : List HLoom → Res Unit
  | [] => .ok ()
  | l :: ls =>
    match initEndLoom l with
    | .ok _ => initEnd ls
    | .error e => .error e
    | .crash => .crash

/-- Threads in global order (`init_global_lists`). -/
def Hier.threads (h : Hier) : List (HProc × ThreadRow) :=
  h.looms.flatMap fun l => l.procs.flatMap fun p => p.threads.map fun t => (p, t)

/-- `report_libovni_version`: every thread must carry lib.version and lib.commit. -/
def reportVersion : List (HProc × ThreadRow) → Res Unit
  | [] => .ok ()
  | (_, t) :: r =>
    if ¬ t.hasVersion then .error .noVersion
    else if ¬ t.hasCommit then .error .noCommit
    else reportVersion r

/-- Everything `system_init` does after `create_system`. -/
def finish (sys : Sys) : Res Hier :=
  (mkLooms sys sys.looms).bind fun ls =>
  let (byRank, sorted) := sortLooms ls
  let h : Hier := ⟨byRank, sorted⟩
  (initEnd sorted).bind fun _ =>
  (reportVersion h.threads).bind fun _ => .ok h

/-- `trace_load` + `system_init` for a set of streams given in any
    enumeration order. -/
def build (m : Mode) (ss : List StreamMeta) : Res Hier :=
  (create m (load ss)).bind finish

/-! ### Rows (system_connect) -/

/-- Rows of `thread.prv`: row `i+1` is named `"TH <appid>.<tid>"`. -/
def Hier.threadRows (h : Hier) : List (Int × Int) :=
  h.threads.map fun (p, t) => (p.appid, t.tid)

def loomCpuRows (i : Nat) (l : HLoom) : List (Nat × Option Int) :=
  l.cpus.map (fun c => (i, some c.phyid)) ++ [(i, none)]

def cpuRowsFrom : Nat → List HLoom → List (Nat × Option Int)
  | _, [] => []
  | i, l :: ls => loomCpuRows i l ++ cpuRowsFrom (i + 1) ls

/-- Rows of `cpu.prv`: `(i, some phyid)` is `" CPU i.phyid"`, `(i, none)` is the
    virtual CPU `"vCPU i.*"` of loom number `i` (the loom's gindex). -/
def Hier.cpuRows (h : Hier) : List (Nat × Option Int) := cpuRowsFrom 0 h.looms

/-- The `ok` part of an outcome. -/
def Res.okPart {α : Type} : Res α → Option α
  | .ok a => some a
  | _ => none

end Ovni.Emu.System
