import OvniModel.Emu.Bay

/-
  Specification vocabulary for the bay / mux mechanism (C06): what a mux
  output must show, the structural invariant of a connected bay, the frame
  condition under which one mux can be reasoned about inside a network, and
  the "in sync" relation between a mux and its channels.
-/
namespace Ovni.Emu

/-- What the output shows when the select function picks `s`: the default, or
    the current value of input `s`. -/
def Bay.specVal (b : Bay) (m : Mux) : Option Nat → Value
  | none => m.dflt
  | some i =>
    match m.inputs[i]? with
    | some (some c) => (b.chan c).cur
    | _ => .null

/-- The `cb_input` callback of input `i` of mux `mi` is on its channel's list. -/
def Bay.enabled (b : Bay) (mi : Nat) (m : Mux) (i : Nat) : Prop :=
  ∃ c, m.inputs[i]? = some (some c) ∧ Cb.muxInput mi i ∈ b.cbsOf c

/-- Structural invariant of a bay built with `register` / `muxInit` /
    `muxSetInput` and then only written and propagated. -/
structure Bay.WF (b : Bay) : Prop where
  cbsLen : b.cbs.length = b.chans.length
  selLen : b.selected.length = b.muxes.length
  selLt : ∀ (mi : Nat) (m : Mux), b.muxes[mi]? = some m → m.sel < b.chans.length
  outLt : ∀ (mi : Nat) (m : Mux), b.muxes[mi]? = some m → m.out < b.chans.length
  inLt : ∀ (mi : Nat) (m : Mux) (i c : Nat), b.muxes[mi]? = some m → m.inputs[i]? = some (some c) → c < b.chans.length
  /-- no mux uses its own select channel as an input (then a channel's callback
      list does not change while it is being walked) -/
  selNotIn : ∀ (mi : Nat) (m : Mux) (i : Nat), b.muxes[mi]? = some m → m.inputs[i]? ≠ some (some m.sel)
  /-- `mux_init` made every output ALLOW_DUP -/
  outDup : ∀ (mi : Nat) (m : Mux), b.muxes[mi]? = some m → (b.chan m.out).allowDup = true
  /-- the select callback is always enabled, on the select channel only -/
  selCb : ∀ (mi : Nat) (m : Mux), b.muxes[mi]? = some m → Cb.muxSelect mi ∈ b.cbsOf m.sel
  selCbOnly : ∀ (c mi : Nat), Cb.muxSelect mi ∈ b.cbsOf c → ∃ m, b.muxes[mi]? = some m ∧ m.sel = c
  inCbOnly : ∀ (c mi i : Nat), Cb.muxInput mi i ∈ b.cbsOf c →
    ∃ m, b.muxes[mi]? = some m ∧ m.inputs[i]? = some (some c)
  cbsNodup : ∀ c, (b.cbsOf c).Nodup
  dirtyNodup : b.dirty.Nodup
  /-- the dirty list holds exactly the dirty channels (`set_dirty` + `cb_chan_is_dirty`) -/
  dirtyIff : ∀ c, c ∈ b.dirty ↔ (b.chan c).dirty = true

/-- Nothing is pending: the state between two events. -/
def Bay.Clean (b : Bay) : Prop := b.dirty = [] ∧ ∀ c, (b.chan c).dirty = false

/-- Frame condition for mux `mi` inside a network: no mux output (its own
    included) is the select or an input of `mi`, and no other mux shares its
    output.  Outputs may feed other muxes downstream. -/
def Bay.Frame (b : Bay) (mi : Nat) (m : Mux) : Prop :=
  ∀ (mj : Nat) (m' : Mux), b.muxes[mj]? = some m' →
    m'.out ≠ m.sel ∧ (∀ i : Nat, m.inputs[i]? ≠ some (some m'.out)) ∧ (mj ≠ mi → m'.out ≠ m.out)

/-- At most the input recorded in `mux->selected` has its callback enabled. -/
def Bay.Weak (b : Bay) (mi : Nat) (m : Mux) : Prop :=
  ∀ i, b.enabled mi m i → b.selOf mi = some i

/-- The mux agrees with its select channel, and its output shows the
    specified value unless the selected input `i` (channel `c`) is still
    pending (`P i c`).  `strong`: `mux->selected` equals the select function's
    answer (false only before the select channel's first propagation). -/
def Bay.SyncUpTo (strong : Bool) (b : Bay) (mi : Nat) (m : Mux) (P : Nat → Nat → Prop) : Prop :=
  ∃ s, m.selectInput (b.chan m.sel).cur = .ok s ∧
    (∀ i, b.enabled mi m i ↔ s = some i) ∧
    (strong = true → b.selOf mi = s) ∧
    ((b.chan m.out).cur = b.specVal m s ∨
      ∃ i c, s = some i ∧ m.inputs[i]? = some (some c) ∧ P i c)

/-- The mux is in sync: enabled input = selected input = `f(select)`, and
    `output = spec(select, inputs)`. -/
def Bay.MuxSync (strong : Bool) (b : Bay) (mi : Nat) (m : Mux) : Prop :=
  b.Weak mi m ∧ b.SyncUpTo strong mi m (fun _ _ => False)

/-- Conditions under which `bay_propagate` cannot fail: every input is
    connected, `selected` is in range, outputs are single DIRTY_WRITE channels
    (`mux_init`), every select function is defined on its select channel's
    current value, and select channels are not mux outputs (so their values do
    not move during the propagation). -/
structure Bay.Safe (b : Bay) : Prop where
  inSet : ∀ (mi : Nat) (m : Mux) (i : Nat), b.muxes[mi]? = some m → i < m.inputs.length →
    ∃ c, m.inputs[i]? = some (some c)
  selRange : ∀ (mi : Nat) (m : Mux) (j : Nat), b.muxes[mi]? = some m → b.selOf mi = some j →
    j < m.inputs.length
  outOk : ∀ (mi : Nat) (m : Mux), b.muxes[mi]? = some m →
    (b.chan m.out).isStack = false ∧ (b.chan m.out).dirtyWrite = true
  selOk : ∀ (mi : Nat) (m : Mux), b.muxes[mi]? = some m →
    ∃ s, m.selectInput (b.chan m.sel).cur = .ok s
  selRaw : ∀ (mi : Nat) (m : Mux) (mj : Nat) (m' : Mux), b.muxes[mi]? = some m →
    b.muxes[mj]? = some m' → m'.out ≠ m.sel

/-- Two-level wiring: every select and input channel is a source (id below
    `L`: thread state, `th_running`, raw model channels), every output is above
    `L` and private to its mux. -/
def Bay.Layered (b : Bay) (L : Nat) : Prop :=
  ∀ (mi : Nat) (m : Mux), b.muxes[mi]? = some m →
    m.sel < L ∧ (∀ (i c : Nat), m.inputs[i]? = some (some c) → c < L) ∧ L ≤ m.out ∧
    ∀ (mj : Nat) (m' : Mux), b.muxes[mj]? = some m' → mj ≠ mi → m'.out ≠ m.out

/-- No `cb_input` callback is enabled anywhere (true until the first propagation). -/
def Bay.NoInputCbs (b : Bay) : Prop := ∀ (c mj i : Nat), Cb.muxInput mj i ∉ b.cbsOf c

/-- Every channel still null (just connected, nothing written yet). -/
def Bay.AllNull (b : Bay) : Prop := ∀ c : Nat, (b.chan c).cur = .null

/-- Channel operations: they either leave the channel alone or make it dirty,
    and never touch the properties. -/
def ChanOp (f : Chan → Except Err Chan) : Prop :=
  ∀ ch ch', f ch = .ok ch' →
    (ch' = ch ∨ ch'.dirty = true) ∧ ch'.allowDup = ch.allowDup ∧ ch'.isStack = ch.isStack ∧
    ch'.dirtyWrite = ch.dirtyWrite ∧ ch'.ignoreDup = ch.ignoreDup


/-- The writes of one event: any sequence of successful channel operations
    (`chan_set` / `chan_push` / `chan_pop`, in any order, any number) on
    channels satisfying `ok`. -/
inductive Bay.Writes (ok : Nat → Prop) : Bay → Bay → Prop
  | nil (b : Bay) : Bay.Writes ok b b
  | snoc {b b1 b2 : Bay} {c : Nat} {f : Chan → Except Err Chan} :
      Bay.Writes ok b b1 → ok c → ChanOp f → b1.write c f = .ok b2 → Bay.Writes ok b b2

end Ovni.Emu
