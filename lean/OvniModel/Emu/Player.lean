import OvniModel.Emu.Heap

/-!
# Model of the emulator's replay: `src/emu/player.c` on top of `heap.h`

A stream is its list of events (the byte-level cursor of `stream.c` is the
subject of C12/C19; here `stream_step` is modelled on the decoded event list),
its `relpath`, its clock offset and the cursor state `stream_step` keeps.
Clocks are unbounded `Int` (the C uses `int64_t`: assumed not to overflow).

* `trace_load`      → `traceLoad`     (stable merge sort by `strcmp` of relpath)
* `init_offsets`    → `applyOffsets`  (per-loom offset from the table, by host name)
* `stream_step`     → `streamStep`
* `stream_cmp`      → `streamCmp`, `sgt`
* `step_stream`     → `stepStream`
* `player_init`     → `playerInit`   (+ `check_clock_gate` → `clockGate`)
* `update_clocks`   → `updateClocks`
* `player_step`     → `playerStep`
* the `while (player_step() == 0) emit` loop of `ovnidump`/`emu_step` → `run`
-/
namespace Ovni.Player
open Ovni.Heap

abbrev Str := List Nat

structure Ev where
  /-- `(int64_t) ovni_ev_get_clock(ev)` -/
  clock : Int
  /-- identity of the event (MCV, payload, … are irrelevant to the player) -/
  tag : Nat
  deriving DecidableEq, Repr

/-- The part of `struct stream` the player reads and writes. -/
structure Stream where
  relpath : Str
  /-- `clock_offset` -/
  offset : Int
  unsorted : Bool
  active : Bool
  /-- `cur_ev` -/
  cur : Option Ev
  /-- the events after the cursor (`buf[offset + size(cur_ev) ..]`) -/
  rest : List Ev
  lastclock : Int
  deriving Repr

/-- `stream_load`/`load_obs`: zeroed struct, active iff there is at least one event. -/
def Stream.load (relpath : Str) (evs : List Ev) : Stream :=
  { relpath, offset := 0, unsorted := false, active := !evs.isEmpty, cur := none, rest := evs,
    lastclock := 0 }

/-- `stream_clkoff_set` -/
def Stream.clkoffSet (s : Stream) (off : Int) : Option Stream :=
  if s.cur.isSome then none
  else if s.offset ≠ 0 then none
  else some { s with offset := off }

/-- `stream_evclock` -/
def Stream.evclock (s : Stream) (e : Ev) : Int := e.clock + s.offset

inductive StepRes where
  | err
  | eof (s : Stream)
  | ok (s : Stream)

/-- `stream_step`: -1 / +1 / 0. -/
def streamStep (s : Stream) : StepRes :=
  if !s.active then .err else
  match s.cur, s.rest with
  | some _, [] => .eof { s with active := false, cur := none }
  | none, [] => .err   -- active with nothing to read: excluded by load_obs
  | _, e :: rest =>
    let clock := s.evclock e
    -- the first event of a stream (`cur_ev == NULL`) has no previous clock
    if !s.unsorted && s.cur.isSome && clock < s.lastclock then .err
    else .ok { s with cur := some e, rest := rest, lastclock := clock }

/-- `stream_cmp`: inverted comparison of `lastclock`, giving a min-heap. -/
def streamCmp (a b : Stream) : Int :=
  if a.lastclock < b.lastclock then 1
  else if a.lastclock > b.lastclock then -1
  else 0

/-- `cmp(a, b) > 0` for `stream_cmp`. -/
def sgt (a b : Stream) : Bool := decide (streamCmp a b > 0)

structure Player where
  heap : Heap Stream
  firstEvent : Bool
  firstclock : Int
  lastclock : Int
  deltaclock : Int
  /-- `player->stream`: the stream of the last emitted event -/
  stream : Option Stream
  unsorted : Bool
  nprocessed : Nat

/-- `step_stream`.  `none` = -1; otherwise the player, the stream as
    `stream_step` left it, and the return value (0 inserted, 1 nothing more). -/
def stepStream (p : Player) (s : Stream) : Option (Player × Stream × Nat) :=
  if !s.active then some (p, s, 1) else
  match streamStep s with
  | .err => none
  | .eof s' => some (p, s', 1)
  | .ok s' =>
    match insert sgt p.heap s' with
    | none => none
    | some h => some ({ p with heap := h, nprocessed := p.nprocessed + 1 }, s', 0)

/-- The `DL_FOREACH` of `player_init`; returns the streams as they are left
    in the trace list. -/
def initLoop (unsorted : Bool) : Player → List Stream → Option (Player × List Stream)
  | p, [] => some (p, [])
  | p, s :: ss =>
    let s1 := if unsorted then { s with unsorted := true } else s
    match stepStream p s1 with
    | none => none
    | some (p', s', _) =>
      match initLoop unsorted p' ss with
      | none => none
      | some (p'', ss') => some (p'', s' :: ss')

/-- one hour in nanoseconds -/
def maxgate : Int := 3600 * 1000 * 1000 * 1000

/-- `check_clock_gate` (true = passes): the first events of all active streams
    lie within one hour of the first active stream's. -/
def clockGate (ss : List Stream) : Bool :=
  let act := ss.filter (·.active)
  match act with
  | [] => true
  | s0 :: _ =>
    let t0 := match s0.cur with | some e => s0.evclock e | none => 0
    act.all fun s =>
      let sc := match s.cur with | some e => s.evclock e | none => 0
      decide ((t0 - sc).natAbs ≤ maxgate.toNat)

def Player.init0 (unsorted : Bool) : Player :=
  { heap := Heap.empty, firstEvent := true, firstclock := 0, lastclock := 0, deltaclock := 0,
    stream := none, unsorted, nprocessed := 0 }

/-- `player_init` -/
def playerInit (ss : List Stream) (unsorted : Bool) : Option Player :=
  match initLoop unsorted (Player.init0 unsorted) ss with
  | none => none
  | some (p, ss') =>
    if !unsorted && !clockGate ss' then none else some p

/-- `update_clocks` -/
def updateClocks (p : Player) (s : Stream) : Option Player :=
  let sclock := s.lastclock
  let p1 := if p.firstEvent then { p with firstEvent := false, firstclock := sclock, lastclock := sclock }
            else p
  if sclock < p1.lastclock && !p1.unsorted then none
  else some { p1 with lastclock := sclock, deltaclock := sclock - p1.firstclock }

/-- What `emit`/`emu_step` sees after a successful `player_step`. -/
structure Out where
  relpath : Str
  ev : Ev
  /-- `ev->sclock` = `player->lastclock` -/
  sclock : Int
  /-- `ev->dclock` = `player->deltaclock` -/
  dclock : Int
  deriving DecidableEq, Repr

inductive PStep where
  | err
  | fin (p : Player)
  | ev (p : Player) (o : Out)

/-- First statement of `player_step`: put the stream of the previous event
    back if it has more events (`step_stream(player, player->stream)`).
    `player->stream` keeps pointing to the (mutated) stream. -/
def readd (p : Player) : Option Player :=
  match p.stream with
  | none => some p
  | some s => (stepStream p s).map fun r => { r.1 with stream := some r.2.1 }

/-- `player_step` -/
def playerStep (p : Player) : PStep :=
  match readd p with
  | none => .err
  | some p1 =>
    match popMax sgt p1.heap with
    | none => .err
    | some (none, _) => .fin p1
    | some (some s, h) =>
      match updateClocks { p1 with heap := h } s with
      | none => .err
      | some p3 =>
        match s.cur with
        | none => .err
        | some e => .ev { p3 with stream := some s } ⟨s.relpath, e, p3.lastclock, p3.deltaclock⟩

/-- `while ((ret = player_step(player)) == 0) emit(...)`; `none` = error
    (or fuel exhausted, which `Lemmas/Player` shows impossible for the fuel
    used by `replay`). -/
def run : Nat → Player → Option (List Out)
  | 0, _ => none
  | f + 1, p =>
    match playerStep p with
    | .err => none
    | .fin _ => some []
    | .ev p' o => (run f p').map (o :: ·)

def totalEvents (ss : List Stream) : Nat := (ss.map (·.rest.length)).sum

/-- `player_init` followed by the step loop, on loaded streams in trace-list
    order. -/
def replay (unsorted : Bool) (ss : List Stream) : Option (List Out) :=
  match playerInit ss unsorted with
  | none => none
  | some p => run (totalEvents ss + 1) p

/-! ### Loading: `trace_load` and `init_offsets` -/

/-- `strcmp(a, b) <= 0` on byte strings. -/
def strLe : Str → Str → Bool
  | [], _ => true
  | _ :: _, [] => false
  | a :: as, b :: bs => if a < b then true else if b < a then false else strLe as bs

/-- A stream directory as found on disk. -/
structure Raw where
  relpath : Str
  /-- `ovni.loom` of its metadata -/
  loom : Str
  evs : List Ev
  deriving Repr

/-- `trace_load`: whatever order `nftw` enumerates, `DL_SORT` (utlist's stable
    merge sort) by `strcmp` of the relative paths. -/
def traceLoad (found : List Raw) : List Raw :=
  found.mergeSort fun a b => strLe a.relpath b.relpath

/-- `set_hostname`: loom name up to the first '.' -/
def hostname (loom : Str) : Str := loom.takeWhile (· ≠ 46)

/-- `parse_clkoff_entry` over the loom list `(name, clock_offset)`. -/
def parseClkoffEntry (looms : List (Str × Int)) (host : Str) (off : Int) : Option (List (Str × Int)) :=
  let hit := looms.filter fun l => hostname l.1 == host
  if hit.isEmpty then none
  else if hit.any (fun l => l.2 ≠ 0) then none
  else some (looms.map fun l => if hostname l.1 == host then (l.1, off) else l)

/-- `clkoff_load` refuses duplicated names and tables without entries;
    `init_offsets` then applies every entry. `table = none`: no table file. -/
def loomOffsets (table : Option (List (Str × Int))) (looms : List Str) : Option (List (Str × Int)) :=
  let l0 := looms.eraseDups.map fun n => (n, (0 : Int))
  match table with
  | none => some l0
  | some es =>
    if es.isEmpty then none
    else if (es.map (·.1)).eraseDups.length ≠ es.length then none
    else es.foldlM (fun ls e => parseClkoffEntry ls e.1 e.2) l0

/-- offset of a loom in the loom list (0 when absent) -/
def offOf (ls : List (Str × Int)) (loom : Str) : Int :=
  match ls.find? (·.1 == loom) with
  | some l => l.2
  | none => 0

/-- the `stream_clkoff_set` loop of `init_offsets` -/
def setOffsets (ls : List (Str × Int)) : List Raw → Option (List Stream)
  | [] => some []
  | r :: rs =>
    match (Stream.load r.relpath r.evs).clkoffSet (offOf ls r.loom), setOffsets ls rs with
    | some s, some ss => some (s :: ss)
    | _, _ => none

/-- `init_offsets`: each stream gets the offset of its loom. -/
def applyOffsets (table : Option (List (Str × Int))) (rs : List Raw) : Option (List Stream) :=
  match loomOffsets table (rs.map (·.loom)) with
  | none => none
  | some ls => setOffsets ls rs

/-- `ovnidump DIR`: sort, no offsets, unsorted mode. -/
def dumpTrace (found : List Raw) : Option (List Out) :=
  replay true ((traceLoad found).map fun r => Stream.load r.relpath r.evs)

/-- `ovniemu [-c table] DIR` as far as the player is concerned. -/
def emuTrace (table : Option (List (Str × Int))) (found : List Raw) : Option (List Out) :=
  match applyOffsets table (traceLoad found) with
  | none => none
  | some ss => replay false ss

end Ovni.Player
