#!/usr/bin/env python3
"""Run every registered check (quick tier by default) and print a summary."""
import json
import os
import subprocess
import sys
import time

VERIF = os.path.abspath(os.path.join(os.path.dirname(__file__), ".."))
tier = sys.argv[1] if len(sys.argv) > 1 else "quick"
man = json.load(open(os.path.join(VERIF, "MANIFEST.json")))
bad = 0
for c in man["checks"]:
    pid = c["property_id"]
    t = time.time()
    r = subprocess.run(c["quick_cmd" if tier == "quick" else "thorough_cmd"], shell=True, cwd=VERIF, capture_output=True, text=True)
    viol = [l for l in r.stdout.split("\n") if l.startswith("VIOLATION")]
    known = [l for l in r.stdout.split("\n") if l.startswith("KNOWN-FINDING")]
    ev = {}
    try:
        ev = json.load(open(os.path.join(VERIF, "evidence", pid + ".json")))["coverage"]
    except Exception:
        pass
    print(f"{pid}: exit={r.returncode} violations={len(viol)} known={len(known)} wall={time.time()-t:.0f}s "
          f"obligations={ev.get('discharged')}/{ev.get('obligations')} evals={ev.get('evaluations')}", flush=True)
    if r.returncode != 0:
        bad += 1
        print("   " + "\n   ".join(viol[:3]))
sys.exit(1 if bad else 0)
