#!/usr/bin/env python3
"""Run the registered checks against the seeded changes under /verif/seeded
(or another directory): for each <dir>/<id>/patch.diff apply it to a scratch
copy of /repo, run the quick check of the property it breaks (and optionally
others) with VERIF_REPO pointing at the copy, report caught / missed.

usage: eval_seeded.py [--dir D] [--only ID] [--also C01,C02] [--tier quick]"""
import argparse
import json
import os
import re
import shutil
import subprocess
import sys
import tempfile

VERIF = os.path.abspath(os.path.join(os.path.dirname(__file__), ".."))


def main():
    ap = argparse.ArgumentParser()
    ap.add_argument("--dir", default=os.path.join(VERIF, "seeded"))
    ap.add_argument("--only", default=None)
    ap.add_argument("--also", default="")
    ap.add_argument("--tier", default="quick")
    ap.add_argument("--match", default=None, help="regular expression on the change id")
    a = ap.parse_args()
    a.dir = os.path.abspath(a.dir)
    results = {}
    for name in sorted(os.listdir(a.dir)):
        d = os.path.join(a.dir, name)
        patch = os.path.join(d, "patch.diff")
        if not os.path.isfile(patch) or (a.only and a.only != name):
            continue
        if a.match and not re.search(a.match, name):
            continue
        meta = json.load(open(os.path.join(d, "meta.json")))
        prop = meta.get("property", name.split("-")[0])
        base = tempfile.mkdtemp(prefix="seeded-", dir="/tmp")
        copy = os.path.join(base, "repo")
        subprocess.run(["rsync", "-a", "--exclude", "_build", "--exclude", ".git", "/repo/", copy + "/"], check=True)
        r = subprocess.run(["patch", "-p1", "-s", "-i", patch], cwd=copy, capture_output=True, text=True)
        if r.returncode != 0:
            results[name] = {"property": prop, "error": "patch does not apply: " + r.stdout[-300:] + r.stderr[-300:]}
            print(name, json.dumps(results[name]), flush=True)
            shutil.rmtree(base, ignore_errors=True)
            continue
        env = dict(os.environ, VERIF_REPO=copy)
        out = {}
        for p in [prop] + [x for x in a.also.split(",") if x and x != prop]:
            rr = subprocess.run([sys.executable, os.path.join(VERIF, "checks", "check.py"), p, "--tier", a.tier],
                                cwd=VERIF, env=env, capture_output=True, text=True)
            viol = [l for l in rr.stdout.split("\n") if l.startswith("VIOLATION")]
            keys = []
            for l in viol:
                m = re.search(r"replay=(\S+)", l)
                try:
                    first = open(m.group(1)).readline()
                    k = re.search(r"key=(\S+)", first)
                    keys.append(k.group(1) if k else first.strip()[:80])
                except (OSError, AttributeError):
                    pass
            out[p] = {"exit": rr.returncode, "violations": len(viol), "keys": keys[:3],
                      "no_failing_input": all("no-failing-input-found" in l for l in viol) if viol else False}
        results[name] = {"property": prop, "checks": out, "caught": out[prop]["exit"] != 0}
        shutil.rmtree(base, ignore_errors=True)
        print(name, json.dumps(results[name]), flush=True)
    # restore generated files to /repo's state
    subprocess.run([sys.executable, os.path.join(VERIF, "checks", "setup.py")], cwd=VERIF, capture_output=True)
    return 0


if __name__ == "__main__":
    sys.exit(main())
