/* Translator: prints the event -> (channel, action, value) table of one
 * model's event.c as Lean source. -DEVENT_C="<path>" -DTABLE=ss_table
 * -DHAS_SET=0/1 */
#include EVENT_C
#include "leanout.h"

int main(void)
{
	printf("/-- (category, value, channel, action, state value); action: 1 push, 2 pop, 3 set, 4 ignore -/\n");
	printf("def table : List (Nat × Nat × Nat × Nat × Int) := [\n");
	int first = 1;
	for (int c = 0; c < 256; c++) {
		for (int v = 0; v < 256; v++) {
			const int *e = TABLE[c][v];
			int a = e[1];
			int act;
			if (a == 0 && e[0] == 0 && e[2] == 0)
				continue;
			if (a == PUSH) act = 1;
			else if (a == POP) act = 2;
#if HAS_SET
			else if (a == SET) act = 3;
#endif
			else if (a == IGN) act = 4;
			else act = 0; /* unknown action: handler errors */
			printf("%s  (%d, %d, %d, %d, ", first ? "" : ",\n", c, v, e[0], act);
			lean_int(e[2]);
			printf(")");
			first = 0;
		}
	}
	printf("\n]\n");
	return 0;
}
