#!/usr/bin/env python3
"""gen_handlers: the handler facts of the eight emulator models, from clang's AST.

For every model `<m>` the script parses `src/emu/<m>/event.c` and `setup.c`
(and, on demand, the sibling file that defines a function called from a
`case`, e.g. `ovni/mark.c`) with `clang -Xclang -ast-dump=json` and extracts

  (a) the dispatch of `model_<m>_event`: the chain of functions from
      `model_<m>_event` to the one that holds the category `switch`
      (`process_ev`, or `model_ovni_event` itself) or indexes the
      `ss_table`/`fn_table` directly; the `if (<thread flag>) return -1`
      guards met on that chain (member of `emu->thread`, negated?); every
      `case` of the category switch with the function it calls; the value
      `switch` of every function called from a case (with the channel
      operation, channel index, constant and `is_out_of_cpu` assignment of
      each case); `if (ev->v != 'x') return -1` value tests (pre_type);
  (b) the channel whose stack depth `end_lint` checks (when the model's
      `finish` calls it);
  (c) `chan_set(&…m.ch[K], value_int64(X))` and
      `mux_set_default(&…m.track[K].mux, value_int64(Y))` of `model_<m>_connect`;
  (d) whether `model_<m>_probe` ends in an unconditional `return 1`.

Constants are evaluated from the AST (integer / character literals, enum
constants, unary minus, simple arithmetic) and then CONFIRMED by the C
compiler: a tiny generated program `#include`s the same source file and
`_Static_assert`s every enum constant used.

Everything the analysis does not recognise goes to the per-model list
`unresolved`, which Lean (`Props/Gen.lean`) and the translator self-check
demand to be empty.

usage (stand-alone): gen_handlers.py --repo /repo --out Handlers.lean [--json F] -- <clang args>
"""
import hashlib
import json
import os
import re
import subprocess
import sys

# model dir, Lean name, table symbol indexed by the handler (None: explicit switches only)
MODELS = [
    ("ovni", "ovni", None),
    ("nanos6", "nanos6", "ss_table"),
    ("nosv", "nosv", "ss_table"),
    ("nodes", "nodes", "ss_table"),
    ("tampi", "tampi", "ss_table"),
    ("mpi", "mpi", "fn_table"),
    ("kernel", "kernel", None),
    ("openmp", "openmp", "fn_table"),
]

THREAD_FLAGS = ("is_running", "is_active", "is_out_of_cpu")
CHAN_OPS = {"chan_push": 1, "chan_pop": 2, "chan_set": 3}
VK_NONE, VK_INT, VK_NULL = 0, 1, 2


class GenError(Exception):
    pass


# --------------------------------------------------------------------------
# clang
# --------------------------------------------------------------------------

def clang_ast(clang, args, path):
    cmd = [clang, "-Xclang", "-ast-dump=json", "-fsyntax-only", "-w"] + list(args) + [path]
    r = subprocess.run(cmd, stdout=subprocess.PIPE, stderr=subprocess.PIPE)
    if r.returncode != 0:
        raise GenError("gen_handlers: clang failed on %s:\n%s" % (path, r.stderr.decode("latin1")[-3000:]))
    return json.loads(r.stdout)


def kids(n):
    return [c for c in n.get("inner", []) if isinstance(c, dict) and "kind" in c]


def strip(n):
    """Skip parentheses, casts and constant-expression wrappers."""
    while n.get("kind") in ("ParenExpr", "ImplicitCastExpr", "CStyleCastExpr", "ConstantExpr"):
        k = kids(n)
        if not k:
            break
        n = k[-1]
    return n


def walk(n):
    yield n
    for c in kids(n):
        yield from walk(c)


class Unit:
    """One translation unit: functions with bodies, enum constants."""

    def __init__(self, path, ast):
        self.path = path
        self.enum = {}          # decl id -> value
        self.enum_name = {}     # decl id -> name
        self.fbody = {}         # name -> FunctionDecl with a body
        self.used_enums = {}    # name -> value (constants the extraction relied on)
        for n in ast.get("inner", []):
            k = n.get("kind")
            if k == "EnumDecl":
                val = -1
                for c in kids(n):
                    if c.get("kind") != "EnumConstantDecl":
                        continue
                    v = None
                    for e in kids(c):
                        if e.get("kind") == "ConstantExpr" and "value" in e:
                            v = int(e["value"])
                        elif v is None:
                            v = self._lit(e)
                    val = v if v is not None else val + 1
                    self.enum[c["id"]] = val
                    self.enum_name[c["id"]] = c["name"]
            elif k == "FunctionDecl":
                if any(c.get("kind") == "CompoundStmt" for c in kids(n)):
                    self.fbody[n["name"]] = n

    @staticmethod
    def _lit(e):
        e = strip(e)
        if e.get("kind") == "IntegerLiteral":
            return int(e["value"])
        return None

    def body(self, name):
        fn = self.fbody.get(name)
        if fn is None:
            return None
        for c in kids(fn):
            if c.get("kind") == "CompoundStmt":
                return c
        return None


class Fn:
    """Expression helpers inside one function (local variables resolved to
    their initialiser when they are initialised at the declaration and never
    assigned again)."""

    def __init__(self, unit, name):
        self.u = unit
        self.name = name
        self.root = unit.body(name)
        self.local_init = {}
        self.assigned = set()
        if self.root is None:
            return
        for n in walk(self.root):
            if n.get("kind") == "VarDecl" and n.get("storageClass") != "static":
                k = kids(n)
                if k and n.get("init"):
                    self.local_init[n["id"]] = k[-1]
            elif n.get("kind") in ("BinaryOperator", "CompoundAssignOperator") and (
                    n.get("opcode") == "=" or n.get("kind") == "CompoundAssignOperator"):
                l = strip(kids(n)[0])
                if l.get("kind") == "DeclRefExpr":
                    self.assigned.add(l["referencedDecl"]["id"])
            elif n.get("kind") == "UnaryOperator" and n.get("opcode") in ("++", "--", "&"):
                l = strip(kids(n)[0])
                if l.get("kind") == "DeclRefExpr":
                    self.assigned.add(l["referencedDecl"]["id"])

    def deref_local(self, e):
        """If `e` is a local variable with a stable initialiser return that."""
        e = strip(e)
        seen = 0
        while e.get("kind") == "DeclRefExpr" and seen < 8:
            d = e["referencedDecl"]
            if d.get("kind") == "VarDecl" and d["id"] in self.local_init and d["id"] not in self.assigned:
                e = strip(self.local_init[d["id"]])
                seen += 1
            else:
                break
        return e

    def const(self, e):
        """Integer value of a constant expression, or None."""
        e = strip(e)
        k = e.get("kind")
        if k == "IntegerLiteral":
            return int(e["value"])
        if k == "CharacterLiteral":
            return int(e["value"])
        if k == "DeclRefExpr":
            d = e["referencedDecl"]
            if d.get("kind") == "EnumConstantDecl":
                v = self.u.enum.get(d["id"])
                if v is not None:
                    self.u.used_enums[d["name"]] = v
                return v
            return None
        if k == "UnaryOperator":
            v = self.const(kids(e)[0])
            if v is None:
                return None
            return {"-": -v, "+": v, "~": ~v, "!": int(not v)}.get(e.get("opcode"))
        if k == "BinaryOperator":
            a, b = (self.const(c) for c in kids(e)[:2])
            if a is None or b is None:
                return None
            try:
                return {"+": a + b, "-": a - b, "*": a * b, "|": a | b, "&": a & b,
                        "<<": a << b, ">>": a >> b}.get(e.get("opcode"))
            except (ValueError, OverflowError):
                return None
        return None

    def chain(self, e):
        """Named members from the outside in and the root variable:
        `emu->thread->is_active` -> (["is_active", "thread"], "emu").  Local
        aliases (`struct thread *th = emu->thread`) are followed; anonymous
        struct/union members are skipped."""
        names = []
        e = self.deref_local(e)
        for _ in range(16):
            k = e.get("kind")
            if k == "MemberExpr":
                if e.get("name"):
                    names.append(e["name"])
                e = self.deref_local(kids(e)[0])
            elif k == "DeclRefExpr":
                return names, e["referencedDecl"].get("name")
            elif k == "UnaryOperator" and e.get("opcode") in ("&", "*"):
                e = self.deref_local(kids(e)[0])
            else:
                return names, None
        return names, None

    def thread_flag(self, e):
        """`emu->thread-><flag>` (also through a local alias of emu->thread)."""
        names, root = self.chain(e)
        if len(names) == 2 and names[1] == "thread" and names[0] in THREAD_FLAGS and root == "emu":
            return names[0]
        return None

    def ev_member(self, e):
        """`emu->ev-><member>` -> member name ('m', 'c', 'v')."""
        names, root = self.chain(e)
        if len(names) >= 2 and names[-1] == "ev" and root == "emu" and names[0] in ("m", "c", "v"):
            return names[0]
        return None

    def callee_name(self, call):
        c = strip(kids(call)[0])
        if c.get("kind") == "DeclRefExpr" and c["referencedDecl"].get("kind") == "FunctionDecl":
            return c["referencedDecl"]["name"]
        return None

    def subscript(self, e, member):
        """`&X.<member>[K]` / `&X.<member>[K].mux` (through local aliases of the
        element and of the array) -> K, else None."""
        e = self.deref_local(e)
        for _ in range(8):
            k = e.get("kind")
            if k == "UnaryOperator" and e.get("opcode") == "&":
                e = self.deref_local(kids(e)[0])
            elif k == "MemberExpr":
                e = self.deref_local(kids(e)[0])
            elif k == "ArraySubscriptExpr":
                base, idx = kids(e)[0], kids(e)[1]
                names, _root = self.chain(base)
                if names and names[0] == member:
                    return self.const(idx)
                return None
            else:
                return None
        return None


def is_err_return(fn, stmt):
    """`return <negative constant>` possibly wrapped in a compound statement
    after logging calls."""
    if stmt.get("kind") == "CompoundStmt":
        ks = kids(stmt)
        return bool(ks) and is_err_return(fn, ks[-1])
    if stmt.get("kind") == "ReturnStmt":
        ks = kids(stmt)
        if ks:
            v = fn.const(ks[0])
            return v is not None and v < 0
    return False


def is_logging(unit, name):
    """Calls that are not part of the dispatch: functions without a body in
    the model's files whose name is one of common.h's reporting functions."""
    return name in ("verr", "vdie") or name.startswith("__builtin_")


# --------------------------------------------------------------------------
# switch statements
# --------------------------------------------------------------------------

def switch_groups(sw):
    """-> (scrutinee expr, [(labels, [stmts])], default stmts or None, notes).
    Statements that follow a `case` inside the switch body belong to it."""
    ks = kids(sw)
    cond, body = ks[0], ks[-1]
    groups = []
    default = None
    cur = None
    notes = []
    for st in kids(body):
        k = st.get("kind")
        if k in ("CaseStmt", "DefaultStmt"):
            labels = []
            isdef = False
            inner = st
            while inner.get("kind") in ("CaseStmt", "DefaultStmt"):
                ik = kids(inner)
                if inner["kind"] == "CaseStmt":
                    labels.append(ik[0])
                    if len(ik) > 2:
                        notes.append("case range")
                else:
                    isdef = True
                inner = ik[-1]
            # previous group must have ended in break / return
            if cur is not None and cur["stmts"] and not terminated(cur["stmts"]):
                notes.append("fallthrough between case groups")
            cur = {"labels": labels, "stmts": [inner], "default": isdef}
            groups.append(cur)
            if isdef:
                default = cur
        elif cur is not None:
            cur["stmts"].append(st)
        else:
            notes.append("statement before the first case")
    return cond, groups, default, notes


def terminated(stmts):
    last = stmts[-1]
    while last.get("kind") == "CompoundStmt" and kids(last):
        last = kids(last)[-1]
    return last.get("kind") in ("BreakStmt", "ReturnStmt", "ContinueStmt", "GotoStmt")


def case_facts(fn, stmts, unres, where):
    """Facts of one case group."""
    callee = ""
    chan_op, chan, vk, val, ooc = 0, None, VK_NONE, 0, None
    for st in stmts:
        for n in walk(st):
            k = n.get("kind")
            if k == "CallExpr":
                name = fn.callee_name(n)
                if name is None:
                    unres.append(f"{where}: indirect call")
                    continue
                if is_logging(fn.u, name) or name in ("value_int64", "value_null"):
                    continue
                if not callee:
                    callee = name
                    if name in CHAN_OPS:
                        args = kids(n)[1:]
                        chan_op = CHAN_OPS[name]
                        chan = fn.subscript(args[0], "ch") if args else None
                        if len(args) > 1:
                            a = fn.deref_local(args[1])
                            if a.get("kind") == "CallExpr":
                                vn = fn.callee_name(a)
                                if vn == "value_int64":
                                    v = fn.const(kids(a)[1])
                                    if v is not None:
                                        vk, val = VK_INT, v
                                elif vn == "value_null":
                                    vk = VK_NULL
            elif k == "BinaryOperator" and n.get("opcode") == "=":
                l, r = kids(n)[0], kids(n)[1]
                if fn.thread_flag(l) == "is_out_of_cpu":
                    v = fn.const(r)
                    if v is None:
                        unres.append(f"{where}: is_out_of_cpu assigned a non-constant")
                    else:
                        ooc = v
                elif fn.thread_flag(l):
                    unres.append(f"{where}: assignment to thread->{fn.thread_flag(l)}")
    if not callee and any(is_err_return(fn, s) for s in stmts):
        unres.append(f"{where}: case returns an error without a call")
    return {"callee": callee, "chanOp": chan_op, "chan": chan, "valKind": vk, "val": val, "outOfCpu": ooc}


def find_switches(fn, unres):
    """All `switch (emu->ev->c|v)` of a function -> list of switch facts."""
    out = []
    if fn.root is None:
        return out
    for n in walk(fn.root):
        if n.get("kind") != "SwitchStmt":
            continue
        cond, groups, default, notes = switch_groups(n)
        on = fn.ev_member(cond)
        if on not in ("c", "v"):
            continue        # a switch on something else (e.g. a local transition value)
        for x in notes:
            unres.append(f"{fn.name}: switch on ev->{on}: {x}")
        cases = []
        for g in groups:
            if g["default"] and not g["labels"]:
                continue
            facts = case_facts(fn, g["stmts"], unres, f"{fn.name} switch(ev->{on})")
            for lab in g["labels"]:
                v = fn.const(lab)
                if v is None:
                    unres.append(f"{fn.name}: non-constant case label")
                    continue
                cases.append(dict(facts, label=v))
            if g["default"] and g["labels"]:
                unres.append(f"{fn.name}: default shares its statements with a case")
        dflt_err = default is not None and any(is_err_return(fn, s) for s in default["stmts"])
        out.append({"fn": fn.name, "on": on, "cases": cases, "defaultErr": dflt_err})
    return out


def value_tests(fn):
    """`if (emu->ev->v != 'x') { …; return -1; }` at the top level of a
    function -> ['x', …]"""
    vals = []
    if fn.root is None:
        return vals
    for st in kids(fn.root):
        if st.get("kind") != "IfStmt":
            continue
        ks = kids(st)
        cond = strip(ks[0])
        if cond.get("kind") == "BinaryOperator" and cond.get("opcode") == "!=" and len(ks) == 2 \
                and is_err_return(fn, ks[1]):
            a, b = kids(cond)[0], kids(cond)[1]
            for x, y in ((a, b), (b, a)):
                if fn.ev_member(x) == "v":
                    v = fn.const(y)
                    if v is not None:
                        vals.append(v)
    return vals


def _mentions(fn, n, member):
    """Does the expression tree `n` contain `emu->ev-><member>`?"""
    e = strip(n)
    if fn.ev_member(e) == member:
        return True
    # through any alias of the event (`const struct emu_ev *ev = emu->ev; … ev->v`)
    if e.get("kind") == "MemberExpr" and e.get("name") == member and kids(e):
        bt = strip(kids(e)[0]).get("type", {}).get("qualType", "")
        if "emu_ev" in bt:
            return True
    return any(_mentions(fn, c, member) for c in kids(n))


def unrecognised_value_uses(fn, nswitches, ntests):
    """Uses of `emu->ev->v` that decide control flow (or that copy it into a
    local) beyond the recognised value switch / value tests: an if/else chain
    over the value, a ternary, a local alias.  The extractor does not follow
    those, so the facts of this function must not be taken from it."""
    found = []
    if fn.root is None:
        return found
    conds = 0

    def walk(n):
        nonlocal conds
        k = n.get("kind")
        ks = kids(n)
        if k in ("IfStmt", "ConditionalOperator", "WhileStmt", "ForStmt", "DoStmt") and ks:
            cond = ks[0] if k != "DoStmt" else ks[-1]
            if k == "ForStmt":
                cond = None
                for c in ks[:-1]:
                    if _mentions(fn, c, "v"):
                        cond = c
            if cond is not None and _mentions(fn, cond, "v"):
                conds += 1
        if k == "VarDecl" and ks and _mentions(fn, ks[-1], "v") and nswitches + ntests == 0:
            found.append("ev->v copied into the local '%s'" % n.get("name", "?"))
        for c in ks:
            walk(c)
    walk(fn.root)
    if conds > ntests:
        found.append("%d condition(s) on ev->v besides the recognised value switch/tests" % (conds - ntests))
    return found


# --------------------------------------------------------------------------
# per model
# --------------------------------------------------------------------------

class Model:
    def __init__(self, repo, clang, cargs, mdir, table):
        self.repo = repo
        self.clang = clang
        self.cargs = cargs
        self.mdir = mdir
        self.table = table
        self.dir = os.path.join(repo, "src", "emu", mdir)
        self.units = {}
        self.unres = []

    def unit(self, fname):
        if fname not in self.units:
            p = os.path.join(self.dir, fname)
            self.units[fname] = Unit(p, clang_ast(self.clang, self.cargs, p))
        return self.units[fname]

    def find_function(self, name, first):
        """The unit that defines `name`: `first`, else a sibling .c file of the
        model whose text mentions a definition of that name."""
        if name in first.fbody:
            return first
        for f in sorted(os.listdir(self.dir)):
            if not f.endswith(".c") or os.path.join(self.dir, f) == first.path:
                continue
            try:
                txt = open(os.path.join(self.dir, f), encoding="latin1").read()
            except OSError:
                continue
            if re.search(r"^%s\s*\(" % re.escape(name), txt, re.M):
                u = self.unit(f)
                if name in u.fbody:
                    return u
        return None

    def refs_table(self, fn):
        if self.table is None or fn.root is None:
            return False
        for n in walk(fn.root):
            if n.get("kind") == "DeclRefExpr" and n["referencedDecl"].get("name") == self.table \
                    and n["referencedDecl"].get("kind") == "VarDecl":
                return True
        return False

    # ---- (a) event.c
    def event(self):
        u = self.unit("event.c")
        entry = "model_%s_event" % self.mdir
        if entry not in u.fbody:
            raise GenError(f"gen_handlers: {entry} not found in {u.path}")
        unres = self.unres
        table_fns = [name for name in u.fbody if self.refs_table(Fn(u, name))]

        def dispatch_here(fn):
            sws = [s for s in find_switches(fn, []) if s["on"] == "c"]
            return bool(sws) or fn.name in table_fns

        # chain of functions from the entry to the one that dispatches
        def search(name, depth):
            fn = Fn(u, name)
            if dispatch_here(fn):
                return [name]
            if depth == 0 or fn.root is None:
                return None
            for n in walk(fn.root):
                if n.get("kind") == "CallExpr":
                    c = fn.callee_name(n)
                    if c and c in u.fbody and c != name:
                        r = search(c, depth - 1)
                        if r:
                            return [name] + r
            return None

        path = search(entry, 3)
        if path is None:
            unres.append(f"{entry}: no category switch and no table lookup found")
            path = [entry]
        handler = path[-1]

        # guards on the chain, in order, before the dispatch
        guards = []
        model_chars = []
        for i, name in enumerate(path):
            fn = Fn(u, name)
            nxt = path[i + 1] if i + 1 < len(path) else None
            recognised = set()
            for st in kids(fn.root):
                if self._reaches(fn, st, nxt, name == handler):
                    break
                if st.get("kind") != "IfStmt":
                    continue
                ks = kids(st)
                cond = strip(ks[0])
                if len(ks) != 2 or not is_err_return(fn, ks[1]):
                    continue
                neg = False
                inner = cond
                if cond.get("kind") == "UnaryOperator" and cond.get("opcode") == "!":
                    neg = True
                    inner = strip(kids(cond)[0])
                flag = fn.thread_flag(inner)
                if flag:
                    guards.append((flag, neg))
                    recognised.add(id(strip(inner)))
                    continue
                # the model character test `emu->ev->m != 'X'`
                if cond.get("kind") == "BinaryOperator" and cond.get("opcode") == "!=":
                    a, b = kids(cond)[0], kids(cond)[1]
                    for x, y in ((a, b), (b, a)):
                        if fn.ev_member(x) == "m" and fn.const(y) is not None:
                            model_chars.append(fn.const(y))
            # any other read of a thread flag in the chain functions is not understood
            for n in walk(fn.root):
                if n.get("kind") == "MemberExpr" and n.get("name") in THREAD_FLAGS and id(n) not in recognised:
                    names, root = fn.chain(n)
                    if len(names) == 2 and names[1] == "thread":
                        unres.append(f"{name}: use of thread->{n['name']} outside a recognised guard")
        for flag, neg in guards:
            if (flag in ("is_running", "is_active") and not neg) or (flag == "is_out_of_cpu" and neg):
                unres.append(f"{handler}: guard with unexpected polarity on thread->{flag}")

        hfn = Fn(u, handler)
        direct = handler in table_fns
        switches = find_switches(hfn, unres)
        cat = [s for s in switches if s["on"] == "c"]
        if len(cat) > 1:
            unres.append(f"{handler}: more than one switch on ev->c")
        if cat and direct:
            unres.append(f"{handler}: both a category switch and a direct table lookup")
        if cat and not cat[0]["defaultErr"]:
            unres.append(f"{handler}: the category switch has no failing default")
        switches = cat[:1]
        vtests = []
        # value switches / value tests of the functions called from the cases
        for c in (cat[0]["cases"] if cat else []):
            name = c["callee"]
            if not name or name in table_fns or any(s["fn"] == name for s in switches) \
                    or any(t[0] == name for t in vtests):
                continue
            cu = self.find_function(name, u)
            if cu is None:
                unres.append(f"{handler}: case '{chr(c['label'])}' calls {name}, whose body was not found")
                continue
            cfn = Fn(cu, name)
            vs = [s for s in find_switches(cfn, unres) if s["on"] == "v"]
            if vs:
                # the first (outermost in source order) value switch decides what the function accepts
                if not vs[0]["defaultErr"]:
                    unres.append(f"{name}: the value switch has no failing default")
                switches.append(vs[0])
            vt = value_tests(cfn)
            if vt:
                if vs:
                    unres.append(f"{name}: both a value switch and a value test")
                vtests.append((name, vt))
            for what in unrecognised_value_uses(cfn, len(vs), len(vt)):
                unres.append(f"{name}: {what}")
        return {"path": path, "handler": handler, "guards": guards, "directTable": direct,
                "tableFns": table_fns, "switches": switches, "valueTests": vtests,
                "evChar": model_chars[0] if len(set(model_chars)) == 1 else None}

    def _reaches(self, fn, st, nxt, is_handler):
        """Does statement `st` contain the dispatch (the call of the next
        function of the chain / the category switch / the table lookup)?"""
        for n in walk(st):
            k = n.get("kind")
            if nxt is not None and k == "CallExpr" and fn.callee_name(n) == nxt:
                return True
            if is_handler:
                if k == "SwitchStmt" and fn.ev_member(kids(n)[0]) == "c":
                    return True
                if k == "DeclRefExpr" and self.table and n["referencedDecl"].get("name") == self.table:
                    return True
        return False

    # ---- (b) (c) (d) setup.c
    def setup(self):
        u = self.unit("setup.c")
        unres = self.unres
        out = {"lintChan": None, "initVals": [], "cpuDefault": [], "probeAlways": False}
        # (b) end_lint
        if "end_lint" in u.fbody:
            fin = Fn(u, "model_%s_finish" % self.mdir)
            called = fin.root is not None and any(
                n.get("kind") == "CallExpr" and fin.callee_name(n) == "end_lint" for n in walk(fin.root))
            fn = Fn(u, "end_lint")
            idx = set()
            depth_read = False
            for n in walk(fn.root):
                if n.get("kind") == "ArraySubscriptExpr":
                    names, _ = fn.chain(kids(n)[0])
                    if names and names[0] == "ch":
                        idx.add(fn.const(kids(n)[1]))
                if n.get("kind") == "MemberExpr" and n.get("name") == "n":
                    names, _ = fn.chain(n)
                    if names[:2] == ["n", "stack"]:
                        depth_read = True
            if called:
                if len(idx) == 1 and None not in idx and depth_read:
                    out["lintChan"] = idx.pop()
                else:
                    unres.append("end_lint: checked channel not recognised")
        # (c) connect
        cname = "model_%s_connect" % self.mdir
        fn = Fn(u, cname)
        if fn.root is None:
            unres.append(f"{cname} not found")
        else:
            self._connect(fn, fn.root, False, out)
        # (d) probe
        pname = "model_%s_probe" % self.mdir
        fn = Fn(u, pname)
        if fn.root is None:
            unres.append(f"{pname} not found")
        else:
            rets = [n for n in walk(fn.root) if n.get("kind") == "ReturnStmt"]
            top = kids(fn.root)
            last = top[-1] if top else {}
            last_one = last.get("kind") == "ReturnStmt" and kids(last) and fn.const(kids(last)[0]) == 1
            others_fail = all(r is last or (kids(r) and (fn.const(kids(r)[0]) or 0) < 0) for r in rets)
            out["probeAlways"] = bool(last_one and others_fail)
            if last_one and not others_fail:
                unres.append(f"{pname}: ends in return 1 but has another non-failing return")
        return out

    def _connect(self, fn, n, conditional, out):
        k = n.get("kind")
        if k == "IfStmt":
            ks = kids(n)
            self._connect(fn, ks[0], conditional, out)       # the condition is evaluated whenever the if is reached
            for b in ks[1:]:
                if not is_err_return(fn, b):
                    self._connect(fn, b, True, out)
            return
        if k in ("ConditionalOperator", "BinaryConditionalOperator"):
            ks = kids(n)
            self._connect(fn, ks[0], conditional, out)
            for b in ks[1:]:
                self._connect(fn, b, True, out)
            return
        if k == "BinaryOperator" and n.get("opcode") in ("&&", "||"):
            ks = kids(n)
            self._connect(fn, ks[0], conditional, out)
            self._connect(fn, ks[1], True, out)
            return
        if k == "CallExpr":
            name = fn.callee_name(n)
            args = kids(n)[1:]
            if name in CHAN_OPS or name == "mux_set_default":
                what = f"{fn.name}: {name}"
                val = None
                if len(args) > 1:
                    a = fn.deref_local(args[1])
                    if a.get("kind") == "CallExpr" and fn.callee_name(a) == "value_int64":
                        val = fn.const(kids(a)[1])
                if name == "mux_set_default":
                    ch = fn.subscript(args[0], "track") if args else None
                else:
                    ch = fn.subscript(args[0], "ch") if args else None
                if conditional:
                    self.unres.append(what + " under a condition")
                elif ch is None or val is None:
                    self.unres.append(what + " with a channel or value that is not constant")
                elif name == "chan_set":
                    out["initVals"].append((ch, val))
                elif name == "mux_set_default":
                    out["cpuDefault"].append((ch, val))
                else:
                    self.unres.append(what + " at connect time is not modelled")
        for c in kids(n):
            self._connect(fn, c, conditional, out)

    # ---- confirmation of the constants by the C compiler
    def confirm_consts(self, cc, workdir):
        for fname, u in self.units.items():
            if not u.used_enums:
                continue
            src = os.path.join(workdir, "confirm_%s_%s" % (self.mdir, fname))
            with open(src, "w") as f:
                f.write("/* generated by gen_handlers.py: the enum values read from clang's AST,\n"
                        " * confirmed by the C compiler on the same source */\n")
                f.write('#include "%s"\n' % u.path)
                for name, v in sorted(u.used_enums.items()):
                    f.write('_Static_assert((long long)(%s) == %dLL, "%s");\n' % (name, v, name))
            r = subprocess.run([cc, "-std=gnu11", "-fsyntax-only", "-w"] + self.cargs + [src],
                               stdout=subprocess.PIPE, stderr=subprocess.STDOUT, text=True)
            if r.returncode != 0:
                raise GenError("gen_handlers: the C compiler does not confirm the constants of %s:\n%s"
                               % (u.path, r.stdout[-2000:]))


def extract(repo, clang, cargs, workdir, cc="gcc"):
    """-> {lean name: facts}"""
    os.makedirs(workdir, exist_ok=True)
    res = {}
    for mdir, lname, table in MODELS:
        m = Model(repo, clang, cargs, mdir, table)
        f = m.event()
        f.update(m.setup())
        m.confirm_consts(cc, workdir)
        f["model"] = mdir
        f["table"] = table or ""
        f["unresolved"] = uniq(m.unres)
        f["enums"] = {fn: dict(u.used_enums) for fn, u in m.units.items() if u.used_enums}
        res[lname] = f
    return res


def uniq(xs):
    out = []
    for x in xs:
        if x not in out:
            out.append(x)
    return out


# --------------------------------------------------------------------------
# Lean output
# --------------------------------------------------------------------------

def lstr(s):
    return '"' + s.replace("\\", "\\\\").replace('"', '\\"') + '"'


def lint(v):
    return f"({v})" if v < 0 else str(v)


def lopt(v, f=str):
    return "none" if v is None else f"(some {f(v)})"


def lbool(b):
    return "true" if b else "false"


def llist(xs):
    return "[" + ", ".join(xs) + "]"


PRELUDE = '''-- GENERATED from /repo (src/emu/<model>/event.c, setup.c) on every run by tools/gen/gen_handlers.py
-- (clang -Xclang -ast-dump=json; constants confirmed by the C compiler); do not edit.
namespace Ovni.Generated.Handlers

/-- One `case` label of a `switch` on `emu->ev->c` / `emu->ev->v`, with what the
    statements of its group do. -/
structure Case where
  /-- the character constant of the label -/
  label : Nat
  /-- first function called that is not error reporting ("" = none) -/
  callee : String
  /-- 0 none, 1 `chan_push`, 2 `chan_pop`, 3 `chan_set` (when `callee` is one of them) -/
  chanOp : Nat
  /-- `K` when the channel operated on is `…m.ch[K]` -/
  chan : Option Nat
  /-- 0 = not a constant, 1 = `value_int64(val)`, 2 = `value_null()` -/
  valKind : Nat
  val : Int
  /-- `emu->thread->is_out_of_cpu = K` among the statements of the case -/
  outOfCpu : Option Nat
deriving DecidableEq, Repr

structure Switch where
  /-- function that contains the switch -/
  fn : String
  /-- member of `emu->ev` switched on: "c" or "v" -/
  on : String
  cases : List Case
  /-- `default:` returns an error -/
  defaultErr : Bool
deriving DecidableEq, Repr

structure Facts where
  model : String
  /-- the character `model_<m>_event` compares `emu->ev->m` with -/
  evChar : Option Nat
  /-- functions from `model_<m>_event` to the one that dispatches -/
  path : List String
  /-- the function with the category switch or the direct table lookup -/
  handler : String
  /-- `if (<cond>) return -1` on the way to the dispatch: (member of `emu->thread`,
      is the test negated); e.g. `("is_active", true)` = `if (!emu->thread->is_active)` -/
  guards : List (String × Bool)
  /-- the handler has no category switch and indexes the event table itself -/
  directTable : Bool
  /-- name of the event table ("" = none) and the functions that index it -/
  table : String
  tableFns : List String
  /-- the category switch of the handler (first, if any), then the value
      switch of each function called from one of its cases -/
  switches : List Switch
  /-- functions called from a case that begin with `if (ev->v != 'x') return -1` -/
  valueTests : List (String × List Nat)
  /-- `end_lint` (called by `model_<m>_finish`): channel whose stack must be empty -/
  lintChan : Option Nat
  /-- `model_<m>_connect`: `chan_set(&…m.ch[K], value_int64(X))` as `(K, X)` -/
  initVals : List (Nat × Int)
  /-- `model_<m>_connect`: `mux_set_default(&…m.track[K].mux, value_int64(Y))` as `(K, Y)` -/
  cpuDefault : List (Nat × Int)
  /-- `model_<m>_probe` ends in an unconditional `return 1` (every other return fails) -/
  probeAlways : Bool
  /-- what the extraction did not recognise; must be empty -/
  unresolved : List String
deriving DecidableEq, Repr

'''


def lean_case(c):
    return ("{ label := %d, callee := %s, chanOp := %d, chan := %s, valKind := %d, val := %s, outOfCpu := %s }"
            % (c["label"], lstr(c["callee"]), c["chanOp"], lopt(c["chan"]), c["valKind"], lint(c["val"]),
               lopt(c["outOfCpu"])))


def lean_switch(s, ind):
    pad = " " * ind
    cs = (",\n" + pad + "    ").join(lean_case(c) for c in s["cases"])
    return ("{ fn := %s, on := %s, defaultErr := %s,\n%s  cases := [\n%s    %s] }"
            % (lstr(s["fn"]), lstr(s["on"]), lbool(s["defaultErr"]), pad, pad, cs))


def lean_source(facts):
    L = [PRELUDE]
    for _mdir, lname, _t in MODELS:
        f = facts[lname]
        L.append(f"def {lname} : Facts :=")
        L.append(f"  {{ model := {lstr(f['model'])},")
        L.append(f"    evChar := {lopt(f['evChar'])},")
        L.append(f"    path := {llist([lstr(x) for x in f['path']])},")
        L.append(f"    handler := {lstr(f['handler'])},")
        L.append("    guards := " + llist(["(%s, %s)" % (lstr(g), lbool(n)) for g, n in f["guards"]]) + ",")
        L.append(f"    directTable := {lbool(f['directTable'])},")
        L.append(f"    table := {lstr(f['table'])},")
        L.append(f"    tableFns := {llist([lstr(x) for x in f['tableFns']])},")
        if f["switches"]:
            L.append("    switches := [\n      " + ",\n      ".join(lean_switch(s, 6) for s in f["switches"]) + "],")
        else:
            L.append("    switches := [],")
        L.append("    valueTests := " + llist(
            ["(%s, %s)" % (lstr(n), llist([str(v) for v in vs])) for n, vs in f["valueTests"]]) + ",")
        L.append(f"    lintChan := {lopt(f['lintChan'])},")
        L.append("    initVals := " + llist(["(%d, %s)" % (c, lint(v)) for c, v in f["initVals"]]) + ",")
        L.append("    cpuDefault := " + llist(["(%d, %s)" % (c, lint(v)) for c, v in f["cpuDefault"]]) + ",")
        L.append(f"    probeAlways := {lbool(f['probeAlways'])},")
        L.append(f"    unresolved := {llist([lstr(x) for x in f['unresolved']])} }}")
        L.append("")
    L.append("/-- in the registration order of `models.c` -/")
    L.append("def all : List Facts := " + llist([lname for _m, lname, _t in MODELS]))
    L.append("")
    L.append("end Ovni.Generated.Handlers")
    return "\n".join(L) + "\n"


def script_hash():
    return hashlib.sha256(open(os.path.abspath(__file__), "rb").read()).hexdigest()[:12]


def generate(repo, cargs, workdir, clang="clang-14", cc="gcc", cache=True):
    """-> (facts, lean source).  Cached in `workdir` (which is keyed by the
    content hash of /repo's tree) under the hash of this script."""
    os.makedirs(workdir, exist_ok=True)
    cpath = os.path.join(workdir, "handlers-%s.json" % script_hash())
    facts = None
    if cache and os.path.exists(cpath):
        try:
            facts = json.load(open(cpath))
            for f in facts.values():
                f["guards"] = [tuple(g) for g in f["guards"]]
                f["initVals"] = [tuple(g) for g in f["initVals"]]
                f["cpuDefault"] = [tuple(g) for g in f["cpuDefault"]]
                f["valueTests"] = [(n, v) for n, v in f["valueTests"]]
        except (ValueError, OSError, KeyError):
            facts = None
    if facts is None:
        facts = extract(repo, clang, cargs, workdir, cc)
        tmp = cpath + ".tmp%d" % os.getpid()
        with open(tmp, "w") as f:
            json.dump(facts, f, indent=1)
        os.replace(tmp, cpath)
    return facts, lean_source(facts)


def main():
    argv = sys.argv[1:]
    repo, out, js, clang = "/repo", None, None, "clang-14"
    while argv and argv[0] != "--":
        if argv[0] == "--repo":
            repo = argv[1]
        elif argv[0] == "--out":
            out = argv[1]
        elif argv[0] == "--json":
            js = argv[1]
        elif argv[0] == "--clang":
            clang = argv[1]
        else:
            raise SystemExit("bad argument " + argv[0])
        argv = argv[2:]
    cargs = argv[1:]
    import tempfile
    with tempfile.TemporaryDirectory() as wd:
        facts = extract(repo, clang, cargs, wd)
    text = lean_source(facts)
    if out:
        with open(out, "w") as f:
            f.write(text)
    else:
        sys.stdout.write(text)
    if js:
        with open(js, "w") as f:
            json.dump(facts, f, indent=1)


if __name__ == "__main__":
    main()
