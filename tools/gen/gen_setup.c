/* Translator: prints the data of one model's setup.c as Lean source.
 * Compiled once per model with -DSETUP_C="<path>" -DNS="Nosv"; the C compiler
 * evaluates the enums, macros and designated initialisers of /repo's source. */
#include SETUP_C
#include "leanout.h"

#define STR2(x) #x
#define STR(x) STR2(x)

int main(void)
{
	const struct model_chan_spec *th = &th_chan;
	const struct model_chan_spec *cp = &cpu_chan;
	const struct model_pvt_spec *pv = th->pvt;

	printf("def name : String := "); lean_str(model_name); printf("\n");
	printf("def nameBytes : List Nat := "); lean_bytes(model_name); printf("\n");
	printf("def modelChar : Nat := %d\n", (int) model_id);
	printf("def version : List Nat := "); lean_bytes(MODEL_SPEC.version); printf("\n");
	printf("def versionStr : String := "); lean_str(MODEL_SPEC.version); printf("\n");
	printf("def hasFinish : Bool := %s\n", MODEL_SPEC.finish ? "true" : "false");

	printf("def evlist : List (String × String) := [\n");
	for (int i = 0; model_evlist[i].signature != NULL; i++) {
		printf("  (");
		lean_str(model_evlist[i].signature);
		printf(", ");
		lean_str(model_evlist[i].description);
		printf(")%s\n", model_evlist[i + 1].signature ? "," : "");
	}
	printf("]\n");

	int n = th->nch;
	printf("def nch : Nat := %d\n", n);
	printf("def chanNames : List String := [");
	for (int i = 0; i < n; i++) { if (i) printf(", "); lean_str(th->ch_names[i] ? th->ch_names[i] : ""); }
	printf("]\n");
	printf("def chanStack : List Bool := [");
	for (int i = 0; i < n; i++) printf("%s%s", i ? ", " : "", (th->ch_stack && th->ch_stack[i]) ? "true" : "false");
	printf("]\n");
	printf("def chanDup : List Bool := [");
	for (int i = 0; i < n; i++) printf("%s%s", i ? ", " : "", (th->ch_dup && th->ch_dup[i]) ? "true" : "false");
	printf("]\n");
	printf("def cpuChanStack : List Bool := [");
	for (int i = 0; i < n; i++) printf("%s%s", i ? ", " : "", (cp->ch_stack && cp->ch_stack[i]) ? "true" : "false");
	printf("]\n");
	printf("def cpuNch : Nat := %d\n", cp->nch);
	printf("def pvtType : List Nat := [");
	for (int i = 0; i < n; i++) printf("%s%d", i ? ", " : "", pv->type[i]);
	printf("]\n");
	printf("def cpuPvtType : List Nat := [");
	for (int i = 0; i < n; i++) printf("%s%d", i ? ", " : "", cp->pvt->type[i]);
	printf("]\n");
	printf("def pcfPrefix : List String := [");
	for (int i = 0; i < n; i++) { if (i) printf(", "); lean_str(pv->prefix[i] ? pv->prefix[i] : ""); }
	printf("]\n");
	printf("def prvFlags : List Nat := [");
	for (int i = 0; i < n; i++) printf("%s%ld", i ? ", " : "", pv->flags ? pv->flags[i] : 0L);
	printf("]\n");
	printf("def thTrack : List Nat := [");
	for (int i = 0; i < n; i++) printf("%s%d", i ? ", " : "", th->track[i]);
	printf("]\n");
	printf("def cpuTrack : List Nat := [");
	for (int i = 0; i < n; i++) printf("%s%d", i ? ", " : "", cp->track[i]);
	printf("]\n");
	printf("/-- per channel: the PCF value labels (value, label) -/\n");
	printf("def labels : List (List (Int × String)) := [\n");
	for (int i = 0; i < n; i++) {
		printf("  [");
		const struct pcf_value_label *l = pv->label ? pv->label[i] : NULL;
		int first = 1;
		for (; l && l->label != NULL; l++) {
			printf("%s(", first ? "" : ", ");
			lean_int(l->value);
			printf(", ");
			lean_str(l->label);
			printf(")");
			first = 0;
		}
		printf("]%s\n", i + 1 < n ? "," : "");
	}
	printf("]\n");
#ifdef HAS_TASK_ENUMS
	/* enum constants of <model>_priv.h the task layer and the breakdown compare against */
	printf("def stTaskBody : Int := %d\ndef stUnknownSs : Int := %d\n"
	       "def stProgressing : Int := %d\ndef stResting : Int := %d\ndef stAbsorbing : Int := %d\n",
	       ST_TASK_BODY, ST_UNKNOWN_SS, ST_PROGRESSING, ST_RESTING, ST_ABSORBING);
#endif
	return 0;
}
