/* Translator: constants, sizes and enums as the C compiler sees them. */
#include <stddef.h>
#include "ovni.h"
#include "chan.h"
#include "thread.h"
#include "emu_prv.h"
#include "pv/prv.h"
#include "task.h"
#include "body.h"
#include "track.h"
#include "model.h"
#include "leanout.h"

extern struct model_spec model_ovni, model_nanos6, model_nosv, model_nodes,
       model_tampi, model_mpi, model_kernel, model_openmp;

int main(void)
{
	struct model_spec *ms[] = { &model_ovni, &model_nanos6, &model_nosv, &model_nodes,
		&model_tampi, &model_mpi, &model_kernel, &model_openmp, NULL };
	printf("namespace Ovni.Generated\n");
	printf("def maxEvBuf : Nat := %lld\n", (long long) OVNI_MAX_EV_BUF);
	printf("def evHeaderSize : Nat := %zu\n", sizeof(struct ovni_ev_header));
	printf("def evMaxSize : Nat := %zu\n", sizeof(struct ovni_ev));
	printf("def payloadMax : Nat := %zu\n", sizeof(union ovni_ev_payload));
	printf("def jumboSizeField : Nat := %zu\n", sizeof(((struct ovni_ev *) 0)->payload.jumbo.size));
	printf("def streamHeaderSize : Nat := %zu\n", sizeof(struct ovni_stream_header));
	printf("def streamMagic : List Nat := "); lean_bytes(OVNI_STREAM_MAGIC); printf("\n");
	printf("def streamVersion : Nat := %d\n", OVNI_STREAM_VERSION);
	printf("def metadataVersion : Nat := %d\n", OVNI_METADATA_VERSION);
	printf("def jumboFlag : Nat := %d\n", OVNI_EV_JUMBO);
	printf("def libVersion : List Nat := "); lean_bytes(OVNI_LIB_VERSION); printf("\n");
	printf("def ovniModelVersion : List Nat := "); lean_bytes(OVNI_MODEL_VERSION); printf("\n");
	printf("def maxChanStack : Nat := %d\n", MAX_CHAN_STACK);
	printf("def markStackFlag : Nat := %d\n", OVNI_MARK_STACK);
	printf("/-- (name, version, model char) of every registered model -/\n");
	printf("def modelVersions : List (List Nat × List Nat × Nat) := [\n");
	for (int i = 0; ms[i]; i++) {
		printf("  ("); lean_bytes(ms[i]->name); printf(", "); lean_bytes(ms[i]->version);
		printf(", %d)%s\n", ms[i]->model, ms[i + 1] ? "," : "");
	}
	printf("]\n");
	printf("def thStUnknown : Nat := %d\ndef thStRunning : Nat := %d\ndef thStPaused : Nat := %d\n"
	       "def thStDead : Nat := %d\ndef thStCooling : Nat := %d\ndef thStWarming : Nat := %d\n",
	       TH_ST_UNKNOWN, TH_ST_RUNNING, TH_ST_PAUSED, TH_ST_DEAD, TH_ST_COOLING, TH_ST_WARMING);
	printf("def prvCpuPid : Nat := %d\ndef prvCpuTid : Nat := %d\ndef prvCpuNrun : Nat := %d\n"
	       "def prvThreadTid : Nat := %d\ndef prvThreadState : Nat := %d\ndef prvThreadCpu : Nat := %d\n"
	       "def prvOvniMark : Nat := %d\ndef prvReserved : Nat := %d\n",
	       PRV_CPU_PID, PRV_CPU_TID, PRV_CPU_NRUN, PRV_THREAD_TID, PRV_THREAD_STATE, PRV_THREAD_CPU,
	       PRV_OVNI_MARK, PRV_RESERVED);
	printf("def prvEmitDup : Nat := %d\ndef prvSkipDup : Nat := %d\ndef prvNext : Nat := %d\n"
	       "def prvZero : Nat := %d\ndef prvSkipDupNull : Nat := %d\n",
	       PRV_EMITDUP, PRV_SKIPDUP, PRV_NEXT, PRV_ZERO, PRV_SKIPDUPNULL);
	printf("def trackAny : Nat := %d\ndef trackRun : Nat := %d\ndef trackAct : Nat := %d\n",
	       TRACK_TH_ANY, TRACK_TH_RUN, TRACK_TH_ACT);
	printf("def taskFlagParallel : Nat := %d\ndef taskFlagResurrect : Nat := %d\n"
	       "def taskFlagPause : Nat := %d\ndef taskFlagRelaxNesting : Nat := %d\n",
	       TASK_FLAG_PARALLEL, TASK_FLAG_RESURRECT, TASK_FLAG_PAUSE, TASK_FLAG_RELAX_NESTING);
	printf("def bodyFlagPause : Nat := %d\ndef bodyFlagResurrect : Nat := %d\ndef bodyFlagRelaxNesting : Nat := %d\n",
	       BODY_FLAG_PAUSE, BODY_FLAG_RESURRECT, BODY_FLAG_RELAX_NESTING);
	printf("end Ovni.Generated\n");
	return 0;
}
