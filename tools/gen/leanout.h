/* Helpers that print Lean 4 source. Part of the translator (trusted base). */
#ifndef LEANOUT_H
#define LEANOUT_H
#include <stdio.h>
#include <string.h>

static void lean_str(const char *s)
{
	putchar('"');
	for (const unsigned char *p = (const unsigned char *) s; *p; p++) {
		if (*p == '"' || *p == '\\')
			printf("\\%c", *p);
		else if (*p == '\n')
			printf("\\n");
		else if (*p == '\t')
			printf("\\t");
		else if (*p < 32 || *p > 126)
			printf("\\x%02x", *p);
		else
			putchar(*p);
	}
	putchar('"');
}

/* C string as list of byte values */
static void lean_bytes(const char *s)
{
	putchar('[');
	for (const unsigned char *p = (const unsigned char *) s; *p; p++)
		printf("%s%u", p == (const unsigned char *) s ? "" : ", ", *p);
	putchar(']');
}

static void lean_int(long v)
{
	if (v < 0)
		printf("(%ld)", v);
	else
		printf("%ld", v);
}
#endif
