#!/usr/bin/env python3
"""gen_footprint (C11): shared-state footprint of libovni's API, from clang's AST.

usage: gen_footprint.py --out Footprint.lean [--json dump.json] -- <clang args incl. -I...> FILE.c [FILE2.c ...]

The FIRST file is the runtime (src/rt/ovni.c); further files (src/common.c)
are analysed with it so that calls into them are followed too.

For every function with a body and external linkage in the first file (the
public API) the script computes, transitively through every function it calls
whose body is available in one of the files:

  * the members of the process-wide `rproc` it reads / writes (`*` = the whole
    object or an escaped address),
  * whether it touches the `_Thread_local rthread`,
  * the ORDERED list of operations on `rproc.st`
    (atomic_compare_exchange_strong / atomic_load / atomic_store /
    plain read or assignment, with the enum constants involved),
  * the ordered list of shared events of the function (st operations and
    writes of rproc members) used to see what happens before/after READY is
    published,
  * any other non-thread-local, non-const global or function-local static
    that is read or written,
  * anything the analysis could not resolve (indirect calls, an atomic builtin
    it does not know): the Lean side demands that list to be empty.

Also listed: every non-thread-local, non-const variable with static storage
defined in the files (a new shared global breaks isolation).

Conservative rules: passing (the address of) a member to a parameter of type
pointer-to-non-const counts as a write; variadic arguments count as writes
except for the printf family; taking an address that is not immediately
passed to a call counts as a write of the object.
"""
import json
import re
import subprocess
import sys

PRINTF_LIKE = {"printf", "fprintf", "sprintf", "snprintf", "dprintf", "vdie", "verr",
               "vfprintf", "vsnprintf", "syslog"}
PROC_VAR = "rproc"
THREAD_VAR = "rthread"
ST_MEMBER = "st"
ST_NAMES = [("ST_UNINIT", "stUninit"), ("ST_INIT", "stInit"), ("ST_READY", "stReady"), ("ST_GONE", "stGone")]
UNK = 999
# op kinds of the generated table
K_LOAD, K_STORE, K_CAS, K_UNKNOWN = 0, 1, 2, 3


def clang_ast(clang, args, path):
    cmd = [clang, "-Xclang", "-ast-dump=json", "-fsyntax-only", "-w"] + args + [path]
    r = subprocess.run(cmd, stdout=subprocess.PIPE, stderr=subprocess.PIPE)
    if r.returncode != 0:
        sys.stderr.write(r.stderr.decode("latin1")[-3000:])
        raise SystemExit("gen_footprint: clang failed on " + path)
    return json.loads(r.stdout)


def top_const(qual):
    """Is an object of this type immutable (top-level const / array of const)?"""
    t = re.sub(r"\[[^\]]*\]", "", qual).strip()
    if "*" in t:
        return re.search(r"\bconst\b", t.rsplit("*", 1)[1]) is not None
    return re.search(r"\bconst\b", t) is not None


def pointee_const(ptype):
    if "*" not in ptype:
        return False
    return re.search(r"\bconst\b", ptype.rsplit("*", 1)[0]) is not None


def strip(n):
    """Skip parentheses and value-preserving casts."""
    while n.get("kind") in ("ParenExpr", "CStyleCastExpr", "ConstantExpr") or (
            n.get("kind") == "ImplicitCastExpr" and n.get("castKind") in (
                "NoOp", "BitCast", "IntegralCast", "AtomicToNonAtomic", "NonAtomicToAtomic", "IntegralToBoolean")):
        inner = [c for c in n.get("inner", []) if "kind" in c]
        if not inner:
            break
        n = inner[-1]
    return n


class Unit:
    """One translation unit."""

    def __init__(self, path, ast):
        self.path = path
        self.src = open(path, "rb").read()
        self.ast = ast
        self.enum = {}        # decl id -> value
        self.enum_by_name = {}
        self.fdecl = {}       # decl id -> FunctionDecl node (any, also prototypes)
        self.fbody = {}       # name -> FunctionDecl node with a body
        self.gvars = {}       # decl id -> (name, tls, const)
        self.gdefs = []       # (name, tls, const, where)
        self.index()

    @staticmethod
    def in_main(n):
        loc = n.get("loc") or {}
        loc = loc.get("expansionLoc", loc)
        return bool(loc) and "includedFrom" not in loc

    def index(self):
        for n in self.ast.get("inner", []):
            k = n.get("kind")
            if k == "EnumDecl":
                val = -1
                for c in n.get("inner", []):
                    if c.get("kind") != "EnumConstantDecl":
                        continue
                    v = None
                    for e in c.get("inner", []):
                        if e.get("kind") == "ConstantExpr" and "value" in e:
                            v = int(e["value"])
                    val = v if v is not None else val + 1
                    self.enum[c["id"]] = val
                    self.enum_by_name[c["name"]] = val
            elif k == "FunctionDecl":
                self.fdecl[n["id"]] = n
                if any(c.get("kind") == "CompoundStmt" for c in n.get("inner", [])):
                    self.fbody[n["name"]] = n
            elif k == "VarDecl":
                tls = "tls" in n
                const = top_const(n["type"]["qualType"])
                self.gvars[n["id"]] = (n["name"], tls, const)
                if n.get("storageClass") != "extern":
                    self.gdefs.append((n["name"], tls, const, "file"))
        # redeclarations: an extern declaration followed by a definition share
        # the name; map every id of that name to the same record
        # function-local statics
        for fn in self.fbody.values():
            self.local_statics(fn, fn["name"])

    def local_statics(self, n, fname):
        for c in n.get("inner", []):
            if not isinstance(c, dict):
                continue
            if c.get("kind") == "VarDecl" and c.get("storageClass") == "static":
                tls = "tls" in c
                const = top_const(c["type"]["qualType"])
                nm = fname + "::" + c["name"]
                self.gvars[c["id"]] = (nm, tls, const)
                self.gdefs.append((nm, tls, const, "local-static"))
            self.local_statics(c, fname)

    def text_at(self, loc):
        """Source token at a location (the macro name for an expansion)."""
        if not loc:
            return ""
        loc = loc.get("expansionLoc", loc)
        if "includedFrom" in loc or "offset" not in loc:
            return ""
        o = loc["offset"]
        return self.src[o:o + loc.get("tokLen", 0)].decode("latin1")


class Analyzer:
    """Event sequence of one function body (calls left symbolic)."""

    def __init__(self, unit, fn):
        self.u = unit
        self.fn = fn
        self.ev = []
        self.locals_init = {}     # local var id -> init expr
        self.locals_dirty = set()
        self.params = {}
        self.fmts = []
        # parameters of this function, by declaration id -> position: a parameter used as an operand of an
        # operation on rproc.st is kept SYMBOLIC (encoded -(position+1)) and bound to the call's argument
        # when the callee's events are spliced into its caller (`expand`), so that wrapping the
        # compare-and-swap in a small helper does not hide its constants
        self.param_index = {}
        for c in fn.get("inner", []):
            if c.get("kind") == "ParmVarDecl" and "id" in c:
                self.param_index[c["id"]] = len(self.param_index)
        self.params_dirty = set()

    # ---- events
    def emit_var(self, name, member, use):
        if name == PROC_VAR:
            if member == ST_MEMBER:
                # plain (non-builtin) access to the atomic: still an atomic
                # load / store in C11, but not a read-modify-write
                if "r" in use:
                    self.ev.append(("st", K_LOAD, UNK, 0, "plain"))
                if "w" in use:
                    self.ev.append(("st", K_STORE, UNK, 0, "plain"))
                return
            if "r" in use:
                self.ev.append(("pr", member))
            if "w" in use:
                self.ev.append(("pw", member))
        elif name == THREAD_VAR:
            if "r" in use:
                self.ev.append(("tr", member))
            if "w" in use:
                self.ev.append(("tw", member))
        else:
            if "r" in use:
                self.ev.append(("gr", name))
            if "w" in use:
                self.ev.append(("gw", name))

    # ---- constant resolution
    def resolve(self, e, deref=False):
        e = strip(e)
        k = e.get("kind")
        if k == "IntegerLiteral":
            return int(e["value"])
        if k == "ImplicitCastExpr" and e.get("castKind") == "LValueToRValue":
            return self.resolve(e["inner"][0])
        if k == "UnaryOperator" and e.get("opcode") == "&":
            return self.resolve(e["inner"][0])
        if k == "DeclRefExpr":
            d = e["referencedDecl"]
            if d["kind"] == "EnumConstantDecl":
                return self.u.enum.get(d["id"], UNK)
            if d["id"] in self.locals_init and d["id"] not in self.locals_dirty:
                return self.resolve(self.locals_init[d["id"]])
            if d.get("kind") == "ParmVarDecl" and d["id"] in self.param_index and d["id"] not in self.params_dirty:
                return -(self.param_index[d["id"]] + 1)
        return UNK

    def is_st(self, e):
        """Is this lvalue expression `rproc.st`?"""
        e = strip(e)
        if e.get("kind") != "MemberExpr" or e.get("isArrow") or e.get("name") != ST_MEMBER:
            return False
        b = strip(e["inner"][0])
        return b.get("kind") == "DeclRefExpr" and b["referencedDecl"].get("name") == PROC_VAR \
            and b["referencedDecl"]["id"] in self.u.gvars

    def st_load_of(self, e):
        """If the rvalue `e` is exactly a load of rproc.st return 'atomic' / 'plain'."""
        e = strip(e)
        if e.get("kind") == "AtomicExpr":
            ch = [c for c in e.get("inner", [])]
            if len(ch) == 2 and self.atomic_target_is_st(ch[0]):
                return "atomic"
        if e.get("kind") == "ImplicitCastExpr" and e.get("castKind") == "LValueToRValue" and self.is_st(e["inner"][0]):
            return "plain"
        return None

    def atomic_target_is_st(self, p):
        p = strip(p)
        return p.get("kind") == "UnaryOperator" and p.get("opcode") == "&" and self.is_st(p["inner"][0])

    # ---- walking
    def children(self, n):
        return [c for c in n.get("inner", []) if isinstance(c, dict) and "kind" in c]

    def walk(self, n, use="n"):
        k = n.get("kind")
        ch = self.children(n)
        if k in ("UnaryExprOrTypeTraitExpr",):           # sizeof / alignof: unevaluated
            return
        if k == "DeclRefExpr":
            d = n["referencedDecl"]
            if d.get("kind") == "VarDecl" and d["id"] in self.u.gvars:
                name, tls, const = self.u.gvars[d["id"]]
                self.emit_var(name, "*", "r" if use == "n" else use)
            elif d.get("kind") == "VarDecl" and "w" in use:
                self.locals_dirty.add(d["id"])
            elif d.get("kind") == "ParmVarDecl" and "w" in use:
                self.params_dirty.add(d["id"])
            return
        if k == "MemberExpr":
            if not n.get("isArrow"):
                b = strip(ch[0])
                if b.get("kind") == "DeclRefExpr" and b["referencedDecl"].get("kind") == "VarDecl" \
                        and b["referencedDecl"]["id"] in self.u.gvars:
                    name, tls, const = self.u.gvars[b["referencedDecl"]["id"]]
                    self.emit_var(name, n["name"], "r" if use == "n" else use)
                    return
                self.walk(ch[0], use)
            else:
                self.walk(ch[0], "n")
            return
        if k == "ParenExpr":
            self.walk(ch[0], use)
            return
        if k == "ArraySubscriptExpr":
            base, idx = ch[0], ch[1]
            sb = strip(base)
            if sb.get("kind") == "ImplicitCastExpr" and sb.get("castKind") == "ArrayToPointerDecay":
                self.walk(sb["inner"][0], "r" if use == "n" else use)
            else:
                self.walk(base, "n")
            self.walk(idx, "n")
            return
        if k in ("ImplicitCastExpr", "CStyleCastExpr"):
            ck = n.get("castKind")
            if ck == "LValueToRValue":
                self.walk(ch[0], "r")
            elif ck == "ArrayToPointerDecay":
                # decays that reach here are not call arguments: the pointer escapes
                pc = pointee_const(n["type"]["qualType"])
                self.walk(ch[0], "r" if pc else "rw")
            else:
                self.walk(ch[0], use)
            return
        if k == "UnaryOperator":
            op = n.get("opcode")
            if op == "&":
                pc = pointee_const(n["type"]["qualType"])
                self.walk(ch[0], "r" if pc else "rw")
            elif op in ("++", "--"):
                self.walk(ch[0], "rw")
            elif op == "*":
                self.walk(ch[0], "n")
            else:
                self.walk(ch[0], "n")
            return
        if k == "BinaryOperator" or k == "CompoundAssignOperator":
            op = n.get("opcode")
            if op == "=":
                if self.is_st(ch[0]):
                    self.walk(ch[1], "n")
                    self.ev.append(("st", K_STORE, self.resolve(ch[1]), 0, "plain"))
                    return
                self.walk(ch[1], "n")
                self.walk(ch[0], "w")
                return
            if k == "CompoundAssignOperator":
                self.walk(ch[1], "n")
                self.walk(ch[0], "rw")
                return
            if op in ("==", "!="):
                for a, b in ((ch[0], ch[1]), (ch[1], ch[0])):
                    how = self.st_load_of(a)
                    if how:
                        self.walk(b, "n")
                        self.ev.append(("st", K_LOAD, self.resolve(b), 0, how))
                        return
            self.walk(ch[0], "n")
            self.walk(ch[1], "n")
            return
        if k == "AtomicExpr":
            self.atomic(n, ch)
            return
        if k == "CallExpr":
            self.call(n, ch)
            return
        if k == "DeclStmt":
            for d in ch:
                if d.get("kind") == "VarDecl":
                    init = self.children(d)
                    if init and d.get("storageClass") != "static":
                        self.locals_init[d["id"]] = init[-1]
                    for i in init:
                        self.walk(i, "n")
            return
        if k == "GCCAsmStmt":
            return
        for c in ch:
            self.walk(c, "n")

    def atomic(self, n, ch):
        name = self.u.text_at(n.get("range", {}).get("begin"))
        on_st = self.atomic_target_is_st(ch[0]) if ch else False
        # shape: load = (ptr, order); store/xchg/fetch = (ptr, order, val);
        # compare_exchange = (ptr, order, expected, order_fail, desired)
        kind = None
        if "compare_exchange" in name or (not name and len(ch) == 5):
            kind = K_CAS
        elif "load" in name or (not name and len(ch) == 2):
            kind = K_LOAD
        elif ("store" in name or "init" in name or (not name and len(ch) == 3
                                                    and n["type"]["qualType"] == "void")):
            kind = K_STORE
        else:
            kind = K_UNKNOWN
        # consistency between the name and the shape
        want = {K_CAS: 5, K_LOAD: 2, K_STORE: 3}.get(kind)
        if want is not None and len(ch) != want:
            kind = K_UNKNOWN
        if not on_st:
            # atomic operation on something else: treat its target as read+written
            if ch:
                t = strip(ch[0])
                if t.get("kind") == "UnaryOperator" and t.get("opcode") == "&":
                    self.walk(t["inner"][0], "r" if kind == K_LOAD else "rw")
                else:
                    self.walk(ch[0], "n")
            for c in ch[1:]:
                self.walk(c, "n")
            return
        vals = [self.resolve(c) for c in ch]      # before the walk marks `&local` as modified
        for c in ch[1:]:
            self.walk(c, "n")
        if kind == K_CAS:
            self.ev.append(("st", K_CAS, vals[2], vals[4], name or "builtin"))
            # the local that received the observed value is no longer its initialiser
            t = strip(ch[2])
            if t.get("kind") == "UnaryOperator":
                t = strip(t["inner"][0])
                if t.get("kind") == "DeclRefExpr":
                    self.locals_dirty.add(t["referencedDecl"]["id"])
        elif kind == K_LOAD:
            self.ev.append(("st", K_LOAD, UNK, 0, name or "builtin"))
        elif kind == K_STORE:
            self.ev.append(("st", K_STORE, vals[2], 0, name or "builtin"))
        else:
            self.ev.append(("st", K_UNKNOWN, UNK, 0, name or "builtin"))

    def call(self, n, ch):
        callee = strip(ch[0])
        if callee.get("kind") == "ImplicitCastExpr":
            callee = strip(callee["inner"][0])
        fname, ptypes, variadic = None, [], False
        if callee.get("kind") == "DeclRefExpr" and callee["referencedDecl"].get("kind") == "FunctionDecl":
            d = callee["referencedDecl"]
            fname = d["name"]
            decl = self.u.fdecl.get(d["id"])
            if decl is not None:
                ptypes = [c["type"]["qualType"] for c in decl.get("inner", []) if c.get("kind") == "ParmVarDecl"]
            variadic = d["type"]["qualType"].rstrip().endswith("...)")
        else:
            self.walk(ch[0], "n")
            self.ev.append(("unresolved", "indirect call in " + self.fn["name"]))
        for i, a in enumerate(ch[1:]):
            s = strip(a)
            target = None
            if s.get("kind") == "ImplicitCastExpr" and s.get("castKind") == "ArrayToPointerDecay":
                target = s["inner"][0]
            elif s.get("kind") == "UnaryOperator" and s.get("opcode") == "&":
                target = s["inner"][0]
            if target is None:
                self.walk(a, "n")
                continue
            if i < len(ptypes):
                ro = pointee_const(ptypes[i])
            elif fname in PRINTF_LIKE:
                ro = True
            else:
                ro = False
            self.walk(target, "r" if ro else "rw")
        if fname in ("snprintf", "sprintf") and len(ch) >= 3:
            # path construction: remember the format and whether rthread.tid / a `tid` parameter feeds it
            fi = 3 if fname == "snprintf" else 2
            if fi < len(ch):
                f = strip(ch[fi])
                if f.get("kind") == "ImplicitCastExpr":
                    f = strip(f["inner"][0])
                if f.get("kind") == "StringLiteral" and "/" in f.get("value", ""):
                    try:
                        lit = json.loads(f["value"])
                    except ValueError:
                        lit = f["value"].strip('"')
                    self.fmts.append(lit)
        if fname is not None:
            self.ev.append(("call", fname, tuple(self.resolve(a) for a in ch[1:])))


def analyse(units):
    """events per function name (first definition wins; static helpers of the
    later units are prefixed by nothing: names are unique in libovni)"""
    seqs = {}
    fmts = []
    for u in units:
        for name, fn in u.fbody.items():
            if name in seqs:
                continue
            a = Analyzer(u, fn)
            for c in fn.get("inner", []):
                if c.get("kind") == "CompoundStmt":
                    a.walk(c)
            seqs[name] = a.ev
            fmts += [(name, f) for f in a.fmts]
    return seqs, fmts


def expand(name, seqs, memo, stack):
    if name in memo:
        return memo[name]
    if name in stack:
        return []            # recursion: the events of the cycle are already counted once
    stack.append(name)
    out = []
    for e in seqs[name]:
        if e[0] == "call":
            if e[1] in seqs:
                args = e[2] if len(e) > 2 else ()
                out += [bind(x, args) for x in expand(e[1], seqs, memo, stack)]
        else:
            out.append(e)
    stack.pop()
    if not stack:
        memo[name] = out
    return out


def bind(e, args):
    """Replace the callee's symbolic parameter values (-(i+1)) in a spliced event by the call's
    arguments (which may themselves be symbolic in the caller's frame)."""
    if e[0] != "st":
        return e

    def sub(v):
        if isinstance(v, int) and v < 0:
            i = -v - 1
            return args[i] if i < len(args) else UNK
        return v
    return (e[0], e[1], sub(e[2]), sub(e[3]), e[4])


def ground(ev):
    """Events of a public function: a value that is still symbolic comes from the caller of the API."""
    out = []
    for e in ev:
        if e[0] == "st":
            e = (e[0], e[1], e[2] if not (isinstance(e[2], int) and e[2] < 0) else UNK,
                 e[3] if not (isinstance(e[3], int) and e[3] < 0) else UNK, e[4])
        out.append(e)
    return out


def lean_str(s):
    return '"' + s.replace("\\", "\\\\").replace('"', '\\"') + '"'


def lean_list(xs):
    return "[" + ", ".join(xs) + "]"


def uniq(xs):
    out = []
    for x in xs:
        if x not in out:
            out.append(x)
    return out


def main():
    argv = sys.argv[1:]
    out = None
    clang = "clang-14"
    dump = None
    while argv and argv[0] != "--":
        if argv[0] == "--out":
            out = argv[1]
            argv = argv[2:]
        elif argv[0] == "--clang":
            clang = argv[1]
            argv = argv[2:]
        elif argv[0] == "--json":
            dump = argv[1]
            argv = argv[2:]
        else:
            raise SystemExit("bad argument " + argv[0])
    argv = argv[1:]
    files = [a for a in argv if a.endswith(".c")]
    cargs = [a for a in argv if not a.endswith(".c")]
    units = [Unit(f, clang_ast(clang, cargs, f)) for f in files]
    rt = units[0]
    seqs, fmts = analyse(units)
    memo = {}
    api = [n for n, fn in rt.fbody.items() if fn.get("storageClass") != "static" and Unit.in_main(fn)]
    rows = []
    info = {}
    for name in api:
        ev = ground(expand(name, seqs, memo, []))
        reads = sorted(set(e[1] for e in ev if e[0] == "pr") | ({ST_MEMBER} if any(
            e[0] == "st" and e[1] in (K_LOAD, K_CAS, K_UNKNOWN) for e in ev) else set()))
        writes = sorted(set(e[1] for e in ev if e[0] == "pw") | ({ST_MEMBER} if any(
            e[0] == "st" and e[1] in (K_STORE, K_CAS, K_UNKNOWN) for e in ev) else set()))
        thr = any(e[0] in ("tr", "tw") for e in ev)
        stops = [(e[1], e[2], e[3]) for e in ev if e[0] == "st"]
        order = []
        for e in ev:
            if e[0] == "st":
                order.append((e[1], e[2], e[3], ST_MEMBER))
            elif e[0] == "pw":
                order.append((4, 0, 0, e[1]))
        gw = uniq([e[1] for e in ev if e[0] == "gw"])
        gr = uniq([e[1] for e in ev if e[0] == "gr"])
        unres = uniq([e[1] for e in ev if e[0] == "unresolved"])
        rows.append((name, reads, writes, thr, stops))
        info[name] = {"reads": reads, "writes": writes, "rthread": thr, "st_ops": stops, "order": order,
                      "other_globals_written": gw, "other_globals_read": gr, "unresolved": unres,
                      "rthread_members_written": sorted(set(e[1] for e in ev if e[0] == "tw")),
                      "st_how": [e[4] for e in ev if e[0] == "st"]}
    shared = []
    for u in units:
        for (nm, tls, const, where) in u.gdefs:
            if not tls and not const and nm not in shared:
                shared.append(nm)
    tlsv = uniq([nm for u in units for (nm, tls, const, where) in u.gdefs if tls])
    rt_shared = uniq([nm for (nm, tls, const, where) in rt.gdefs if not tls and not const])

    L = []
    L.append("-- GENERATED from /repo (src/rt/ovni.c, src/common.c) on every run by tools/gen/gen_footprint.py")
    L.append("-- (clang -Xclang -ast-dump=json); do not edit.")
    L.append("namespace Ovni.Generated.Footprint")
    L.append("")
    L.append("/-! Values of the `ST_*` enum as the compiler sees them. -/")
    for cname, lname in ST_NAMES:
        L.append(f"def {lname} : Nat := {rt.enum_by_name.get(cname, UNK)}")
    L.append(f"def unknownVal : Nat := {UNK}")
    L.append("")
    L.append("/-! Operation on `rproc.st`: `(kind, a, b)`; kind 0 = atomic load (compared with `a`, "
             f"{UNK} = not directly compared),")
    L.append("    1 = atomic store of `a`, 2 = atomic_compare_exchange_strong expecting `a` storing `b`, "
             "3 = unrecognised access. -/")
    L.append("def kLoad : Nat := 0")
    L.append("def kStore : Nat := 1")
    L.append("def kCas : Nat := 2")
    L.append("def kUnknown : Nat := 3")
    L.append("def kMemberWrite : Nat := 4")
    L.append("")
    L.append("/-- Per public API function (transitively through its callees): name, rproc members read,")
    L.append("    rproc members written, touches rthread, ordered operations on rproc.st. -/")
    L.append("def table : List (String × List String × List String × Bool × List (Nat × Nat × Nat)) := [")
    for i, (name, reads, writes, thr, stops) in enumerate(rows):
        ops = lean_list([f"({k}, {a}, {b})" for (k, a, b) in stops])
        L.append(f"  ({lean_str(name)}, {lean_list([lean_str(x) for x in reads])}, "
                 f"{lean_list([lean_str(x) for x in writes])}, {'true' if thr else 'false'}, {ops})"
                 + ("," if i + 1 < len(rows) else ""))
    L.append("]")
    L.append("")
    L.append("/-- Per function: ordered shared events `(kind, a, b, member)`: the st operations above and")
    L.append("    (kind 4) every write of an rproc member, in source order. -/")
    L.append("def order : List (String × List (Nat × Nat × Nat × String)) := [")
    names = [r[0] for r in rows]
    for i, name in enumerate(names):
        o = lean_list([f"({k}, {a}, {b}, {lean_str(m)})" for (k, a, b, m) in info[name]["order"]])
        L.append(f"  ({lean_str(name)}, {o})" + ("," if i + 1 < len(names) else ""))
    L.append("]")
    L.append("")
    L.append("/-- Variables with static storage that are neither thread-local nor const, defined in ovni.c. -/")
    L.append(f"def sharedGlobals : List String := {lean_list([lean_str(x) for x in rt_shared])}")
    L.append("/-- The same over all analysed files (ovni.c, common.c). -/")
    L.append(f"def sharedGlobalsAll : List String := {lean_list([lean_str(x) for x in shared])}")
    L.append(f"def threadLocals : List String := {lean_list([lean_str(x) for x in tlsv])}")
    L.append("")
    L.append("/-- Per function: shared globals other than rproc that it writes (transitively). -/")
    L.append("def otherWrites : List (String × List String) := [")
    for i, name in enumerate(names):
        L.append(f"  ({lean_str(name)}, {lean_list([lean_str(x) for x in info[name]['other_globals_written']])})"
                 + ("," if i + 1 < len(names) else ""))
    L.append("]")
    L.append("")
    L.append("/-- Every path the runtime builds: (function, format string of its snprintf, the same as bytes). -/")
    L.append("def pathFormats : List (String × String × List Nat) := [")
    for i, (fn_, f) in enumerate(fmts):
        L.append(f"  ({lean_str(fn_)}, {lean_str(f)}, {lean_list([str(b) for b in f.encode()])})"
                 + ("," if i + 1 < len(fmts) else ""))
    L.append("]")
    L.append("")
    L.append("/-- What the analysis could not resolve (indirect calls); must be empty. -/")
    unres = uniq([x for name in names for x in info[name]["unresolved"]])
    L.append(f"def unresolved : List String := {lean_list([lean_str(x) for x in unres])}")
    L.append("")
    L.append("end Ovni.Generated.Footprint")
    text = "\n".join(L) + "\n"
    if out:
        with open(out, "w") as f:
            f.write(text)
    else:
        sys.stdout.write(text)
    if dump:
        with open(dump, "w") as f:
            json.dump({"enum": {c: rt.enum_by_name.get(c) for c, _ in ST_NAMES}, "functions": info,
                       "shared_globals": rt_shared, "shared_globals_all": shared, "thread_locals": tlsv,
                       "api": names, "path_formats": fmts}, f, indent=1)


if __name__ == "__main__":
    main()
