#!/bin/bash
# usage: verify_seeded.sh <candidate dir with patch.diff run.sh meta.json> 
# Confirms in a scratch worktree of /repo: patch applies, builds, test suite passes,
# demo fails with the change and passes without it. Prints a one-line verdict.
set -u
C="$1"
WT=$(mktemp -d /tmp/seedwt-XXXX)
git -C /repo worktree add -q --detach "$WT" HEAD || exit 2
cd "$WT"
build() { cmake -G Ninja -B _build -DCMAKE_BUILD_TYPE=RelWithDebInfo -DUSE_MPI=OFF -DCMAKE_C_FLAGS=-Wno-error -DOVNI_GIT_COMMIT=x >/dev/null 2>&1 && ninja -C _build >/dev/null 2>&1; }
res=""
if ! git apply "$C/patch.diff" 2>/dev/null; then res="patch-does-not-apply"; fi
if [ -z "$res" ]; then
  if ! build; then res="does-not-build"; fi
fi
if [ -z "$res" ]; then
  t=$(ctest --test-dir _build -j8 --timeout 900 2>&1 | grep "tests passed" )
  case "$t" in *"100% tests passed"*) ;; *) res="tests-fail: $t";; esac
fi
if [ -z "$res" ]; then
  export OVNI_CONFIG_DIR="$WT/cfg"
  (cd "$C" && timeout 600 ./run.sh "$WT/_build" "$WT" >/tmp/seed-demo-with.log 2>&1); rc1=$?
  git checkout -q -- . && build
  (cd "$C" && timeout 600 ./run.sh "$WT/_build" "$WT" >/tmp/seed-demo-without.log 2>&1); rc2=$?
  if [ $rc1 -ne 0 ] && [ $rc2 -eq 0 ]; then res="confirmed (demo rc with=$rc1 without=$rc2; ctest 88/88)"; else res="demo-not-discriminating (with=$rc1 without=$rc2)"; fi
fi
cd /
git -C /repo worktree remove --force "$WT"
echo "$(basename $C): $res"
