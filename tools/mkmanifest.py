#!/usr/bin/env python3
"""Writes /verif/MANIFEST.json from the table below (kept valid at all times)."""
import json
import os

VERIF = os.path.abspath(os.path.join(os.path.dirname(__file__), ".."))

TB = ("Lean 4.33 kernel; axioms propext/Classical.choice/Quot.sound only (audited each run); the hand-written "
      "Lean model is tied to /repo by the differential correspondence run of the check (generator-bounded) and by "
      "tables regenerated from the C source through the C compiler on every run")

CHECKS = {
    "C14": dict(
        text=("Theorems (Props/C14.lean, 22): compatibility iff same major and minor<=; well-formed a.b.c[-suffix] "
              "parses to (a,b,c); NULL, >=64 chars, missing field, non-numeric field, negative field are refused; "
              "ovni_version_check_str returns iff compatible with the library version; a model is enabled iff some "
              "stream requires it compatibly or -a (the base model 'ovni' is unconditionally on, as the code says), "
              "an incompatible/unparsable/missing requirement aborts, events of non-enabled models are gated. "
              "Tie: real version.h + ovni_version_check_str in an ASan/UBSan harness on the exhaustive {0..3}^6 domain "
              "and thousands of structured malformed strings vs the Lean model, and ovniemu on random require-sets vs "
              "the model's gate verdict; provider versions regenerated from the source."),
        note=TB + "; strtol/strtok_r/isspace semantics (glibc, C locale) are modelled; parson returns strings unchanged",
        technique="Lean 4 theorems over a transcription of version.h/model.c + differential correspondence (C harness, ovniemu)",
        design="DESIGN.md §5 C14"),
}

NOT_YET = "check not built yet in this round (model and correspondence in progress; see DESIGN.md §5)"

ALL = ["C%02d" % i for i in range(1, 21)]


def main():
    man = {
        "version": 1,
        "setup_cmd": "python3 checks/setup.py",
        "hooks": {
            "guard": "OVNI_VERIF",
            "enable": "checks build /repo's working tree with cmake -DCMAKE_C_FLAGS=-DOVNI_VERIF (checks/lib/vcommon.py: repo_build)",
            "baseline_off_cmd": "cmake -G Ninja -S /repo -B /repo/_build >/dev/null && cmake --build /repo/_build >/dev/null && ctest --test-dir /repo/_build -j8 --timeout 900",
            "source_commits": [],
            "add_only": True,
        },
        "engines": [
            {"name": "lean-model", "path": "lean/", "serves_properties": sorted(CHECKS),
             "kind_free_text": "Lean 4 model + property theorems (lake project OvniModel), line-protocol driver `ovnimodel`"},
            {"name": "translator", "path": "tools/gen/", "serves_properties": sorted(CHECKS),
             "kind_free_text": "C programs that #include /repo's model sources and print Lean tables (regenerated every run)"},
            {"name": "correspondence", "path": "checks/ harness/ tools/ovnitrace.py", "serves_properties": sorted(CHECKS),
             "kind_free_text": "in-process C harnesses over /repo sources (ASan+UBSan), independent Python trace writer + real tools, diffed against the Lean driver"},
        ],
        "checks": [],
        "not_applicable": [],
        "notes": "Every check: rebuilds /repo working tree (hooks on), regenerates lean/OvniModel/Generated, lake build, audit (grep + #print axioms), correspondence; see DESIGN.md §3.",
    }
    for pid in ALL:
        if pid in CHECKS:
            c = CHECKS[pid]
            man["checks"].append({
                "property_id": pid,
                "quick_cmd": f"python3 checks/check.py {pid} --tier quick",
                "thorough_cmd": f"python3 checks/check.py {pid} --tier thorough",
                "evidence_file": f"evidence/{pid}.json",
                "replay_cmd_template": f"python3 checks/check.py {pid} --replay {{path}}",
                "engine": "lean-model",
                "level_claimed": {"category": "proof", "text": c["text"], "design_ref": c["design"]},
                "level_note": c["note"],
                "technique": c["technique"],
            })
        else:
            man["not_applicable"].append({"property_id": pid, "reason": NOT_YET})
    with open(os.path.join(VERIF, "MANIFEST.json"), "w") as f:
        json.dump(man, f, indent=1)
        f.write("\n")


if __name__ == "__main__":
    main()
