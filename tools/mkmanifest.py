#!/usr/bin/env python3
"""Writes /verif/MANIFEST.json from the table below (kept valid at all times)."""
import json
import os

VERIF = os.path.abspath(os.path.join(os.path.dirname(__file__), ".."))

TB = ("Lean 4.33 kernel; axioms propext/Classical.choice/Quot.sound only (audited each run); the hand-written "
      "Lean model is tied to /repo by the differential correspondence run of the check (generator-bounded) and by "
      "tables and handler facts (state guards, category switches, lint channels, connect-time values) regenerated from the C "
      "source through the C compiler / clang AST on every run")

CHECKS = {
    "C01": dict(
        text=("Theorems (Props/C01.lean, 23) over a transcription of ovni_payload_add/ovni_ev_add/ovni_ev_add_jumbo/"
              "add_flush_events/ovni_flush/mark emitters with the capacity as a parameter (> 24, so every alignment of "
              "the 2 MiB boundary): payload sizes 0,2..16 round-trip through the size nibble (payload_roundtrip); every "
              "sequence of library records decodes back event by event, tiling the bytes (decode_encode, decode_stream, "
              "file_decodes); each API call appends exactly the record handed over, followed only by payload-free OF[/OF] "
              "markers (step_fidelity), lifted to whole programs (run_fidelity) and to init;ops;flush;free: the file "
              "starts with the header and its user events are exactly the emitted ones, once, in order "
              "(stream_fidelity); evlen is exact and < capacity in every reachable state (buffer_in_bounds). "
              "Props/C01Write.lean (16) removes the assumption that write() completes for the loop of write_evbuf, the OS being an "
              "arbitrary list of answers (error or any count): when the loop ends the file grew by exactly the buffer "
              "(write_evbuf_exact), at every other moment by a prefix of it (write_evbuf_prefix), it ends within max(1,size) "
              "calls when every answer transfers a byte (write_evbuf_terminates), and its call log is what replay accepts "
              "(replay_accepts, replay_accepts_abort); lifted to the whole sequence of flushes (writeAll_exact, writeAll_terminates: the file is the concatenation of the flushed buffers, which is the disk of the buffer model). "
              "Tie: the real ovni.c+common.c+parson.c compiled with ASan/UBSan into a harness with an interposed clock; "
              "random programs and a systematic sweep of the fill level around the boundary; the stream file must equal "
              "the bytes predicted by the Lean model (its own encoder) and satisfy an independent Python decoder/oracle; the same "
              "programs are re-run with single short / interrupted writes and under whole pseudo-random short-write schedules "
              "(every write cut to 1..n bytes), the file must stay byte-identical and the logged (asked, transferred) calls "
              "must replay through WriteLoop.replay with the model's number of flushes and the file's size."),
        note=TB + "; clock replaced by a deterministic counter; write() answers are an oracle in Props/C01Write (in Props/C01 the buffer is handed over whole); the "
             "buffer is modelled as a list of records whose encoded length is proved equal to evlen",
        technique="Lean 4 invariant proofs over a state-machine model of the staging buffer + byte-exact differential run against libovni",
        design="DESIGN.md §5 C01"),
    "C02": dict(
        text=("Theorems (Props/C02.lean + Props/C02Emu.lean, 25): for every capacity > 24 and every protocol-conformant program (clocks read "
              "from the library clock right before each emit, zeroed event structs, no forged OF codes) that returns, the "
              "file has non-decreasing clocks, properly paired non-nested flush markers, well-formed records, and decodes "
              "exactly (conformant_stream_valid, via the invariant step_valid/run_valid), and the emulator's byte-level stream cursor of C12 "
              "accepts that file: header, exact tiling, monotone clocks, whatever lies in memory beyond it "
              "(conformant_stream_accepted, composing the runtime model with the cursor model); the statement is proved false "
              "for the code before the repair (nested_markers_before_fix, a `decide` witness replayed on libovni, see "
              "KNOWN_FINDINGS.txt 'fixed'). Tie: as C01, plus an independent validity oracle (tiling, clocks, marker "
              "pairing, metadata completeness) and the real `ovniemu -l` accepting every generated trace; a sweep of "
              "jumbo sizes within 45 bytes of the maximum."),
        note=TB + "; emulator acceptance is established by running the real ovniemu on every generated trace (not by a "
             "theorem about the emulator); metadata completeness is checked on the files, not proved",
        technique="Lean 4 invariant proof (clock order + marker balance) over the buffer model + differential run + ovniemu acceptance",
        design="DESIGN.md §5 C02"),
    "C03": dict(
        text=("Theorems (Props/C03.lean, 24): heap.h insert/pop (value-tree model with the same comparisons in the same order) "
              "keep the complete-tree shape, heap order and multiset and never reach die(); pop returns a maximum "
              "(heap_insert_inv, heap_pop_inv, pop_is_max, heap_ops_never_die; all sizes); the player (init + re-insert/pop "
              "loop + update_clocks) emits a permutation of all events (replay_perm), each stream in order "
              "(replay_stream_order), sclock = clock + host offset (replay_clock), non-decreasing for sorted streams and "
              "always when ovniemu does not reject (replay_sorted, replay_sorted_or_rejected), dclock = sclock - first sclock "
              "(dclock_def); it never fails on sorted streams passing the clock gate (any sign of the corrected clocks, after the repair of stream_step), "
              "never in ovnidump mode, and rejects only through its guards (replay_total, replay_total_unsorted, "
              "replay_rejects_only_by_guards); trace_load's sort makes the result independent of the enumeration order for "
              "every offset table (enumeration_independent, dump_/emu_enumeration_independent). Tie: the real heap.h in an "
              "ASan/UBSan harness vs the Lean heap (random + bounded-exhaustive scripts with many equal keys, every line "
              "diffed), ovnidump's exact line order and ovniemu's thread.prv (row,time) order vs the Lean player on generated "
              "multi-loom traces with offset tables, empty streams and shuffled directory creation, plus independent merge/"
              "heap oracles and an independent acceptance oracle (sorted input + usable table inside the gate must be replayed). Defect found and repaired: a negative first corrected clock was refused."),
        note=TB + "; heap pointers modelled as a value tree; streams as decoded event lists; int64 clocks as unbounded Int "
             "(no overflow); DL_SORT stable; ovniemu's order observed through the type-4 PRV records",
        technique="Lean 4 data-structure invariants + refinement of the player to an abstract merge + differential runs (C harness, ovnidump, ovniemu)",
        design="DESIGN.md §5 C03"),
    "C04": dict(
        text=("Theorems (Props/C04.lean, 27) over the reference emulator (Emu/Core.lean: transcription of ovni/event.c pre_thread_*, "
              "thread.c, cpu.c with the exact channel semantics) against a specification automaton written from the property "
              "text (Legal / specThread / SpecAccepts): the invariant WF of reachable states holds initially and is preserved "
              "by every accepted OH* event (wf_init, wf_step); in a WF state preThread succeeds IFF the transition is Legal "
              "and no physical CPU gets a second running thread (thread_accept_iff); a whole OH* history on any number of "
              "threads (never executing a dead thread) is accepted IFF every step is legal, no physical CPU is ever "
              "oversubscribed and all threads end dead (history_accept_iff); the same equivalence holds for the FULL step "
              "including record emission under NoZeroIds (non-zero TIDs/PIDs, no forbidden 0 on a model channel; true of every "
              "initial state by noZeroIds_init): records is total there (records_total), the full step can only differ from "
              "the emulator step by the forbidden-zero error (stepEv_rejects_only_zero), so stepEv_history_accept_iff; "
              "tid_zero_records_fail (decide) shows the side condition is needed; after every accepted "
              "prefix the state channel holds the spec state and the TID channel the TID exactly while running, cooling or "
              "warming, and those are the Paraver records emitted (reaches_spec, state_view, state_records). Tie: random "
              "walks over an independent Python re-statement of the automaton with single illegal steps, a transition matrix, "
              "directed oversubscription cases and every history up to length 5 (thorough 8) over two threads whose only illegal step is the last: real "
              "ovniemu -l vs the Lean reference emulator (verdict, point of rejection, thread.prv types 2/4/6) and vs the "
              "automaton's verdict and timeline."),
        note=TB + "; executing a dead thread is outside the quantified space; task/mark hooks are universally quantified; a thread "
             "marked out-of-CPU by the kernel model is outside WF",
        technique="Lean 4 invariant + iff against an independent spec automaton by induction over histories + differential ovniemu runs",
        design="DESIGN.md §5 C04"),
    "C05": dict(
        text=("Theorems (Props/C05.lean, 19) over the same model, for histories of OH* and OAs/OAr events in any interleaving: "
              "thread-in-CPU-list membership and index invariants (cpu_membership_inv, index_inv); in every reachable state "
              "every physical CPU has at most one running thread and a step that would create two is rejected "
              "(no_phys_oversub, thread_/execute_on_busy_/affinity_set_/affinity_remote_oversub_rejected) while the virtual "
              "CPU may be oversubscribed (vcpu_may_oversub, decide); accept-iff for local and remote affinity changes "
              "(affinity_set_accept_iff, affinity_remote_accept_iff; the remote change to the thread's current CPU is "
              "rejected by the code and documented: remote_same_cpu_rejected); after every accepted step the nrun channel is "
              "the number of running threads bound to the CPU and tid/pid are those of the unique one, null otherwise, and "
              "those are the cpu.prv records emitted (cpu_view, cpu_view_step, cpu_records); record emission is total for "
              "OH*/OAs/OAr steps and the fold of the full step reaches exactly the states of the emulator fold "
              "(records_total_affinity, stepRun_iff_emuRun). Tie: affinity-heavy histories "
              "over several threads, CPUs and looms, witnesses and bounded-exhaustive words: real ovniemu -l vs the Lean "
              "reference emulator and vs an independent oracle recomputing cpu.prv types 1,2,3 from thread.prv types 4,6."),
        note=TB + "; findRemote / loomGetCpu are static lookups proved invariant under steps",
        technique="Lean 4 invariant proofs over the CPU bookkeeping + differential ovniemu runs + recomputation oracle",
        design="DESIGN.md §5 C05"),
    "C06": dict(
        text=("Theorems (Props/C06.lean, 93) over a mechanism-level transcription of bay.c (growing dirty list processed by index, "
              "ordered enabled-callback lists, dirty/emit/flush phases), mux.c (cb_select, cb_input, DIRTY_WRITE/ALLOW_DUP "
              "outputs), track.c, thread_select_running/active and connect_cpu: for ONE mux in any network satisfying the frame "
              "condition, any set of writes to the select and input channels in any order followed by propagation with ANY order "
              "of the dirty list yields output = spec(f(select), inputs) and the enabled input = f(select) (mux_round, "
              "mux_round_event, mux_always); every mux of a two-level network is in sync after every event, including shared "
              "selects and inputs (network_round, layered_frame); bay_propagate never fails and needs no fuel bound "
              "(propagate_total, *_fuel_sufficient); a RUN/ACT thread track output is the channel's top exactly while the mode "
              "holds for the new state, ANY aliases the input, and the CPU track output is the raw value of the thread named "
              "by th_running or the default: these are thView / cpuView of the reference emulator (track_thread_view, "
              "track_thread_thView, track_cpu_view, track_cpu_cpuView), lifted to any number of threads, CPUs and channels "
              "(topology_frame, topology_thread_rows, topology_cpu_rows); the generated channel specs use only these modes "
              "(generated_thread_modes, generated_cpu_modes, decide). The bay connected from the emulator's hierarchy the way "
              "model_thread_connect/model_cpu_connect do (bayOf) is well formed and connect cannot fail (bayOf_topology, "
              "bayOf_connects); every handler of the reference emulator is a sequence of bay writes on mirrored source "
              "channels, so after EVERY accepted event and every accepted history the thread-track outputs equal thView and "
              "the CPU-track outputs equal cpuView (emu_event, emu_init, emu_history, emu_run_driver; one exception stated "
              "and witnessed: a CPU track with a non-null default shows null until th_running is first written, as in C). "
              "The emit phase (prv_register, the five PRV flags with last_value, the emit loop of bay_propagate) is modelled "
              "too: for every accepted event it fails exactly when the record function fails (forbidden value 0) and otherwise "
              "the lines it writes are a permutation of a list whose EFFECTIVE lines (those changing what their row shows) are "
              "exactly the model rows of View.records, system rows being written exactly (emit_step, emu_event_emit, "
              "emu_event_sys, emu_step_lines, emu_run_emit_driver); the literal equality lines = records is refuted by decide "
              "examples (first emission of null, re-selected EMITDUP/SKIPDUPNULL channels). The task-layer hook of nOS-V/"
              "Nanos6 is proved to be bay writes (hookSim_task, emu_event_task), and the task layer's copy of the task channels "
              "is proved equal to the thread's real channels along every accepted history (Coupled, coupled_init, coupled_step, "
              "coupled_history; coupled_verdicts: each check on the copy has the verdict of the C channel operation; "
              "task_hook_accepts_iff; emu_history_task_coupled, emu_run_task_driver). PRV_ZERO registrations are covered "
              "bay-side and for one emulator step (emit_step_zero, emit_step_zero_emu). OPEN: one task state per replay (single "
              "model and process), PRV_ZERO in the history-level emit theorems, chained muxes. Tie: X1 the real chan.c/"
              "bay.c/mux.c/track.c in an ASan/UBSan harness vs the Lean bay on random networks (values, last values, dirty "
              "flags, selected/enabled inputs, dirty-list and emit order) plus a spec oracle; X2 ovniemu vs the reference "
              "emulator and independent oracles recomputing every thread row from the raw history and every CPU row from the "
              "thread rows, on histories interleaving value events with pause/resume/cool/warm/migrate."),
        note=TB + "; utlist/uthash order assumed; chained and self-selecting muxes (breakdown) are outside the theorems (C20, "
             "X1 correspondence); channel names not modelled",
        technique="Lean 4 refinement proof with loop invariants over the growing dirty list + differential runs (C harness, ovniemu)",
        design="DESIGN.md §5 C06"),
    "C07": dict(
        text=("Theorems (Props/C07.lean, 12) over a transcription of body.c/task.c (one branch per C guard, in order) and of the "
              "nOS-V / Nanos6 update_task layer, against a life-cycle specification written independently: the model accepts a "
              "history of task API calls IFF every step is legal in the specification (created -> running -> (paused <-> "
              "running)* -> dead, top of stack only, nesting only over a paused body unless relaxed, parallel tasks with several "
              "bodies that cannot pause, resurrection only with the flag) for any number of tasks, bodies, stacks and all flag "
              "sets (task_accept_iff); a body is on at most one stack exactly while running or paused (body_unique_thread, "
              "running_body_has_thread, nested_over_paused); the event-level version for both models including body-id rules, "
              "task id != 0 and the ST_TASK_BODY push/pop (event_accept_iff, event_body_unique_thread); while a body runs the "
              "thread's task channels are (task id, type gid, body id, app id, rank+1), null otherwise (task_view, "
              "task_view_nosv); lint acceptance (lint_accept_iff, lint_all_ended); no table event pushes ST_TASK_BODY "
              "(table_events_clean, decide over regenerated tables). Tie: the real task.c/body.c in an ASan/UBSan harness "
              "(struct body dumped after every op) vs the Lean model on bounded-exhaustive (state, op) pairs and random "
              "histories; `ovniemu -l` on random nOS-V/Nanos6 histories with single illegal mutations: verdict, refused-event "
              "position and thread.prv types 10,11,12,14,15 / 35,36,38 vs the model, a documentation-derived reference "
              "automaton and a PRV oracle. Found and repaired: Nanos6 refused a legal nested execute (29aa1a0)."),
        note=TB + "; uthash tables as finite maps; label hash computed in Python and cross-checked with the harness; one model "
             "instance per process; e2e keeps threads running (tracking muxes are C06's subject); ST_TASK_BODY values hand-copied",
        technique="Lean 4 simulation (both directions) between the task.c model and an independent life-cycle spec + differential runs",
        design="DESIGN.md §5 C07"),
    "C08": dict(
        text=("Theorems (Props/C08.lean, 26) over the transcription of chan_push/chan_pop/chan_flush: a history of enter/leave "
              "events on a channel is accepted by the channel machinery IFF it is properly nested (leave matches the "
              "innermost open region, depth <= limit, and without ALLOW_DUP no re-entry of the innermost region) "
              "(nesting_accept_iff, unbounded length, any depth limit); hence every properly nested non-re-entering history "
              "is accepted on every channel (nonreentering_accepted); the row shows the innermost open region "
              "(view_is_top); lint rejects open regions and finish accepts iff all threads dead and nothing open "
              "(lint_open_rejected, finish_ok_iff). Whole-table `decide` facts over the tables REGENERATED from /repo each run: "
              "every enter has a leave with the same channel and value, distinct regions of a channel have distinct values, "
              "every value has a PCF label, actions/channel types are consistent, and the tables still equal the committed "
              "documented mapping event->(channel, action, value, label) (table_matches_documented) and the tracking modes of every "
              "model channel (thread row shows the value always / while running / while active; CPU row = running thread) still "
              "equal the committed documented modes (track_modes_match_documented, Spec/TrackModes.lean); a thread the kernel model marked out of the CPU - in whatever thread state - gets every nOS-V table event and every ovni event refused (out_of_cpu_rejects, out_of_cpu_rejects_ovni, with the regenerated facts out_of_cpu_facts: KCO sets the flag unconditionally). Tie: regenerated tables; "
              "e2e: per model random nested words with single mismatches, wrong thread states, open regions at the end and "
              "depths 511..513, real ovniemu -l vs the Lean reference emulator (verdict, failing event, every model row) and "
              "vs an independent Python oracle that recomputes every row from the history with the documented mapping and the documented tracking modes."),
        note=TB + "; thread-state preconditions and the per-model dispatch are hand-modelled in Emu/Core.lean and tied by the "
             "e2e correspondence; the kernel model's two events are a hand-written table",
        technique="Lean 4 iff theorem over the channel stack model + whole-table decide over regenerated tables + differential ovniemu runs",
        design="DESIGN.md §5 C08"),
    "C09": dict(
        text=("Theorems (Props/C09.lean, 10) over Rt/Fs.lean: the runtime's libc calls as a list produced by a transcription of "
              "ovni_proc_init / thread_init / flushes / attr_flush / thread_free (metadata store = fopen, fputs, fclose; the "
              "relocation of OVNI_TMPDIR mode) / proc_fini over an abstract file system; a crash = any prefix of the call list "
              "plus any prefix of what stdio had buffered: for every program, every crash point, every stdio state, both "
              "modes: if the emulator's acceptance predicate holds of what is left then every visible stream.obs contains "
              "exactly what its thread had flushed (crash_consistent), and finished=1 visible in the final directory implies "
              "the final stream.obs is complete (finished_after_data); the same for every interleaving of several threads' "
              "calls (crash_consistent_any_schedule, finished_after_data_any_schedule); 'complete' is the disk content of the "
              "C01/C02 buffer model (obsBytes_is_buffer_disk); the two facts the model needs about JSON (a written stream.json "
              "is read back, every proper prefix of it is refused) are no longer parameters: they are theorems of the parson "
              "model (crash_consistent_parson, finished_after_data_parson, crash_consistent_any_schedule_parson). Full strength for the code after the repairs 5598237 + a18b720; "
              "the statements are proved FALSE for the code before them (crash_consistent_before_fix, "
              "finished_after_data_before_fix, decide witnesses replayed on libovni). Tie: the real ovni.c with interposed "
              "libc (rt harness): the logged call sequence equals the model's call list in direct and TMPDIR mode; a kill "
              "before EVERY intercepted call of generated programs, the remains must be a crash state of the model, and "
              "`ovniemu -l` on the remains must not accept while flushed events are missing."),
        note=TB + "; PARTIAL BY NATURE: a process kill only (completed system calls persist) - no power loss, no page-cache model; "
             "JSON codec = the parson model of Props/Json (tied to parson.c by the C12 correspondence); single-thread correspondence",
        technique="Lean 4 prefix invariants over the runtime's file-system call list + kill-injection differential runs of libovni and ovniemu",
        design="DESIGN.md §5 C09"),
    "C10": dict(
        text=("Theorems (Props/C10.lean, 9) over the same model: for every program, both modes, every call index, every fault kind "
              "(errno failure or short write) and stdio state, the runtime either aborts with a complete copy of every "
              "thread's flushed bytes still present (or the failing call was close() of the stream itself), or returns with "
              "every freed thread's final trace complete (single_fault_not_silent, no site hypothesis, for the code after the "
              "repair 5598237); a fault-free run never passes through a state without a complete copy "
              "(fault_free_run_keeps_a_complete_copy); the statement is proved FALSE for the code before the repair, one decide "
              "witness per unchecked site (close_streamfd_unchecked, move_opendir_failure_silent, move_readdir_failure_silent, "
              "move_ignores_copy_errors, move_ignores_fclose_error, move_ignores_fopen_error, "
              "single_fault_not_silent_before_fix). Tie: a fault at EVERY intercepted call of generated programs x "
              "{ENOSPC, EIO, EACCES, short}: abort vs return, the calls made after the fault and the final directory contents "
              "equal the model's; oracle 'returned => final trace complete; a complete copy survives'; fault counters in the evidence."),
        note=TB + "; failed close/fclose semantics as stated in Rt/Fs applyFailed (a failed close loses the last write; a failed "
             "fclose keeps what stdio had already flushed); one fault per run; threads run one after the other in the C10 theorem",
        technique="Lean 4 case analysis over call sites lifted over positions + fault-injection differential runs of libovni",
        design="DESIGN.md §5 C10"),
    "C11": dict(
        text=("Theorems (Props/C11.lean, 19) over an interleaving model whose shared accesses are built from a FOOTPRINT regenerated "
              "from ovni.c + common.c through the clang AST on every run (tools/gen/gen_footprint.py): every API function "
              "other than proc_init/fini writes no process-wide member and only loads the state word, there is no other "
              "shared mutable global, thread paths contain thread.<tid> or are pure joins of already built paths (footprint_disjoint, thread_paths_contain_tid, "
              "decide); for every schedule of N racing ovni_proc_init / ovni_proc_fini among any other tracing threads at "
              "most one passes the compare-and-swap, on completion exactly one returned and all others died, and the process "
              "state is the winner's (cas_once, init_once, fini_once; init_shape_generated/fini_shape_generated tie the step "
              "lists to the generated ones); READY implies the process record is fully initialised in every reachable state "
              "(ready_means_initialised, init_publishes_last); for every schedule and distinct tids each thread's local state, "
              "stream.obs and stream.json equal those of its solo run and the process record is unchanged (thread_isolation, "
              "solo_is_sequential, schedule_independent); each thread's stream is a run of the C01/C02 buffer model "
              "(thread_stream_is_buffer_run); the load+store variant provably admits two winners (cas_is_needed). Tie: "
              "regenerated footprint (calls into static helpers are followed with their arguments bound, so a wrapped compare-and-swap keeps its constants); the real ovni.c in a multi-threaded harness (ASan+UBSan, and a separate ThreadSanitizer "
              "build) with per-thread clocks: per-thread files vs the single-threaded library, drv_rt and the interleaved "
              "model; barrier races of proc_init/proc_fini in forked children (exactly one winner)."),
        note=TB + "; PARTIAL BY NATURE: schedules are quantified in the model only - the real library is sampled (OS schedules, TSan); "
             "thread-local storage is private, atomic_int operations are sequentially consistent single steps, the footprint is "
             "syntactic, libc/parson internals are below the model",
        technique="Lean 4 unwinding/non-interference proofs over a generated-footprint interleaving model + multi-threaded differential runs + TSan",
        design="DESIGN.md §5 C11"),
    "C12": dict(
        text=("Theorems (Props/C12.lean + Props/Json.lean, 30) over a byte-level model of check_stream_header / load_obs / stream_step with the exact C "
              "integer casts and ARBITRARY memory beyond the file: valid streams are accepted (non-vacuity); any single header "
              "byte replaced by any other value, and files shorter than 8 bytes, are refused (bad_header_rejected, "
              "short_header_rejected); a cut strictly inside the last event is refused (Fixed.truncation_rejected, full strength "
              "for the code after the repair db50cd1; truncation_not_rejected keeps the decide witness for the code before it); "
              "two adjacent events with different clocks exchanged anywhere are refused (swap_rejected); the metadata gates as "
              "decision logic: checkStream accepts iff the spelled-out conjunction, each mandatory key missing or altered is "
              "refused (thread_stream_spec, mandatory_key_rejected, trace_key_rejected); an unparsable or incompatible model version "
              "required by ANY thread aborts the probe (mismatched_require_rejected, composing the version model of C14); events of a model that is not required "
              "and wrong payload sizes of size-checked events are refused (unrequired_model_rejected, "
              "wrong_payload_size_rejected); the sticky is_jumbo of the old emu_ev is kept as a witness. Tie: the real stream.c "
              "in an ASan harness vs the Lean cursor (every offset, accept/error, over-read), and `ovniemu -l` on every single "
              "corruption of generated valid traces (thorough: all 255 wrong values of each header byte, every cut, every "
              "adjacent swap, every mandatory key, the version each stream requires of each model, an undeclared MCV of every required "
              "model): exit != 0 and no 'emulation finished ok'. The metadata record is computed by a Lean model of parson "
              "(OvniModel/Json.lean: comments, parser, getters, dotset, pretty serializer) from the raw stream.json bytes; "
              "Props/Json proves round trip on the libovni-writable class, rejection of EVERY strict prefix of a serialized "
              "object/array/string (truncated_json_rejected: a cut stream.json is refused), trailing text ignored, dotset/dotget "
              "laws and totality with fuel 2n+1; the model is tied to the real parson.c (ASan/UBSan harness) on metadata-shaped "
              "and random documents, getters, dotset sequences, serialization, every truncation and byte mutations."),
        note=TB + "; int = 32-bit wrap, int64 offsets unbounded; metadata is logic over what the parson getters return (parson "
             "modelled, Props/Json; its correspondence is generator-bounded; non-dyadic number spellings compared on grammar only); unknown MCV inside an enabled model and handler size guards are carried by the e2e correspondence",
        technique="Lean 4 theorems over a byte-level cursor with adversarial out-of-file memory + single-corruption differential runs",
        design="DESIGN.md §5 C12"),
    "C13": dict(
        text=("Theorems (Props/C13.lean + Props/C13Text.lean, 42) over the Paraver writer model (prv_advance guard, lines written at the current "
              "time, header rewritten at close) and the record generation of the reference emulator: for every accepted "
              "sequence of steps the lines are in non-decreasing time order, none is later than the header duration, which is "
              "the clock of the last step (prv_times_monotone), a backwards step is refused; every record belongs to the row "
              "gindex+1 of an existing thread/CPU and its type is one of the types declared in the matching .pcf "
              "(records_rows_types, with specs_consistent by decide over regenerated specs); table/initial/default values are "
              "labelled (init_values_labelled + C08 tables_labelled); for accepted OH*/OA* steps a thread-state record carries one "
              "of the six labelled state codes of its row's thread and a CPU record 0 or gindex+1 of an existing CPU the "
              "thread is bound to (records_values_labelled_ovni), and record emission fails only on a forbidden zero "
              "(records_error_only_zero); the .row file has one name per row. Tie: on every "
              "accepted generated trace independent Python parsers check thread/cpu .prv/.pcf/.row (time order, row range, "
              "duration = last event time, types declared, state values labelled, row names in documented order) and the "
              "timelines equal the Lean reference emulator's. Text level (Props/C13Text): Emu/PvLines (the whole patch bay incl. "
              "system channels in emu_connect order, handler write order -> the exact emitted lines) + Emu/PvText (printf-exact "
              ".prv/.row/.pcf incl. the header rewritten at close and the MAX_P*F_LABEL refusals): prv_roundtrip for all numbers, "
              "header_rewrite_same_length_iff (exact bound -10^19 < d < 10^20, every int64 inside, corruption beyond by decide), "
              "files_wellformed: for every accepted history the .prv TEXT parses, duration = last clock, times non-decreasing "
              "and <= duration, rows within 1..nrows, every type declared by the .pcf TEXT, .row reads back one name per row in "
              "gindex order; the .pcf TEXT reads back (pcf_roundtrip: an independent reader of the EVENT_TYPE blocks returns exactly the types, labels and "
              "value lines for every PCF whose labels contain no newline - three decide counterexamples show each conjunct is needed; "
              "pcfText_injective; emu_pcf_roundtrip for the PCFs the emulator builds) and the labelling holds on the TEXT "
              "(pcf_values_labelled_text: the six thread-state codes under the thread-state type, gindex+1 of every CPU under the "
              "affinity type, every table label of every enabled model under its type; init_values_labelled_text). "
              "Tie: the six files BYTE FOR BYTE (no canonicalisation, same-timestamp order included) on every "
              "accepted mixed/wide/mark trace (task-type traces: .pcf/.row only; -b traces: self-check only). Found and "
              "repaired: cpu.pcf did not declare CPU types 1,2,3. The Lean reader's parse of the model's .pcf text is also compared "
              "with the Python reader's parse of ovniemu's .pcf; traces with MPI ranks (worlds of the C15 generator) go through the "
              "self-check with the expected row order."),
        note=TB + "; metadata labels (mark titles/labels, task-type labels) are assumed newline-free in the text theorems (NamesWf; ovniemu does not check it); thread-name strings and the type names of thread.c/cpu.c are hard-coded in PvText (the byte tie catches any drift); "
             ".prv text of task-event traces and breakdown files are outside the text model",
        technique="Lean 4 invariant proof over the PRV writer + printf-exact text model with reader round trips + record typing lemma + independent parsers on ovniemu output",
        design="DESIGN.md §5 C13"),
    "C14": dict(
        text=("Theorems (Props/C14.lean, 22): compatibility iff same major and minor<=; well-formed a.b.c[-suffix] "
              "parses to (a,b,c); NULL, >=64 chars, missing field, non-numeric field, negative field are refused; "
              "ovni_version_check_str returns iff compatible with the library version; a model is enabled iff some "
              "stream requires it compatibly or -a (the base model 'ovni' is unconditionally on, as the code says), "
              "an incompatible/unparsable/missing requirement aborts, events of non-enabled models are gated. "
              "Tie: real version.h + ovni_version_check_str in an ASan/UBSan harness on the exhaustive {0..3}^6 domain "
              "and thousands of structured malformed strings vs the Lean model, and ovniemu on random require-sets vs "
              "the model's gate verdict; provider versions regenerated from the source."),
        note=TB + "; strtol/strtok_r/isspace semantics (glibc, C locale) are modelled; parson returns strings unchanged",
        technique="Lean 4 theorems over a transcription of version.h/model.c + differential correspondence (C harness, ovniemu)",
        design="DESIGN.md §5 C14"),
    "C15": dict(
        text=("Theorems (Props/C15.lean, 23) over a transcription of trace_load's relpath sort + system_init (create_loom/proc/"
              "thread, load_cpus with its index/phyid conflict detection, load_appid, load_rank, set_sort_criteria, sort_lpt, "
              "loom_sort, proc_sort, global lists and indices, row names): permuting the streams gives the identical result "
              "(build_enum_order_invariant); the same union of metadata, however distributed over the threads of a process / "
              "loom, gives the same hierarchy, order and rows or both fail (build_perm_invariant_fixed, full strength for the "
              "code after the repair f0b14dc; build_perm_invariant_partial/_safe for the code before it, whose crash is kept "
              "as `decide` witnesses crash_witness_*); looms by name or minimum rank, processes by rank or pid, threads by "
              "tid, CPUs by phyid with the virtual CPU last (order_spec, threadRows_spec, cpuRows_spec, hier_content); every "
              "listed contradiction is refused with an error, never accepted, never a crash (conflicts_refused_fixed, "
              "conflicts_never_accepted, create_error_has_conflict). Tie: real ovniemu on metamorphic variants of random "
              "worlds (attributes moved between threads, CPU lists split/shuffled/duplicated, creation order shuffled, "
              "directories renamed), all single contradictions and bounded-exhaustive CPU-list pairs vs the Lean model "
              "(drv_system) and vs rows computed in Python from the world alone; never a signal."),
        note=TB + "; JSON numbers are int-range integers; uthash insertion order and stable HASH_SORT/DL_SORT are modelled; "
             "stream loading, metadata version check and model probing are outside this model",
        technique="Lean 4 refinement of system_init to a function of the metadata union + metamorphic differential runs of ovniemu",
        design="DESIGN.md §5 C15"),
    "C16": dict(
        text=("Theorems (Props/C16.lean, 22) over a transcription of ovnisort.c (ring arithmetic, find_destination, OU[/OU] region "
              "automaton, execute_sort_plan with an abstract qsort, ring_check, -c mode): under the explicit decidable "
              "preconditions (only marked regions unsorted, destination within the look-back window, clocks < 2^63) the run "
              "succeeds, keeps the total size, outputs a permutation of the input events with bytes unchanged and "
              "non-decreasing clocks (winsort_ok), and success holds exactly when the window condition holds (status_ok_iff); "
              "the output is a permutation in every outcome (permutation_always); everything before the first executed plan "
              "is untouched (prefix_untouched, prefix_bytes_untouched); with a stable qsort equal clocks keep their order and "
              "the result equals a stable sort of the whole stream (equal_clock_order_preserved, winsort_eq_stable_sort); a "
              "stream that is already sorted is left byte-identical with exit 0 for every look-back >= 1 and any regions "
              "(sorted_input_noop, idempotent), so the second and every further run after a successful sort is a successful "
              "no-op (second_run_noop, every_rerun_noop); the in-place shortcut of the repaired code never changes what the sort "
              "would have written (in_place_skip_exact); the failure before the repair is kept as a decide witness "
              "(second_run_fails_before_fix); -c passes exactly on sorted non-empty streams and the "
              "emulator's clock test accepts the result (streamCheck_iff, check_passes, emulator_accepts_sorted); no "
              "destination means an error, never success (fails_loudly). Tie: the real ovnisort [-n N], ovnisort -c, a "
              "second and a third ovnisort run (hard requirement: exit 0, bytes unchanged), a run with every pwrite() cut short "
              "(LD_PRELOAD shim), several streams in one trace (each must equal its single-stream result) and ovniemu -l on Python-written streams, byte-compared with the Lean model (drv_ovnisort) "
              "and checked by an independent stable-sort oracle; thorough adds all streams of <= 4 events."),
        note=TB + "; qsort is a parameter (sorted permutation; stability a named hypothesis, satisfied by insertion sort and by "
             "glibc's merge sort); -n 0 out of scope; the private mapping observes the tool's own pwrite",
        technique="Lean 4 refinement of the window sort to a stable sort + byte-exact differential runs of ovnisort",
        design="DESIGN.md §5 C16"),
    "C17": dict(
        text=("Theorems (Props/C17.lean, 37): the runtime refuses ovni_mark_type / ovni_mark_label exactly for a type outside "
              "[0,100), empty title/label, redefinition, value <= 0, undefined type or relabelled value "
              "(markType_refused_iff, markLabel_refused_iff), push/pop/set refuse value 0; the emulator's merge refuses a "
              "definition whose title or channel type disagrees with the table, a different label for a labelled value, and "
              "malformed definitions, keeps agreeing duplicates, and an error is final (title_/ctype_/label_conflict_refused, "
              "label_agree_merges, malformed_refused, parseMarks_error_final); mark_event refuses wrong payload size, "
              "undefined type, zero value, push on single / set on stack, mismatched pop (mark_event_guards, "
              "wrong_op_refused, mismatched_pop_refused via C08); every mark type is a channel with Paraver type 100+type "
              "shown on the thread row while the thread is active and on the CPU row of the unique running thread "
              "(mark_channel_spec, mark_thread_view, mark_cpu_view). The merge over any number of threads and definitions is "
              "accepted iff every definition is well formed and every two agree (merge_ok_iff, merge_refused_iff), the table is "
              "exactly the union with one label per value (merge_content), and verdict and table are invariant under any "
              "permutation of threads or definitions, or moving definitions between threads (merge_perm_invariant, "
              "mergeMarks_perm_threads/_perm_inside/_move_def); metadata reachable through the runtime API is always "
              "accepted on its own and several threads iff they agree pairwise (runtime_meta_parses, "
              "runtime_metas_merge_iff). Tie: (A) real libovni (ASan/UBSan harness) vs the Lean "
              "runtime model on random mark programs: abort/return and the ovni.mark metadata written; (B) independent "
              "Python-written traces with per-thread definitions and single conflicts, mark events interleaved with state "
              "changes: real ovniemu -l vs the Lean reference emulator (verdict, failing event, rows 100..199, PCF titles "
              "and labels) and vs an independent oracle. Defect found and repaired: label values beyond C int were truncated in the PCF module."),
        note=TB + "; JSON decoding of the metadata (parson) is outside the model",
        technique="Lean 4 guard/merge theorems over transcriptions of the mark API and mark.c + differential runs of libovni and ovniemu",
        design="DESIGN.md §5 C17"),
    "C18": dict(
        text=("Theorems (Props/C18.lean, 9) over a transcription of ev_spec_compile / ev_spec_print / model_evspec_init and of the "
              "category switches of the eight event.c files, with the event lists, tables AND the category/value switches REGENERATED "
              "from /repo (clang AST, Generated/Handlers.lean): for every "
              "model and every code (all Nat triples, not only printable) the handler recognises it IFF it is listed or is an "
              "enumerated exception (catalogue_eq, declared_handled, undeclared_rejected, handled_own_model), the exceptions "
              "being exactly ovni OB*/OU* (value byte ignored) and the legacy 6TC (exceptions_enumerated); every signature "
              "compiles with its model character, MCVs are distinct, fields are laid out sequentially (signature_wellformed); "
              "for every listed event and every payload of the declared shape, printing succeeds and equals the description "
              "with the fields substituted (print_total, declared_has_decl). Table-dependent facts reduce to one `decide "
              "+kernel` per model, re-opened by any table/evlist edit. Tie: translator cross-checked with ovnievents; real "
              "ev_spec_compile/print (libemu.a, ASan/UBSan) vs the model on all signatures, mutated signatures, formats, "
              "payloads and boundary buffer sizes; one probe trace per code through ovniemu in a legal context (quick: "
              "~15k codes; thorough: all 95x95x8 printable codes + non-printable + foreign); ovnidump lines for every "
              "listed event with random arguments vs the model and an independent Python substitution."),
        note=TB + "; printf subset [#][hh|h|l|ll|j]{d,i,u,x,X,s} on LP64 glibc; category switches extracted by tools/gen/gen_handlers.py from the clang AST "
             "(constants confirmed by gcc _Static_assert; unrecognised constructs fail the translator self-check); ASCII strings",
        technique="Lean 4 iff over generated tables (decide +kernel per model) + exhaustive probe correspondence (ovniemu, ovnidump, C harness)",
        design="DESIGN.md §5 C18"),
    "C19": dict(
        text=("Theorems (Props/C19.lean, 17) over the same byte-level cursor, for ALL byte strings: for the code after the repair "
              "db50cd1 every successful stream_step advances the offset by at least 12 and stays within the file, so the "
              "loop ends within size/12+1 calls (Fixed.cursor_progress, Fixed.terminates), every read lies inside [0,size) "
              "(Fixed.reads_in_bounds), the verdict and the reads do not depend on memory beyond the file "
              "(Fixed.garbage_independent), print_arg reads are guarded (Fixed.print_reads_guarded); for the code before the "
              "repair the negations are proved with decide witnesses (never_terminates, not_cursor_progress, "
              "reads_out_of_bounds_header/_negative, not_reads_in_bounds, print_null_payload) and the _partial theorems hold "
              "under the explicit decidable guard. Tie: the real stream.c in an ASan/UBSan harness vs the cursor on thousands "
              "of mutated streams (every offset, over-read, overflow, hang predicted and observed); structure-aware mutants "
              "(size fields, flags, truncation, payload shapes, JSON types) through ovniemu, ovnidump, ovnitop, ovnisort built "
              "with ASan+UBSan and the OVNI_VERIF heap-buffer hook, 5 s timeout: exit 0 or 1 only. Seven defects found and "
              "repaired (see KNOWN_FINDINGS.txt)."),
        note=TB + "; PARTIAL BY NATURE: the die()->abort policy and everything behind the front end (handlers, PCF writers) "
             "are covered only by the sanitizer runs, not by theorems; parson is modelled (Props/Json: total, prefix-rejecting) and "
             "run against parson.c under ASan/UBSan on mutated documents in the C12 check",
        technique="Lean 4 termination/bounds theorems over a byte-level cursor + sanitizer-instrumented mutation runs of the four tools",
        design="DESIGN.md §5 C19"),
    "C20": dict(
        text=("Theorems (Props/C20.lean, 48): sort_replace = insertSorted . erase under its preconditions, hence sorted and an exact "
              "multiset update (sort_replace_spec, sort_replace_sorted_multiset); after every history of input changes the sort "
              "rows are non-decreasing and a permutation of the inputs (rows_are_sorted_values, for any qsort that returns a sorted "
              "permutation, any n); an output is written iff its value changes, in increasing index order (minimal_writes, "
              "writes_increasing, no_change_no_write); the breakdown value fed to the sort equals spec(subsystem, task type, idle) "
              "whenever mux0's selection is fresh, with the freshness side condition explicit and the only two stale classes "
              "characterised (breakdown_value, fresh_after_ss, fresh_preserved_iff, stale_select_classes); the order in which a "
              "CPU's task-type/subsystem/idle channels enter the dirty list (orderOk) is DERIVED from the registration order of "
              "the connected bay for thread-state and affinity events (dirty_level_ordered_sys, _thread_events, "
              "_affinity_events) and for the task events VTx/VTe/VTp/VTr and their Nanos6 analogues (dirty_level_ordered_task, "
              "_emu: the C order is ss before tt, idle is not written) and for every table event, idle rows included "
              "(dirty_level_ordered_table, idle_rows: a table event writes the one channel its row names); after a task event the "
              "CPU's breakdown sees a sublist of [ss, tt], exactly [ss, tt] for x/e and [tt] for p/r on the CPU running the thread "
              "(task_event_dirty_positions, task_event_dirty_exact); system_rows: rows = "
              "sorted(per-CPU values). Tie: the real sort.c and the real nosv/nanos6 breakdown.c (connect_cpu, select_tr, "
              "select_idle) in an ASan/UBSan harness, bounded-exhaustive + random, vs the Lean model and a property oracle; "
              "`ovniemu -b -l` on random nOS-V/Nanos6 traces vs an oracle recomputed from cpu.prv and vs the model. Four "
              "known findings (stale mux0 selection), see KNOWN_FINDINGS.txt."),
        note=TB + "; qsort assumed to return a sorted permutation; the CPU-channel dirty order is derived for every event class of the reference "
             "emulator (the breakdown muxes themselves are not part of bayOf); the projection of the global walk onto one CPU is checked at run time, not proved",
        technique="Lean 4 refinement/invariant theorems over sort.c and the breakdown muxes + differential runs (C harness, ovniemu -b)",
        design="DESIGN.md §5 C20"),
}

NOT_YET = "check not built yet in this round (model and correspondence in progress; see DESIGN.md §5)"

ALL = ["C%02d" % i for i in range(1, 21)]


def main():
    man = {
        "version": 1,
        "setup_cmd": "python3 checks/setup.py",
        "hooks": {
            "guard": "OVNI_VERIF",
            "enable": "checks build /repo's working tree with cmake -DCMAKE_C_FLAGS=-DOVNI_VERIF (checks/lib/vcommon.py: repo_build)",
            "baseline_off_cmd": "cmake -G Ninja -S /repo -B /repo/_build >/dev/null && cmake --build /repo/_build >/dev/null && ctest --test-dir /repo/_build -j8 --timeout 900",
            "source_commits": ["4d5b914"],
            "add_only": True,
        },
        "engines": [
            {"name": "lean-model", "path": "lean/", "serves_properties": sorted(CHECKS),
             "kind_free_text": "Lean 4 model + property theorems (lake project OvniModel), line-protocol driver `ovnimodel`"},
            {"name": "translator", "path": "tools/gen/", "serves_properties": sorted(CHECKS),
             "kind_free_text": "C programs that #include /repo's model sources and print Lean tables (regenerated every run)"},
            {"name": "correspondence", "path": "checks/ harness/ tools/ovnitrace.py", "serves_properties": sorted(CHECKS),
             "kind_free_text": "in-process C harnesses over /repo sources (ASan+UBSan), independent Python trace writer + real tools, diffed against the Lean driver"},
        ],
        "checks": [],
        "not_applicable": [],
        "notes": "Every check: rebuilds /repo working tree (hooks on), regenerates lean/OvniModel/Generated, lake build, audit (grep + #print axioms), correspondence; see DESIGN.md §3.",
    }
    for pid in ALL:
        if pid in CHECKS:
            c = CHECKS[pid]
            man["checks"].append({
                "property_id": pid,
                "quick_cmd": f"python3 checks/check.py {pid} --tier quick",
                "thorough_cmd": f"python3 checks/check.py {pid} --tier thorough",
                "evidence_file": f"evidence/{pid}.json",
                "replay_cmd_template": f"python3 checks/check.py {pid} --replay {{path}}",
                "engine": "lean-model",
                "level_claimed": {"category": "proof", "text": c["text"], "design_ref": c["design"]},
                "level_note": c["note"],
                "technique": c["technique"],
            })
        else:
            man["not_applicable"].append({"property_id": pid, "reason": NOT_YET})
    with open(os.path.join(VERIF, "MANIFEST.json"), "w") as f:
        json.dump(man, f, indent=1)
        f.write("\n")


if __name__ == "__main__":
    main()
