"""Independent trace writer and Paraver readers (follow doc/user/runtime/trace_spec.md
and doc/dev/paraver.md; never link libovni).  Part of the correspondence
tooling (trusted base of the tie, not of the theorems)."""
import json
import os
import re
import shutil
import struct
import subprocess
import tempfile

MAGIC = b"ovni"
STREAM_VERSION = 1
META_VERSION = 3


def ev_bytes(clock, mcv, payload=b"", jumbo=None, flags_hi=0):
    """Encode one event. payload: 0 or 2..16 bytes. jumbo: bytes (then payload
    must be empty; the 4-byte size is generated)."""
    if isinstance(mcv, str):
        mcv = mcv.encode("latin1")
    assert len(mcv) == 3
    if jumbo is not None:
        flags = 0x10 | 3 | flags_hi
        return struct.pack("<B3sQ", flags, mcv, clock & (2**64 - 1)) + struct.pack("<I", len(jumbo)) + jumbo
    n = len(payload)
    assert n == 0 or 2 <= n <= 16, n
    flags = (0 if n == 0 else n - 1) | flags_hi
    return struct.pack("<B3sQ", flags, mcv, clock & (2**64 - 1)) + payload


def i32(*v):
    return struct.pack("<%di" % len(v), *v)


def u32(*v):
    return struct.pack("<%dI" % len(v), *v)


def i64(*v):
    return struct.pack("<%dq" % len(v), *v)


def u64(*v):
    return struct.pack("<%dQ" % len(v), *v)


class Stream:
    def __init__(self, loom="node0", pid=1, tid=1, app_id=1, require=None, cpus=None,
                 rank=None, nranks=None, finished=1, lib_version="1.11.0"):
        self.loom, self.pid, self.tid = loom, pid, tid
        ovni = {"lib": {"version": lib_version, "commit": "verif"}, "part": "thread",
                "tid": tid, "pid": pid, "loom": loom, "app_id": app_id,
                "require": dict(require if require is not None else {"ovni": "1.1.0"})}
        if finished is not None:
            ovni["finished"] = finished
        if cpus is not None:
            ovni["loom_cpus"] = [{"index": i, "phyid": p} for (i, p) in cpus]
        if rank is not None:
            ovni["rank"] = rank
            ovni["nranks"] = nranks if nranks is not None else rank + 1
        self.meta = {"version": META_VERSION, "ovni": ovni}
        self.events = []      # list of bytes
        self.raw_obs = None   # override whole stream.obs
        self.raw_json = None  # override stream.json text
        self.relpath = f"loom.{loom}/proc.{pid}/thread.{tid}"

    def ev(self, clock, mcv, payload=b"", jumbo=None):
        self.events.append(ev_bytes(clock, mcv, payload, jumbo))
        return self

    def obs(self):
        if self.raw_obs is not None:
            return self.raw_obs
        return MAGIC + struct.pack("<I", STREAM_VERSION) + b"".join(self.events)

    def json_text(self):
        if self.raw_json is not None:
            return self.raw_json
        return json.dumps(self.meta, indent=1)


def write_trace(tracedir, streams, order=None):
    """Writes the streams; `order` permutes the creation order of thread dirs."""
    if os.path.islink(tracedir):
        os.unlink(tracedir)
    elif os.path.exists(tracedir):
        shutil.rmtree(tracedir)
    os.makedirs(tracedir)
    idx = list(range(len(streams)))
    if order is not None:
        idx = list(order)
    for i in idx:
        s = streams[i]
        d = os.path.join(tracedir, s.relpath)
        os.makedirs(d, exist_ok=True)
        with open(os.path.join(d, "stream.json"), "w") as f:
            f.write(s.json_text())
        with open(os.path.join(d, "stream.obs"), "wb") as f:
            f.write(s.obs())


def run_tool(exe, args, timeout=60, env_extra=None):
    env = dict(os.environ)
    env.setdefault("OVNI_CONFIG_DIR", "/repo/cfg")
    env["ASAN_OPTIONS"] = "detect_leaks=0:abort_on_error=0:exitcode=99"
    env["UBSAN_OPTIONS"] = "halt_on_error=1:exitcode=98:print_stacktrace=1"
    if env_extra:
        env.update(env_extra)
    try:
        r = subprocess.run([exe] + args, stdout=subprocess.PIPE, stderr=subprocess.PIPE,
                           timeout=timeout, env=env)
        return r.returncode, r.stdout.decode("latin1"), r.stderr.decode("latin1")
    except subprocess.TimeoutExpired as e:
        return "timeout", (e.stdout or b"").decode("latin1"), (e.stderr or b"").decode("latin1")


def run_emu(bdir, tracedir, opts=(), timeout=60):
    """Returns (rc, stderr). rc 0 ok / 1 rejected / negative signal / 'timeout'"""
    rc, out, err = run_tool(os.path.join(bdir, "src/emu/ovniemu"), list(opts) + [tracedir], timeout)
    return rc, err


def verdict(rc, err):
    """Canonical verdict from ovniemu's exit: 'ok' | 'reject' | 'crash:<sig>' | 'timeout' | 'sanitizer'"""
    if rc == "timeout":
        return "timeout"
    if rc == 0:
        return "ok" if "emulation finished ok" in err else "ok-nomsg"
    if rc == 1:
        return "reject"
    if rc in (98, 99):
        return "sanitizer"
    if rc < 0:
        if rc == -6 and "AddressSanitizer" not in err and "runtime error" not in err:
            return "abort"      # die()
        return f"crash:{-rc}"
    return f"exit:{rc}"


# --------------------------------------------------------------------------
# Paraver readers
# --------------------------------------------------------------------------

class Prv:
    def __init__(self, path):
        self.path = path
        self.records = []    # (time, row, type, value) in file order
        with open(path) as f:
            lines = f.read().split("\n")
        self.header = lines[0]
        m = re.match(r"#Paraver \(([^)]*)\):(\d+)_ns:(\d+):(\d+):(\d+)\(", self.header)
        if not m:
            m2 = re.match(r"#Paraver \(([^)]*)\):(\d+)_ns:0:1:1\((\d+):1\)", self.header)
            if not m2:
                raise ValueError("bad prv header: " + self.header[:100])
            self.duration = int(m2.group(2))
            self.nrows = int(m2.group(3))
        else:
            self.duration = int(m.group(2))
            self.nrows = None
            mm = re.search(r"\((\d+):1\)", self.header)
            if mm:
                self.nrows = int(mm.group(1))
        self.bad_lines = []
        for ln in lines[1:]:
            if not ln:
                continue
            p = ln.split(":")
            # 2:0:1:1:row:time:type:value
            if len(p) != 8 or p[0] != "2":
                self.bad_lines.append(ln)
                continue
            try:
                self.records.append((int(p[5]), int(p[4]), int(p[6]), int(p[7])))
            except ValueError:
                self.bad_lines.append(ln)

    def timeline(self):
        """Step functions: {(row,type): [(time,value)...]} last write at a time
        wins, consecutive equal values collapsed, leading zeros dropped."""
        tl = {}
        for (t, row, ty, v) in self.records:
            k = (row, ty)
            l = tl.setdefault(k, [])
            if l and l[-1][0] == t:
                l[-1] = (t, v)
            else:
                l.append((t, v))
        out = {}
        for k, l in tl.items():
            c = []
            cur = 0
            for (t, v) in l:
                if v != cur:
                    c.append((t, v))
                    cur = v
            if c:
                out[k] = c
        return out


def read_rows(path):
    """Returns list of row names (LEVEL THREAD section) and the declared count."""
    names, n = [], None
    with open(path) as f:
        sect = None
        for line in f.read().split("\n"):
            m = re.match(r"LEVEL (\w+) SIZE (\d+)", line)
            if m:
                sect = m.group(1)
                if sect == "THREAD":
                    n = int(m.group(2))
                continue
            if sect == "THREAD" and line.strip():
                names.append(line)
    return names, n


def read_pcf(path):
    """Returns {type: (label, {value: label})}"""
    types = {}
    with open(path) as f:
        lines = f.read().split("\n")
    i = 0
    while i < len(lines):
        if lines[i].startswith("EVENT_TYPE"):
            i += 1
            cur = []
            while i < len(lines) and lines[i].strip() and not lines[i].startswith("VALUES"):
                m = re.match(r"\s*(\d+)\s+(\d+)\s+(.*)", lines[i])
                if m:
                    t = int(m.group(2))
                    types[t] = (m.group(3), {})
                    cur.append(t)
                i += 1
            if i < len(lines) and lines[i].startswith("VALUES"):
                i += 1
                while i < len(lines) and lines[i].strip():
                    m = re.match(r"\s*(-?\d+)\s+(.*)", lines[i])
                    if m:
                        for t in cur:
                            types[t][1][int(m.group(1))] = m.group(2)
                    i += 1
        else:
            i += 1
    return types


class Scratch:
    """Scratch directory outside /repo and /verif's tracked files, removed on
    exit."""
    def __init__(self, tag):
        base = os.environ.get("VERIF_SCRATCH")
        if base is None:
            base = tempfile.gettempdir()
            try:
                # memory-backed scratch only while it has plenty of room (space and inodes)
                st = os.statvfs("/dev/shm")
                if st.f_bavail * st.f_frsize > 4 * 2**30 and st.f_favail > 2 * 10**6:
                    base = "/dev/shm"
            except OSError:
                pass
        self.dir = tempfile.mkdtemp(prefix=f"verif-{tag}-", dir=base)

    def __enter__(self):
        return self.dir

    def __exit__(self, *a):
        shutil.rmtree(self.dir, ignore_errors=True)
