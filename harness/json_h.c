/* Correspondence harness for the parson model (lean/OvniModel/Json.lean):
 * the real /repo/src/parson.c (compiled into this executable with
 * ASan+UBSan) driven through the line protocol.
 *
 * Canonical dump of a value (one token): n | t | f | #<int> | #<int>/<k>
 * (the double as an exact dyadic n / 2^k) | s<hex> (s- = empty) |
 * [v,v,...] | {<hexkey>:v,...} (members in stored order; empty key = -).
 *
 *   parse <hex>                      -> parse <dump> | parse fail
 *   parsef <hex>                     -> same through json_parse_file_with_comments
 *   get <hexdoc> <kind>:<hexpath>... -> get <r>... | get fail | get noobj
 *   ser <dump>                       -> ser <hex> | ser badutf8 | ser bad
 *   set <dump> <hexpath>=<dump>...   -> set <status chars> <dump>
 *   utf8 <hex>                       -> utf8 0|1
 */
#include <math.h>
#include <stdio.h>
#include <stdlib.h>
#include <string.h>
#include <unistd.h>
#include "parson.h"
#include "hx.h"

static void put_hex(const char *b, size_t n)
{
	hx_print((const uint8_t *) b, n);
}

static void dump_number(double x)
{
	if (x == floor(x)) {
		if (fabs(x) < 9.2e18)
			printf("#%lld", (long long) x);
		else
			printf("#%.0f", x);
		return;
	}
	int k = 0;
	double y = x;
	while (y != floor(y) && k < 1200) {
		k++;
		y = ldexp(x, k);
	}
	printf("#%.0f/%d", y, k);
}

static void dump(const JSON_Value *v)
{
	switch (json_value_get_type(v)) {
	case JSONNull: printf("n"); break;
	case JSONBoolean: printf(json_value_get_boolean(v) ? "t" : "f"); break;
	case JSONNumber: dump_number(json_value_get_number(v)); break;
	case JSONString:
		printf("s");
		put_hex(json_value_get_string(v), json_value_get_string_len(v));
		break;
	case JSONArray: {
		JSON_Array *a = json_value_get_array(v);
		printf("[");
		for (size_t i = 0; i < json_array_get_count(a); i++) {
			if (i) printf(",");
			dump(json_array_get_value(a, i));
		}
		printf("]");
		break;
	}
	case JSONObject: {
		JSON_Object *o = json_value_get_object(v);
		printf("{");
		for (size_t i = 0; i < json_object_get_count(o); i++) {
			const char *k = json_object_get_name(o, i);
			if (i) printf(",");
			put_hex(k, strlen(k));
			printf(":");
			dump(json_object_get_value_at(o, i));
		}
		printf("}");
		break;
	}
	default: printf("?"); break;
	}
}

/* ---- build a value from its dump ---- */
static int badutf8;

static long hex_run(const char **p, uint8_t **out)
{
	const char *s = *p;
	if (*s == '-') {
		*p = s + 1;
		*out = calloc(1, 1);
		return 0;
	}
	size_t n = 0;
	while (hx_val(s[n]) >= 0) n++;
	if (n % 2) return -1;
	uint8_t *b = malloc(n / 2 + 1);
	for (size_t i = 0; i < n / 2; i++)
		b[i] = (uint8_t) (hx_val(s[2 * i]) * 16 + hx_val(s[2 * i + 1]));
	b[n / 2] = 0;
	*out = b;
	*p = s + n;
	return (long) (n / 2);
}

static JSON_Value *build(const char **p)
{
	char c = **p;
	if (c == 'n') { (*p)++; return json_value_init_null(); }
	if (c == 't') { (*p)++; return json_value_init_boolean(1); }
	if (c == 'f') { (*p)++; return json_value_init_boolean(0); }
	if (c == '#') {
		char *end;
		(*p)++;
		double num = (double) strtoll(*p, &end, 10);
		*p = end;
		if (**p == '/') {
			(*p)++;
			long k = strtol(*p, &end, 10);
			*p = end;
			num = ldexp(num, (int) -k);
		}
		return json_value_init_number(num);
	}
	if (c == 's') {
		uint8_t *b;
		(*p)++;
		long n = hex_run(p, &b);
		if (n < 0) return NULL;
		JSON_Value *v = json_value_init_string_with_len((char *) b, (size_t) n);
		free(b);
		if (v == NULL) badutf8 = 1;
		return v;
	}
	if (c == '[') {
		JSON_Value *v = json_value_init_array();
		(*p)++;
		if (**p == ']') { (*p)++; return v; }
		for (;;) {
			JSON_Value *e = build(p);
			if (e == NULL || json_array_append_value(json_value_get_array(v), e) != JSONSuccess) {
				if (e) json_value_free(e);
				json_value_free(v);
				return NULL;
			}
			if (**p == ',') { (*p)++; continue; }
			if (**p == ']') { (*p)++; return v; }
			json_value_free(v);
			return NULL;
		}
	}
	if (c == '{') {
		JSON_Value *v = json_value_init_object();
		(*p)++;
		if (**p == '}') { (*p)++; return v; }
		for (;;) {
			uint8_t *k;
			long n = hex_run(p, &k);
			if (n < 0 || **p != ':') { json_value_free(v); return NULL; }
			(*p)++;
			JSON_Value *e = build(p);
			if (e == NULL || json_object_set_value(json_value_get_object(v), (char *) k, e) != JSONSuccess) {
				if (e) json_value_free(e);
				free(k);
				json_value_free(v);
				return NULL;
			}
			free(k);
			if (**p == ',') { (*p)++; continue; }
			if (**p == '}') { (*p)++; return v; }
			json_value_free(v);
			return NULL;
		}
	}
	return NULL;
}

static JSON_Value *build_tok(const char *tok)
{
	const char *p = tok;
	badutf8 = 0;
	JSON_Value *v = build(&p);
	if (v != NULL && *p != '\0') {
		json_value_free(v);
		return NULL;
	}
	return v;
}

static JSON_Value *parse_file(const uint8_t *b, long len)
{
	char path[4096];
	const char *d = getenv("HX_DIR");
	snprintf(path, sizeof(path), "%s/json_h.%d.json", d ? d : "/tmp", (int) getpid());
	FILE *f = fopen(path, "w");
	if (!f) return NULL;
	if (len > 0) fwrite(b, 1, (size_t) len, f);
	fclose(f);
	JSON_Value *v = json_parse_file_with_comments(path);
	unlink(path);
	return v;
}

static void do_get(JSON_Object *o, const char *kind, const char *path)
{
	if (strcmp(kind, "num") == 0) {
		dump_number(json_object_dotget_number(o, path));
	} else if (strcmp(kind, "int") == 0) {
		double d = json_object_dotget_number(o, path);
		if (d > -2147483649.0 && d < 2147483648.0) printf("%d", (int) d);
		else printf("ovf");
	} else if (strcmp(kind, "str") == 0) {
		const char *s = json_object_dotget_string(o, path);
		if (s) { printf("s"); put_hex(s, strlen(s)); } else printf("N");
	} else if (strcmp(kind, "len") == 0) {
		printf("%zu", json_object_dotget_string_len(o, path));
	} else if (strcmp(kind, "obj") == 0) {
		JSON_Object *x = json_object_dotget_object(o, path);
		if (x) printf("%zu", json_object_get_count(x)); else printf("N");
	} else if (strcmp(kind, "arr") == 0) {
		JSON_Array *x = json_object_dotget_array(o, path);
		if (x) printf("%zu", json_array_get_count(x)); else printf("N");
	} else if (strcmp(kind, "bool") == 0) {
		printf("%d", json_object_dotget_boolean(o, path));
	} else if (strcmp(kind, "val") == 0) {
		JSON_Value *x = json_object_dotget_value(o, path);
		if (x) dump(x); else printf("N");
	} else if (strcmp(kind, "has") == 0) {
		printf("%d", json_object_dothas_value(o, path));
	} else if (strcmp(kind, "gval") == 0) {
		JSON_Value *x = json_object_get_value(o, path);
		if (x) dump(x); else printf("N");
	} else {
		printf("?");
	}
}

int main(void)
{
	char *line = NULL;
	size_t cap = 0;
	static char *t[4096];
	while (getline(&line, &cap, stdin) > 0) {
		int n = hx_split(line, t, 4096);
		if (n == 0) { printf("\n"); continue; }
		if (n == 2 && (strcmp(t[0], "parse") == 0 || strcmp(t[0], "parsef") == 0)) {
			uint8_t *b;
			long len = hx_decode(t[1], &b);
			if (len < 0) { printf("bad-op\n"); continue; }
			JSON_Value *v = t[0][5] == 'f' ? parse_file(b, len) : json_parse_string_with_comments((char *) b);
			printf("parse ");
			if (v) dump(v); else printf("fail");
			printf("\n");
			if (v) json_value_free(v);
			free(b);
		} else if (n >= 2 && strcmp(t[0], "get") == 0) {
			uint8_t *b;
			long len = hx_decode(t[1], &b);
			if (len < 0) { printf("bad-op\n"); continue; }
			JSON_Value *v = json_parse_string_with_comments((char *) b);
			free(b);
			if (v == NULL) { printf("get fail\n"); continue; }
			JSON_Object *o = json_value_get_object(v);
			if (o == NULL) { printf("get noobj\n"); json_value_free(v); continue; }
			printf("get");
			for (int i = 2; i < n; i++) {
				char *colon = strchr(t[i], ':');
				uint8_t *path;
				if (!colon) { printf(" ?"); continue; }
				*colon = '\0';
				if (hx_decode(colon + 1, &path) < 0) { printf(" ?"); continue; }
				printf(" ");
				do_get(o, t[i], (char *) path);
				free(path);
			}
			printf("\n");
			json_value_free(v);
		} else if (n == 2 && strcmp(t[0], "ser") == 0) {
			JSON_Value *v = build_tok(t[1]);
			if (v == NULL) { printf(badutf8 ? "ser badutf8\n" : "ser bad\n"); continue; }
			char *s = json_serialize_to_string_pretty(v);
			if (s == NULL) { printf("ser fail\n"); json_value_free(v); continue; }
			printf("ser ");
			put_hex(s, strlen(s));
			printf("\n");
			json_free_serialized_string(s);
			json_value_free(v);
		} else if (n >= 2 && strcmp(t[0], "set") == 0) {
			JSON_Value *v = build_tok(t[1]);
			JSON_Object *o = json_value_get_object(v);
			if (o == NULL) { printf("set bad\n"); if (v) json_value_free(v); continue; }
			printf("set ");
			for (int i = 2; i < n; i++) {
				char *eq = strchr(t[i], '=');
				uint8_t *path;
				if (!eq) { printf("?"); continue; }
				*eq = '\0';
				if (hx_decode(t[i], &path) < 0) { printf("?"); continue; }
				JSON_Value *x = build_tok(eq + 1);
				if (x == NULL) { printf("u"); free(path); continue; }
				if (json_object_dotset_value(o, (char *) path, x) == JSONSuccess) {
					printf("1");
				} else {
					printf("0");
					json_value_free(x);
				}
				free(path);
			}
			if (n == 2) printf("-");
			printf(" ");
			dump(v);
			printf("\n");
			json_value_free(v);
		} else if (n == 2 && strcmp(t[0], "utf8") == 0) {
			uint8_t *b;
			long len = hx_decode(t[1], &b);
			if (len < 0) { printf("bad-op\n"); continue; }
			JSON_Value *v = json_value_init_string_with_len((char *) b, (size_t) len);
			printf("utf8 %d\n", v != NULL);
			if (v) json_value_free(v);
			free(b);
		} else {
			printf("bad-op\n");
		}
		fflush(stdout);
	}
	return 0;
}
