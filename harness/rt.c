/* Correspondence harness for the runtime (C01 C02 C09 C10 C17): the REAL
 * src/rt/ovni.c, common.c and parson.c are compiled into this executable; the
 * clock and the libc I/O entry points are interposed (defined here, real ones
 * reached through dlsym(RTLD_NEXT)).
 *
 * stdin: one script per line, ops separated by ';'
 *   init | ev <mcvhex> <clock|now> <chunkhex>* | jumbo <mcvhex> <clock|now> <len> <fill> <prefixhex|-> <chunkhex>*
 *   flush | mark <kind> <type> <value> | tick <n> | free | fini
 *   cpu <idx> <phy> | require <model> <ver> | rank <r> <n>
 *   attr <key> <json> | attrflush | marktype <t> <flags> <title> | marklabel <t> <v> <label>
 * argv[1] = base directory; script number k runs in <base>/s<k> (OVNI_TRACEDIR)
 * env RT_TMPDIR=1: additionally use <base>/s<k>.tmp as OVNI_TMPDIR
 * env RT_FAULT="<kind>:<n>:<what>": fail the n-th intercepted call of a kind
 *     (kind "any" counts all calls); what = ENOSPC | EIO | EACCES | EINTR | short.
 *     A failed fclose discards the stdio buffer (the flush failed); a failed
 *     close truncates the file to its size before the last write on that
 *     descriptor (a deferred write error reported at close).
 * env RT_SHORTSCHED=<seed>: EVERY write on a descriptor of the script transfers a
 *     pseudo-random part of what was asked (1..n bytes, biased to both ends); each
 *     call is logged as "<asked>><transferred>," after " wlog=" (asked>- = error)
 * env RT_KILL=<n>: _exit(77) before the n-th intercepted I/O call
 * env RT_READDIR=<spec>: readdir order inside the script, one character per
 *     entry: '.' = ".", ':' = "..", 'o' = stream.obs, 'j' = stream.json
 *     (entries not named follow in native order)
 * stdout per script: "returned" | "die@<op index>" | "killed@<op index>"
 *        followed by " calls=<n>" and, with RT_LOG=1, the I/O call log.
 */
#define _GNU_SOURCE
#include <dirent.h>
#include <dlfcn.h>
#include <errno.h>
#include <fcntl.h>
#include <signal.h>
#include <stdarg.h>
#include <stdio.h>
#include <stdio_ext.h>
#include <stdlib.h>
#include <string.h>
#include <sys/mman.h>
#include <sys/stat.h>
#include <sys/wait.h>
#include <time.h>
#include <unistd.h>

#include "ovni.h"
#include "hx.h"

/* ---------------- shared progress area (survives abort of the child) ------ */
struct shared {
	volatile long op;        /* op index being executed */
	volatile long ncalls;    /* intercepted I/O calls so far */
	volatile long nfault;    /* faults fired */
	volatile long loglen;
	char log[1 << 16];
	volatile long wloglen;
	char wlog[1 << 18];
};
static struct shared *sh;

/* ---------------- clock ---------------- */
static uint64_t clk_now = 1000, clk_tick = 1;

int clock_gettime(clockid_t id, struct timespec *tp)
{
	(void) id;
	tp->tv_sec = (time_t) (clk_now / 1000000000ULL);
	tp->tv_nsec = (long) (clk_now % 1000000000ULL);
	clk_now += clk_tick;
	return 0;
}

/* ---------------- I/O interposition ---------------- */
static int in_script = 0;
static long kill_at = -1;
static char fault_kind[32];
static long fault_n = -1;
static char fault_what[32];
static long kind_count[32];
static const char *readdir_spec = NULL;
static int log_on = 0;
static char base_dir[4096];

enum { K_MKDIR, K_OPEN, K_WRITE, K_CLOSE, K_FOPEN, K_FWRITE, K_FCLOSE, K_REMOVE, K_RMDIR,
       K_OPENDIR, K_FREAD, K_STAT, K_FPUTS, K_READDIR, K_CLOSEDIR, K_MAX };
static const char *kind_name[K_MAX] = { "mkdir", "open", "write", "close", "fopen", "fwrite",
	"fclose", "remove", "rmdir", "opendir", "fread", "stat", "fputs", "readdir", "closedir" };

static void logf_(const char *fmt, ...)
{
	if (!log_on || !sh) return;
	va_list ap;
	va_start(ap, fmt);
	long room = (long) sizeof(sh->log) - sh->loglen - 1;
	if (room > 0) {
		int n = vsnprintf(sh->log + sh->loglen, (size_t) room, fmt, ap);
		if (n > 0) sh->loglen += (n < room ? n : room);
	}
	va_end(ap);
}

static const char *relp(const char *p)
{
	size_t n = strlen(base_dir);
	if (n && strncmp(p, base_dir, n) == 0) return p + n;
	return p;
}

/* returns 0 = proceed, else errno to fail with; -2 = short (write only) */
static int gate(int kind)
{
	if (!in_script || !sh) return 0;
	sh->ncalls++;
	if (kill_at >= 0 && sh->ncalls == kill_at)
		_exit(77);
	kind_count[kind]++;
	int hit = fault_n >= 0 && ((strcmp(fault_kind, kind_name[kind]) == 0 && kind_count[kind] == fault_n)
			|| (strcmp(fault_kind, "any") == 0 && sh->ncalls == fault_n));
	if (hit) {
		sh->nfault++;
		if (strcmp(fault_what, "short") == 0) return -2;
		if (strcmp(fault_what, "ENOSPC") == 0) return ENOSPC;
		if (strcmp(fault_what, "EACCES") == 0) return EACCES;
		if (strcmp(fault_what, "EINTR") == 0) return EINTR;
		return EIO;
	}
	return 0;
}

#define REAL(name) static __typeof__(&name) real_##name; if (!real_##name) real_##name = dlsym(RTLD_NEXT, #name)

int mkdir(const char *path, mode_t mode)
{
	REAL(mkdir);
	int g = gate(K_MKDIR);
	logf_("mkdir %s|", relp(path));
	if (g > 0) { errno = g; return -1; }
	return real_mkdir(path, mode);
}

int open(const char *path, int flags, ...)
{
	REAL(open);
	mode_t mode = 0;
	if (flags & O_CREAT) { va_list ap; va_start(ap, flags); mode = (mode_t) va_arg(ap, int); va_end(ap); }
	int inside = in_script && strncmp(path, base_dir, strlen(base_dir)) == 0;
	if (!inside) return real_open(path, flags, mode);
	int g = gate(K_OPEN);
	logf_("open %s|", relp(path));
	if (g > 0) { errno = g; return -1; }
	return real_open(path, flags, mode);
}

static int sched_on = 0;
static uint64_t sched_state = 0;

static void wlogf(size_t n, long k)
{
	if (!sh) return;
	long room = (long) sizeof(sh->wlog) - sh->wloglen - 1;
	if (room < 48) return;
	int w = k < 0 ? snprintf(sh->wlog + sh->wloglen, (size_t) room, "%zu>-,", n)
		      : snprintf(sh->wlog + sh->wloglen, (size_t) room, "%zu>%ld,", n, k);
	if (w > 0) sh->wloglen += w;
}

/* how much of an n-byte request the "kernel" transfers */
static size_t sched_cut(size_t n)
{
	if (n <= 1) return n;
	sched_state = sched_state * 6364136223846793005ULL + 1442695040888963407ULL;
	uint64_t r = sched_state >> 33;
	switch (r & 7) {
	case 0: return 1;                                  /* a single byte */
	case 1: return n - 1;                              /* all but one */
	case 2: return n;                                  /* complete */
	case 3: return 1 + (r >> 3) % (n < 16 ? n : 16);   /* a few bytes */
	default: return 1 + (r >> 3) % n;                  /* anything */
	}
}

static int last_write_fd = -1;
static off_t last_write_off = 0;

ssize_t write(int fd, const void *buf, size_t n)
{
	REAL(write);
	if (!in_script || fd <= 2) return real_write(fd, buf, n);
	int g = gate(K_WRITE);
	logf_("write %zu|", n);
	if (g > 0) { if (sched_on) wlogf(n, -1); errno = g; return -1; }
	last_write_fd = fd;
	last_write_off = lseek(fd, 0, SEEK_CUR);
	if (sched_on) {
		/* bound the number of calls per buffer: after 64 short answers in a row, complete */
		static int in_row = 0;
		size_t k = sched_cut(n);
		if (k < n && ++in_row > 64) k = n;
		if (k == n) in_row = 0;
		ssize_t w = real_write(fd, buf, k);
		wlogf(n, (long) w);
		return w;
	}
	if (g == -2 && n > 1) return real_write(fd, buf, n / 2);
	return real_write(fd, buf, n);
}

int close(int fd)
{
	REAL(close);
	if (!in_script || fd <= 2) return real_close(fd);
	int g = gate(K_CLOSE);
	logf_("close|");
	if (g > 0) {
		/* deferred write error: the last write did not reach the file */
		if (fd == last_write_fd && ftruncate(fd, last_write_off) != 0) { }
		real_close(fd); errno = g; return -1;
	}
	return real_close(fd);
}

FILE *fopen(const char *path, const char *mode)
{
	REAL(fopen);
	int inside = in_script && strncmp(path, base_dir, strlen(base_dir)) == 0;
	if (!inside) return real_fopen(path, mode);
	int g = gate(K_FOPEN);
	logf_("fopen %s %s|", relp(path), mode);
	if (g > 0) { errno = g; return NULL; }
	return real_fopen(path, mode);
}

size_t fwrite(const void *p, size_t sz, size_t n, FILE *f)
{
	REAL(fwrite);
	if (!in_script || f == stdout || f == stderr) return real_fwrite(p, sz, n, f);
	int g = gate(K_FWRITE);
	logf_("fwrite %zu|", sz * n);
	if (g > 0) { errno = g; return 0; }
	if (g == -2 && n > 1) return real_fwrite(p, sz, n / 2, f);
	return real_fwrite(p, sz, n, f);
}

int fclose(FILE *f)
{
	REAL(fclose);
	if (!in_script || f == stdout || f == stderr) return real_fclose(f);
	int g = gate(K_FCLOSE);
	logf_("fclose|");
	if (g > 0) { __fpurge(f); real_fclose(f); errno = g; return EOF; }
	return real_fclose(f);
}

int fputs(const char *str, FILE *f)
{
	REAL(fputs);
	REAL(fwrite);
	if (!in_script || f == stdout || f == stderr) return real_fputs(str, f);
	int g = gate(K_FPUTS);
	size_t n = strlen(str);
	logf_("fputs %zu|", n);
	if (g > 0) { errno = g; return EOF; }
	if (g == -2) { real_fwrite(str, 1, n / 2, f); errno = ENOSPC; return EOF; }
	return real_fputs(str, f);
}

size_t fread(void *p, size_t sz, size_t n, FILE *f)
{
	REAL(fread);
	if (!in_script || f == stdin) return real_fread(p, sz, n, f);
	int g = gate(K_FREAD);
	if (g > 0) { logf_("fread 0|"); f->_flags |= 0x20 /* _IO_ERR_SEEN: ferror(f) */; errno = g; return 0; }
	size_t r = real_fread(p, sz, n, f);
	logf_("fread %zu|", r * sz);
	return r;
}

int stat(const char *path, struct stat *st)
{
	REAL(stat);
	if (!in_script) return real_stat(path, st);
	int g = gate(K_STAT);
	logf_("stat %s|", relp(path));
	if (g > 0) { errno = g; return -1; }
	return real_stat(path, st);
}

int remove(const char *path)
{
	REAL(remove);
	if (!in_script) return real_remove(path);
	int g = gate(K_REMOVE);
	logf_("remove %s|", relp(path));
	if (g > 0) { errno = g; return -1; }
	return real_remove(path);
}

int rmdir(const char *path)
{
	REAL(rmdir);
	if (!in_script) return real_rmdir(path);
	int g = gate(K_RMDIR);
	logf_("rmdir %s|", relp(path));
	if (g > 0) { errno = g; return -1; }
	return real_rmdir(path);
}

DIR *opendir(const char *path)
{
	REAL(opendir);
	if (!in_script) return real_opendir(path);
	int g = gate(K_OPENDIR);
	logf_("opendir %s|", relp(path));
	if (g > 0) { errno = g; return NULL; }
	return real_opendir(path);
}

/* readdir with a controlled order: all entries are read on the first call */
static DIR *rd_dir = NULL;
static struct dirent rd_ent[64];
static int rd_n = 0, rd_pos = 0;

static const char *spec_name(char c)
{
	switch (c) {
	case '.': return ".";
	case ':': return "..";
	case 'o': return "stream.obs";
	case 'j': return "stream.json";
	}
	return "";
}

struct dirent *readdir(DIR *d)
{
	REAL(readdir);
	if (!in_script) return real_readdir(d);
	int g = gate(K_READDIR);
	if (g > 0) { logf_("readdir -|"); errno = g; return NULL; }
	struct dirent *e;
	if (readdir_spec == NULL) {
		e = real_readdir(d);
	} else {
		if (rd_dir != d) {
			struct dirent tmp[64];
			int n = 0, used[64] = { 0 };
			while (n < 64 && (e = real_readdir(d)) != NULL) tmp[n++] = *e;
			rd_n = 0;
			for (const char *c = readdir_spec; *c; c++)
				for (int i = 0; i < n; i++)
					if (!used[i] && strcmp(tmp[i].d_name, spec_name(*c)) == 0) { used[i] = 1; rd_ent[rd_n++] = tmp[i]; }
			for (int i = 0; i < n; i++)
				if (!used[i]) rd_ent[rd_n++] = tmp[i];
			rd_dir = d;
			rd_pos = 0;
		}
		e = rd_pos < rd_n ? &rd_ent[rd_pos++] : NULL;
	}
	logf_("readdir %s|", e ? e->d_name : "-");
	return e;
}

int closedir(DIR *d)
{
	REAL(closedir);
	if (!in_script) return real_closedir(d);
	int g = gate(K_CLOSEDIR);
	logf_("closedir|");
	if (d == rd_dir) rd_dir = NULL;
	if (g > 0) { real_closedir(d); errno = g; return -1; }
	return real_closedir(d);
}

/* ---------------- script execution ---------------- */

static void set_mcv(struct ovni_ev *ev, const char *hex)
{
	uint8_t *b = NULL;
	long n = hx_decode(hex, &b);
	char mcv[4] = { 0, 0, 0, 0 };
	for (long i = 0; i < 3 && i < n; i++) mcv[i] = (char) b[i];
	ovni_ev_set_mcv(ev, mcv);
	free(b);
}

static uint64_t parse_clock(const char *t)
{
	if (strcmp(t, "now") == 0) return ovni_clock_now();
	return strtoull(t, NULL, 10);
}

static void add_chunks(struct ovni_ev *ev, char **t, int from, int n)
{
	for (int i = from; i < n; i++) {
		uint8_t *b = NULL;
		long len = hx_decode(t[i], &b);
		ovni_payload_add(ev, b, (int) len);
		free(b);
	}
}

static void run_op(char *op, int tid)
{
	char *t[64];
	int n = hx_split(op, t, 64);
	if (n == 0) return;
	if (!strcmp(t[0], "init")) {
		ovni_thread_init(tid);
	} else if (!strcmp(t[0], "ev") && n >= 3) {
		struct ovni_ev ev = { 0 };
		ovni_ev_set_clock(&ev, parse_clock(t[2]));
		set_mcv(&ev, t[1]);
		add_chunks(&ev, t, 3, n);
		ovni_ev_emit(&ev);
	} else if (!strcmp(t[0], "jumbo") && n >= 6) {
		struct ovni_ev ev = { 0 };
		ovni_ev_set_clock(&ev, parse_clock(t[2]));
		set_mcv(&ev, t[1]);
		uint32_t len = (uint32_t) strtoul(t[3], NULL, 10);
		unsigned fill = (unsigned) strtoul(t[4], NULL, 10);
		uint8_t *data = malloc(len ? len : 1);
		for (uint32_t i = 0; i < len; i++) data[i] = (uint8_t) (fill + i);
		uint8_t *pre = NULL;
		long plen = hx_decode(t[5], &pre);
		for (long i = 0; i < plen && (uint32_t) i < len; i++) data[i] = pre[i];
		free(pre);
		add_chunks(&ev, t, 6, n);
		ovni_ev_jumbo_emit(&ev, data, len);
		free(data);
	} else if (!strcmp(t[0], "flush")) {
		ovni_flush();
	} else if (!strcmp(t[0], "mark") && n == 4) {
		int kind = atoi(t[1]);
		int32_t type = (int32_t) strtol(t[2], NULL, 10);
		int64_t value = strtoll(t[3], NULL, 10);
		if (kind == 91) ovni_mark_push(type, value);
		else if (kind == 93) ovni_mark_pop(type, value);
		else ovni_mark_set(type, value);
	} else if (!strcmp(t[0], "tick") && n == 2) {
		clk_tick = strtoull(t[1], NULL, 10);
	} else if (!strcmp(t[0], "free")) {
		ovni_thread_free();
	} else if (!strcmp(t[0], "fini")) {
		ovni_proc_fini();
	} else if (!strcmp(t[0], "cpu") && n == 3) {
		ovni_add_cpu(atoi(t[1]), atoi(t[2]));
	} else if (!strcmp(t[0], "require") && n == 3) {
		ovni_thread_require(t[1], t[2]);
	} else if (!strcmp(t[0], "rank") && n == 3) {
		ovni_proc_set_rank(atoi(t[1]), atoi(t[2]));
	} else if (!strcmp(t[0], "attrflush")) {
		ovni_attr_flush();
	} else if (!strcmp(t[0], "attr") && n == 3) {
		uint8_t *b = NULL; hx_decode(t[2], &b);
		ovni_attr_set_json(t[1], (char *) b);
		free(b);
	} else if (!strcmp(t[0], "marktype") && n == 4) {
		uint8_t *b = NULL; hx_decode(t[3], &b);
		ovni_mark_type((int32_t) atoi(t[1]), atol(t[2]), (char *) b);
		free(b);
	} else if (!strcmp(t[0], "marklabel") && n == 4) {
		uint8_t *b = NULL; hx_decode(t[3], &b);
		ovni_mark_label((int32_t) atoi(t[1]), strtoll(t[2], NULL, 10), (char *) b);
		free(b);
	} else {
		fprintf(stderr, "harness: bad op '%s'\n", t[0]);
		_exit(3);
	}
}

int main(int argc, char **argv)
{
	if (argc < 2) return 2;
	snprintf(base_dir, sizeof(base_dir), "%s", argv[1]);
	sh = mmap(NULL, sizeof(*sh), PROT_READ | PROT_WRITE, MAP_SHARED | MAP_ANONYMOUS, -1, 0);
	const char *e;
	if ((e = getenv("RT_KILL"))) kill_at = atol(e);
	if ((e = getenv("RT_LOG"))) log_on = atoi(e);
	if ((e = getenv("RT_SHORTSCHED"))) { sched_on = 1; sched_state = strtoull(e, NULL, 10) * 2654435761ULL + 1; }
	if ((e = getenv("RT_READDIR")) && strcmp(e, "native") != 0) readdir_spec = e;
	if ((e = getenv("RT_FAULT"))) {
		char tmp[128];
		snprintf(tmp, sizeof(tmp), "%s", e);
		char *a = strtok(tmp, ":"), *b = strtok(NULL, ":"), *c = strtok(NULL, ":");
		if (a && b && c) {
			snprintf(fault_kind, sizeof(fault_kind), "%s", a);
			fault_n = atol(b);
			snprintf(fault_what, sizeof(fault_what), "%s", c);
		}
	}
	int use_tmp = getenv("RT_TMPDIR") != NULL;
	int quiet = getenv("HX_VERBOSE") == NULL;

	char *line = NULL;
	size_t cap = 0;
	long k = 0;
	while (getline(&line, &cap, stdin) > 0) {
		memset((void *) sh, 0, sizeof(*sh));
		fflush(stdout);
		pid_t p = fork();
		if (p == 0) {
			if (quiet) { int fd = open("/dev/null", O_WRONLY); dup2(fd, 2); }
			char dir[4200], tmp[4300];
			snprintf(dir, sizeof(dir), "%s/s%ld", base_dir, k);
			setenv("OVNI_TRACEDIR", dir, 1);
			if (use_tmp) {
				snprintf(tmp, sizeof(tmp), "%s/s%ld.tmp", base_dir, k);
				setenv("OVNI_TMPDIR", tmp, 1);
			} else {
				unsetenv("OVNI_TMPDIR");
			}
			in_script = 1;
			sh->op = -1;
			ovni_proc_init(1, "node", 1);
			char *save = NULL;
			long i = 0;
			for (char *op = strtok_r(line, ";\n", &save); op; op = strtok_r(NULL, ";\n", &save), i++) {
				sh->op = i;
				run_op(op, 7);
			}
			sh->op = i;
			in_script = 0;
			_exit(0);
		}
		int st = 0;
		waitpid(p, &st, 0);
		if (WIFEXITED(st) && WEXITSTATUS(st) == 0)
			printf("returned");
		else if (WIFEXITED(st) && WEXITSTATUS(st) == 77)
			printf("killed@%ld", sh->op);
		else if (WIFSIGNALED(st) && WTERMSIG(st) == SIGABRT)
			printf("die@%ld", sh->op);
		else
			printf("crash:%d@%ld", st, sh->op);
		printf(" calls=%ld faults=%ld", sh->ncalls, sh->nfault);
		if (log_on) { sh->log[sizeof(sh->log) - 1] = 0; printf(" log=%s", sh->log); }
		if (sched_on) { sh->wlog[sizeof(sh->wlog) - 1] = 0; printf(" wlog=%s", sh->wlog); }
		printf("\n");
		k++;
	}
	return 0;
}
