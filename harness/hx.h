/* small helpers for the line-protocol harnesses */
#ifndef HX_H
#define HX_H
#include <stdio.h>
#include <stdlib.h>
#include <string.h>
#include <stdint.h>

static int hx_val(int c)
{
	if (c >= '0' && c <= '9') return c - '0';
	if (c >= 'a' && c <= 'f') return c - 'a' + 10;
	if (c >= 'A' && c <= 'F') return c - 'A' + 10;
	return -1;
}

/* decode hex token into malloc'd NUL-terminated buffer, returns length or -1 */
static long hx_decode(const char *tok, uint8_t **out)
{
	if (strcmp(tok, "-") == 0) {
		*out = calloc(1, 1);
		return 0;
	}
	size_t n = strlen(tok);
	if (n % 2) return -1;
	uint8_t *b = malloc(n / 2 + 1);
	for (size_t i = 0; i < n / 2; i++) {
		int a = hx_val(tok[2 * i]), c = hx_val(tok[2 * i + 1]);
		if (a < 0 || c < 0) { free(b); return -1; }
		b[i] = (uint8_t) (a * 16 + c);
	}
	b[n / 2] = 0;
	*out = b;
	return (long) (n / 2);
}

static void hx_print(const uint8_t *b, size_t n)
{
	if (n == 0) { putchar('-'); return; }
	for (size_t i = 0; i < n; i++)
		printf("%02x", b[i]);
}

/* split line in place into tokens; returns count */
static int hx_split(char *line, char **tok, int max)
{
	int n = 0;
	char *save = NULL;
	for (char *t = strtok_r(line, " \t\r\n", &save); t && n < max; t = strtok_r(NULL, " \t\r\n", &save))
		tok[n++] = t;
	return n;
}
#endif
