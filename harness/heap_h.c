/* Correspondence harness for C03: the real src/include/heap.h driven through
 * the line protocol (heap reset | ins <key> <id> | pop | rekey <id> <key> | dump).
 * Max-heap on `key`; ties are left to heap.h.  `dump` prints the pre-order of
 * (key:id) with `.` for missing children and verifies the parent pointers. */
#include <stdio.h>
#include <stdlib.h>
#include <string.h>
#include <unistd.h>
#include <fcntl.h>
#include "heap.h"
#include "hx.h"

struct el {
	long long key;
	long id;
	heap_node_t hh;
	struct el *next;
};

/* heap.h's die(): make it observable as the canonical line `die` */
void
vdie(const char *prefix, const char *func, const char *errstr, ...)
{
	(void) prefix; (void) func; (void) errstr;
	printf("die\n");
	fflush(stdout);
	_exit(3);
}

static heap_head_t head;
static struct el *all = NULL; /* every element currently in the heap */
static int bad_parent = 0;

static int
cmp(heap_node_t *a, heap_node_t *b)
{
	struct el *ea = heap_elem(a, struct el, hh);
	struct el *eb = heap_elem(b, struct el, hh);
	if (ea->key > eb->key) return +1;
	if (ea->key < eb->key) return -1;
	return 0;
}

static void
dump(heap_node_t *n, heap_node_t *parent)
{
	if (n == NULL) { printf(" ."); return; }
	struct el *e = heap_elem(n, struct el, hh);
	if (n->parent != parent) bad_parent = 1;
	printf(" %lld:%ld", e->key, e->id);
	dump(n->left, n);
	dump(n->right, n);
}

static void
unlink_el(struct el *e)
{
	struct el **pp = &all;
	while (*pp && *pp != e) pp = &(*pp)->next;
	if (*pp) *pp = e->next;
}

static void
reset(void)
{
	while (all) { struct el *n = all->next; free(all); all = n; }
	heap_init(&head);
}

int main(void)
{
	char *line = NULL;
	size_t cap = 0;
	int fd = open("/dev/null", O_WRONLY);
	if (!getenv("HX_VERBOSE")) dup2(fd, 2);
	heap_init(&head);
	while (getline(&line, &cap, stdin) > 0) {
		char *t[8];
		int n = hx_split(line, t, 8);
		if (n == 0) { printf("\n"); continue; }
		if (strcmp(t[0], "heap") != 0 || n < 2) { printf("bad-op\n"); continue; }
		if (n == 2 && strcmp(t[1], "reset") == 0) {
			reset();
			printf("ok 0\n");
		} else if (n == 4 && strcmp(t[1], "ins") == 0) {
			struct el *e = calloc(1, sizeof(*e));
			e->key = atoll(t[2]);
			e->id = atol(t[3]);
			/* heap_insert must not depend on stale pointers */
			e->hh.parent = e->hh.left = e->hh.right = (heap_node_t *) 0x1;
			e->next = all; all = e;
			heap_insert(&head, &e->hh, cmp);
			printf("ok %zu\n", head.size);
		} else if (n == 2 && strcmp(t[1], "pop") == 0) {
			heap_node_t *m = heap_pop_max(&head, cmp);
			if (m == NULL) {
				printf("pop none %zu\n", head.size);
			} else {
				struct el *e = heap_elem(m, struct el, hh);
				printf("pop %lld %ld %zu\n", e->key, e->id, head.size);
				unlink_el(e);
				free(e);
			}
		} else if (n == 4 && strcmp(t[1], "rekey") == 0) {
			long id = atol(t[2]);
			long long key = atoll(t[3]);
			int c = 0;
			for (struct el *e = all; e; e = e->next)
				if (e->id == id) { e->key = key; c++; }
			printf("ok %d\n", c);
		} else if (n == 2 && strcmp(t[1], "dump") == 0) {
			bad_parent = 0;
			printf("dump %zu", head.size);
			dump(head.root, NULL);
			if (bad_parent) printf(" !parent");
			printf("\n");
		} else {
			printf("bad-op\n");
		}
	}
	reset();
	free(line);
	return 0;
}
