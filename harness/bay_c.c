/* Correspondence harness for C06: the REAL chan.c / bay.c / mux.c / track.c /
 * thread_select_* of /repo behind the line protocol of lean/Drivers/Bay.lean.
 *
 *   reset
 *   chan <id> single|stack [dup] [ignoredup] [dirtywrite]
 *   emit <chan>
 *   mux <id> <sel> <out> index|running|active <ninputs> [default]
 *   input <mux> <idx> <chan>
 *   track <mode> <sel> <inp>          -> ok <output chan id>
 *   cputrack <sel> <default|null> <raw chan>...   -> ok <output chan id>
 *   set|push|pop <chan> <value|null>
 *   propagate                         -> ok <chan>=<value>... (emit callbacks, in call order)
 *   read <chan> | state <mux> | dirty
 */
#include <stdio.h>
#include <stdlib.h>
#include <string.h>
#include <unistd.h>
#include <fcntl.h>
#include <inttypes.h>
#include "emu/chan.h"
#include "emu/bay.h"
#include "emu/mux.h"
#include "emu/track.h"
#include "emu/thread.h"
#include "utlist.h"
#include "hx.h"

#define MAXC 4096
#define MAXM 1024

static struct bay *bay;
static struct chan *chans[MAXC];
static int nchans;
static struct mux *muxes[MAXM];
static int nmuxes;
static int dead;
static char emitbuf[1 << 16];
static size_t emitlen;

static void reset(void)
{
	/* the old structures are leaked on purpose (cross references) */
	bay = calloc(1, sizeof(*bay));
	bay_init(bay);
	nchans = 0;
	nmuxes = 0;
	dead = 0;
	emitlen = 0;
}

static int chan_id(struct chan *c)
{
	for (int i = 0; i < nchans; i++)
		if (chans[i] == c)
			return i;
	return -1;
}

static int parse_val(const char *s, struct value *v)
{
	if (strcmp(s, "null") == 0) {
		*v = value_null();
		return 0;
	}
	char *end = NULL;
	long long x = strtoll(s, &end, 10);
	if (end == s || *end != 0)
		return -1;
	*v = value_int64((int64_t) x);
	return 0;
}

static const char *show_val(struct value v, char *buf)
{
	if (v.type == VALUE_NULL)
		strcpy(buf, "null");
	else if (v.type == VALUE_INT64)
		sprintf(buf, "%" PRIi64, v.i);
	else
		strcpy(buf, "double");
	return buf;
}

static int cb_emit(struct chan *chan, void *arg)
{
	(void) arg;
	struct value v;
	char tmp[64];
	if (chan_read(chan, &v) != 0)
		return -1;
	emitlen += (size_t) snprintf(emitbuf + emitlen, sizeof(emitbuf) - emitlen,
			" %d=%s", chan_id(chan), show_val(v, tmp));
	return 0;
}

static int atoi_ok(const char *s, int *out)
{
	char *end = NULL;
	long x = strtol(s, &end, 10);
	if (end == s || *end != 0 || x < 0)
		return -1;
	*out = (int) x;
	return 0;
}

static int unset_inputs(void)
{
	for (int m = 0; m < nmuxes; m++)
		for (int64_t i = 0; i < muxes[m]->ninputs; i++)
			if (muxes[m]->inputs[i].chan == NULL)
				return 1;
	return 0;
}

int main(void)
{
	char *line = NULL;
	size_t cap = 0;
	int fd = open("/dev/null", O_WRONLY);
	if (!getenv("HX_VERBOSE"))
		dup2(fd, 2); /* silence err() */
	reset();
	while (getline(&line, &cap, stdin) > 0) {
		char *t[16];
		int n = hx_split(line, t, 16);
		if (n == 0) { printf("\n"); continue; }
		if (n == 1 && strcmp(t[0], "reset") == 0) { reset(); printf("ok\n"); continue; }
		if (dead) { printf("dead\n"); continue; }
		if (strcmp(t[0], "chan") == 0 && n >= 3) {
			int id;
			int stack = strcmp(t[2], "stack") == 0;
			if (atoi_ok(t[1], &id) != 0 || id != nchans || nchans >= MAXC
					|| (!stack && strcmp(t[2], "single") != 0)) {
				printf("bad-op\n");
				continue;
			}
			int bad = 0, dup = 0, idup = 0, dw = 0;
			for (int i = 3; i < n; i++) {
				if (strcmp(t[i], "dup") == 0) dup = 1;
				else if (strcmp(t[i], "ignoredup") == 0) idup = 1;
				else if (strcmp(t[i], "dirtywrite") == 0) dw = 1;
				else bad = 1;
			}
			if (bad) { printf("bad-op\n"); continue; }
			struct chan *c = calloc(1, sizeof(*c));
			chan_init(c, stack ? CHAN_STACK : CHAN_SINGLE, "c%d", id);
			if (dup) chan_prop_set(c, CHAN_ALLOW_DUP, 1);
			if (idup) chan_prop_set(c, CHAN_IGNORE_DUP, 1);
			if (dw) chan_prop_set(c, CHAN_DIRTY_WRITE, 1);
			if (bay_register(bay, c) != 0) { printf("err\n"); continue; }
			chans[nchans++] = c;
			printf("ok\n");
		} else if (strcmp(t[0], "emit") == 0 && n == 2) {
			int c;
			if (atoi_ok(t[1], &c) != 0) { printf("bad-op\n"); continue; }
			if (c >= nchans) { printf("err\n"); continue; }
			if (bay_add_cb(bay, BAY_CB_EMIT, chans[c], cb_emit, NULL, 1) == NULL)
				printf("err\n");
			else
				printf("ok\n");
		} else if (strcmp(t[0], "mux") == 0 && (n == 6 || n == 7)) {
			int id, sel, out, nin;
			struct value def = value_null();
			mux_select_func_t f = NULL;
			int kind_ok = 1;
			if (strcmp(t[4], "index") == 0) f = NULL;
			else if (strcmp(t[4], "running") == 0) f = thread_select_running;
			else if (strcmp(t[4], "active") == 0) f = thread_select_active;
			else kind_ok = 0;
			if (atoi_ok(t[1], &id) != 0 || atoi_ok(t[2], &sel) != 0 || atoi_ok(t[3], &out) != 0
					|| !kind_ok || atoi_ok(t[5], &nin) != 0
					|| (n == 7 && parse_val(t[6], &def) != 0) || id != nmuxes || nmuxes >= MAXM) {
				printf("bad-op\n");
				continue;
			}
			/* preconditions of the API (otherwise undefined behaviour in C) */
			if (nin == 0 || sel >= nchans || out >= nchans) { printf("err\n"); continue; }
			struct mux *m = calloc(1, sizeof(*m));
			if (mux_init(m, bay, chans[sel], chans[out], f, nin) != 0) { printf("err\n"); continue; }
			mux_set_default(m, def);
			muxes[nmuxes++] = m;
			printf("ok\n");
		} else if (strcmp(t[0], "input") == 0 && n == 4) {
			int m, i, c;
			if (atoi_ok(t[1], &m) != 0 || atoi_ok(t[2], &i) != 0 || atoi_ok(t[3], &c) != 0) {
				printf("bad-op\n");
				continue;
			}
			/* out of range index / unknown channel: no bound check in C */
			if (m >= nmuxes || i >= muxes[m]->ninputs || c >= nchans) { printf("err\n"); continue; }
			/* mux_set_input stores the channel before bay_add_cb can fail; all
			 * channels here are registered so that cannot happen */
			printf(mux_set_input(muxes[m], i, chans[c]) == 0 ? "ok\n" : "err\n");
		} else if (strcmp(t[0], "track") == 0 && n == 4) {
			int mode, sel, inp;
			if (atoi_ok(t[1], &mode) != 0 || atoi_ok(t[2], &sel) != 0 || atoi_ok(t[3], &inp) != 0) {
				printf("bad-op\n");
				continue;
			}
			if (sel >= nchans || inp >= nchans) { printf("err\n"); continue; }
			if (mode >= TRACK_TH_MAX) { printf("err\n"); continue; } /* track_init indexes a table by mode */
			struct track *tr = calloc(1, sizeof(*tr));
			if (track_init(tr, bay, TRACK_TYPE_TH, mode, "track%d", nchans) != 0) { printf("err\n"); continue; }
			chans[nchans++] = &tr->ch;
			if (track_connect_thread(tr, chans[inp], chans[sel], 1) != 0) { printf("err\n"); continue; }
			if (mode != TRACK_TH_ANY)
				muxes[nmuxes++] = &tr->mux;
			printf("ok %d\n", chan_id(track_get_output(tr)));
		} else if (strcmp(t[0], "cputrack") == 0 && n >= 3) {
			/* connect_cpu for one channel: track_init, track_set_select(sel, NULL, n),
			 * track_set_input(i, raw_i), mux_set_default */
			int sel, raws[16], nr = n - 3, bad = 0, oob = 0;
			struct value def;
			if (atoi_ok(t[1], &sel) != 0 || parse_val(t[2], &def) != 0) bad = 1;
			for (int i = 0; i < nr && !bad; i++) {
				if (atoi_ok(t[3 + i], &raws[i]) != 0) bad = 1;
				else if (raws[i] >= nchans) oob = 1;
			}
			if (bad) { printf("bad-op\n"); continue; }
			if (nr == 0 || sel >= nchans || oob) { printf("err\n"); continue; }
			struct track *tr = calloc(1, sizeof(*tr));
			if (track_init(tr, bay, TRACK_TYPE_TH, TRACK_TH_RUN, "cputrack%d", nchans) != 0) { printf("err\n"); continue; }
			int out = nchans;
			chans[nchans++] = &tr->ch;
			int fail = track_set_select(tr, chans[sel], NULL, nr) != 0;
			for (int i = 0; i < nr && !fail; i++)
				fail = track_set_input(tr, i, chans[raws[i]]) != 0;
			if (fail) { printf("err\n"); continue; }
			mux_set_default(&tr->mux, def);
			muxes[nmuxes++] = &tr->mux;
			printf("ok %d\n", out);
		} else if ((strcmp(t[0], "set") == 0 || strcmp(t[0], "push") == 0 || strcmp(t[0], "pop") == 0) && n == 3) {
			int c;
			struct value v;
			if (atoi_ok(t[1], &c) != 0 || parse_val(t[2], &v) != 0) { printf("bad-op\n"); continue; }
			if (c >= nchans) { printf("err\n"); continue; }
			int r = t[0][0] == 's' ? chan_set(chans[c], v)
				: t[0][1] == 'u' ? chan_push(chans[c], v) : chan_pop(chans[c], v);
			printf(r == 0 ? "ok\n" : "err\n");
		} else if (strcmp(t[0], "propagate") == 0 && n == 1) {
			if (unset_inputs()) { printf("err unset\n"); continue; }
			emitlen = 0;
			emitbuf[0] = 0;
			if (bay_propagate(bay) != 0) {
				dead = 1;
				printf("err\n");
			} else {
				printf("ok%s\n", emitbuf);
			}
		} else if (strcmp(t[0], "read") == 0 && n == 2) {
			int c;
			if (atoi_ok(t[1], &c) != 0) { printf("bad-op\n"); continue; }
			if (c >= nchans) { printf("err\n"); continue; }
			struct value v;
			char b1[64], b2[64];
			if (chan_read(chans[c], &v) != 0) { printf("err\n"); continue; }
			printf("v=%s last=%s dirty=%d n=%d\n", show_val(v, b1), show_val(chans[c]->last_value, b2),
					chans[c]->is_dirty,
					chans[c]->type == CHAN_STACK ? chans[c]->data.stack.n : 0);
		} else if (strcmp(t[0], "state") == 0 && n == 2) {
			int m;
			if (atoi_ok(t[1], &m) != 0) { printf("bad-op\n"); continue; }
			if (m >= nmuxes) { printf("err\n"); continue; }
			printf("sel=%" PRIi64 " en=", muxes[m]->selected);
			int first = 1;
			for (int64_t i = 0; i < muxes[m]->ninputs; i++) {
				struct mux_input *in = &muxes[m]->inputs[i];
				if (in->cb != NULL && in->cb->enabled) {
					printf("%s%" PRIi64, first ? "" : ",", i);
					first = 0;
				}
			}
			printf("\n");
		} else if (strcmp(t[0], "dirty") == 0 && n == 1) {
			printf("d");
			struct bay_chan *cur;
			DL_FOREACH(bay->dirty, cur)
				printf(" %d", chan_id(cur->chan));
			printf("\n");
		} else {
			printf("bad-op\n");
		}
	}
	return 0;
}
