/* Correspondence harness for C18: the real ev_spec_compile / ev_spec_print
 * (src/emu/ev_spec.c from libemu.a) driven through the line protocol.
 *
 *   evs compile <sig-hex>
 *       -> compile ok <m> <c> <v> <jumbo> <psize> <type>:<name-hex>:<size>:<offset> ...
 *        | compile err
 *   evs print <sig-hex> <desc-hex> <payload-hex> <outlen>
 *       -> print ok <hex> | print err | print cerr
 *
 * The payload is copied into an exact-size heap block so that ASan reports
 * any read past it (the model refuses those inputs as short-payload /
 * unterminated; the check never sends them here). */
#include <stdio.h>
#include <stdlib.h>
#include <string.h>
#include <unistd.h>
#include <fcntl.h>
#include "ev_spec.h"
#include "emu_ev.h"
#include "ovni.h"
#include "hx.h"

static void show_spec(struct ev_spec *s)
{
	printf("%u %u %u %d %zu", (unsigned char) s->mcv[0], (unsigned char) s->mcv[1],
			(unsigned char) s->mcv[2], s->is_jumbo ? 1 : 0, s->payload_size);
	for (int i = 0; i < s->nargs; i++) {
		struct ev_arg *a = &s->args[i];
		printf(" %d:", (int) a->type);
		hx_print((uint8_t *) a->name, strlen(a->name));
		printf(":%zu:%zu", a->size, a->offset);
	}
}

int main(void)
{
	char *line = NULL;
	size_t cap = 0;
	int fd = open("/dev/null", O_WRONLY);
	if (!getenv("HX_VERBOSE")) dup2(fd, 2); /* silence err() */
	while (getline(&line, &cap, stdin) > 0) {
		char *t[16];
		int n = hx_split(line, t, 16);
		if (n == 0) { printf("\n"); continue; }
		if (strcmp(t[0], "evs") != 0) { printf("bad-op\n"); continue; }
		if (n == 3 && strcmp(t[1], "compile") == 0) {
			uint8_t *sig; long len = hx_decode(t[2], &sig);
			if (len < 0) { printf("bad-op\n"); continue; }
			struct ev_decl decl = { (char *) sig, "" };
			struct ev_spec spec;
			if (ev_spec_compile(&spec, &decl) != 0) {
				printf("compile err\n");
			} else {
				printf("compile ok ");
				show_spec(&spec);
				printf("\n");
			}
			free(sig);
		} else if (n == 6 && strcmp(t[1], "print") == 0) {
			uint8_t *sig, *desc, *pay;
			long ls = hx_decode(t[2], &sig);
			long ld = hx_decode(t[3], &desc);
			long lp = hx_decode(t[4], &pay);
			long outlen = atol(t[5]);
			if (ls < 0 || ld < 0 || lp < 0) { printf("bad-op\n"); continue; }
			struct ev_decl decl = { (char *) sig, (char *) desc };
			struct ev_spec spec;
			if (ev_spec_compile(&spec, &decl) != 0) {
				printf("print cerr\n");
			} else {
				/* exact-size payload block */
				uint8_t *exact = malloc(lp > 0 ? (size_t) lp : 1);
				if (lp > 0) memcpy(exact, pay, (size_t) lp);
				struct emu_ev ev;
				memset(&ev, 0, sizeof(ev));
				ev.m = (uint8_t) spec.mcv[0];
				ev.c = (uint8_t) spec.mcv[1];
				ev.v = (uint8_t) spec.mcv[2];
				ev.has_payload = lp > 0;
				ev.payload_size = (size_t) lp;
				ev.is_jumbo = spec.is_jumbo;
				ev.payload = lp > 0 ? (const union ovni_ev_payload *) exact : NULL;
				char *out = malloc(outlen > 0 ? (size_t) outlen : 1);
				if (ev_spec_print(&spec, &ev, out, (int) outlen) != 0) {
					printf("print err\n");
				} else {
					printf("print ok ");
					hx_print((uint8_t *) out, strlen(out));
					printf("\n");
				}
				free(out);
				free(exact);
			}
			free(sig); free(desc); free(pay);
		} else {
			printf("bad-op\n");
		}
	}
	return 0;
}
