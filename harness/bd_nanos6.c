/* Correspondence harness for C20 (Nanos6 side): the real breakdown.c */
#include "nanos6/breakdown.c"
#include "track.h"
#include "bd_common.h"

void bd_nanos6_consts(long out[3])
{
	out[0] = ST_TASK_BODY;
	out[1] = ST_UNKNOWN_SS;
	out[2] = ST_PROGRESSING;
}

/* A CPU as model_cpu_create() would leave it: one track per channel whose
 * scratch channel `ch` is the CPU channel (a mux output: dirty-write and
 * duplicates allowed, see mux_init). Then the real create_cpu/connect_cpu. */
int bd_nanos6_new(struct bay *bay, int idx, struct bdcpu *out)
{
	struct nanos6_cpu *mcpu = calloc(1, sizeof(*mcpu));
	mcpu->m.track = calloc(CH_MAX, sizeof(struct track));
	int chs[3] = { CH_SUBSYSTEM, CH_TYPE, CH_IDLE };
	const char *nm[3] = { "subsystem", "task_type", "idle" };
	for (int i = 0; i < 3; i++) {
		struct chan *c = &mcpu->m.track[chs[i]].ch;
		chan_init(c, CHAN_SINGLE, "nanos6.cpu%d.%s", idx, nm[i]);
		chan_prop_set(c, CHAN_DIRTY_WRITE, 1);
		chan_prop_set(c, CHAN_ALLOW_DUP, 1);
		if (bay_register(bay, c) != 0)
			return -1;
	}
	if (create_cpu(bay, &mcpu->breakdown, idx) != 0)
		return -1;
	if (connect_cpu(bay, mcpu) != 0)
		return -1;
	out->ss = &mcpu->m.track[CH_SUBSYSTEM].ch;
	out->tt = &mcpu->m.track[CH_TYPE].ch;
	out->idle = &mcpu->m.track[CH_IDLE].ch;
	out->tr = &mcpu->breakdown.tr;
	out->tri = &mcpu->breakdown.tri;
	return 0;
}
