/* LD_PRELOAD shim: every pwrite() transfers at most SHORT_PWRITE bytes (the OS may always do that).
 * Used by the C16 check to exercise ovnisort's write loop. */
#define _GNU_SOURCE
#include <dlfcn.h>
#include <stdlib.h>
#include <sys/types.h>
#include <unistd.h>

ssize_t pwrite(int fd, const void *buf, size_t count, off_t offset)
{
	static ssize_t (*real)(int, const void *, size_t, off_t);
	if (!real)
		real = (ssize_t (*)(int, const void *, size_t, off_t)) dlsym(RTLD_NEXT, "pwrite");
	const char *e = getenv("SHORT_PWRITE");
	size_t lim = e ? (size_t) atol(e) : 0;
	if (lim > 0 && count > lim)
		count = lim;
	return real(fd, buf, count, offset);
}

ssize_t pwrite64(int fd, const void *buf, size_t count, off_t offset)
{
	return pwrite(fd, buf, count, offset);
}
