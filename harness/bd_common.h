/* Shared between sort_c.c and the two bd_<model>.c translation units (each of
 * the latter #includes the real <model>/breakdown.c so that the static
 * create_cpu/connect_cpu/select_tr/select_idle are the code under test). */
#ifndef BD_COMMON_H
#define BD_COMMON_H
struct bay;
struct chan;
struct bdcpu {
	struct chan *ss, *tt, *idle, *tr, *tri;
};
int bd_nosv_new(struct bay *bay, int idx, struct bdcpu *out);
void bd_nosv_consts(long out[3]);
int bd_nanos6_new(struct bay *bay, int idx, struct bdcpu *out);
void bd_nanos6_consts(long out[3]);
#endif
