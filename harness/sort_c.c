/* Correspondence harness for C20: the real sort.c (through bay/chan, driven
 * like test/unit/sort.c) and the real breakdown muxes (bd_<model>.c), on the
 * line protocol of lean/Drivers/Sort.lean. */
#include <fcntl.h>
#include <unistd.h>
#include "hx.h"
#include "bay.h"
#include "chan.h"
#include "sort.h"
#include "value.h"
#include "bd_common.h"

#define MAXN 4096

static struct bay *bay;
static struct sort *srt;
static struct chan *inputs;    /* sort unit: our own input channels */
static long n;
static char *wflag;            /* output i went dirty in this propagation */
static struct bdcpu *cpus;
static long ncpus;

static int parse_val(const char *t, struct value *v)
{
	char *end = NULL;
	if (strcmp(t, "N") == 0) { *v = value_null(); return 0; }
	if (t[0] == 'D') {
		long long b = strtoll(t + 1, &end, 10);
		if (*end || !t[1]) return -1;
		memset(v, 0, sizeof(*v));
		v->type = VALUE_DOUBLE;
		v->i = (int64_t) b;
		return 0;
	}
	long long x = strtoll(t, &end, 10);
	if (*end || !t[0]) return -1;
	*v = value_int64((int64_t) x);
	return 0;
}

static void print_val(struct value v)
{
	if (v.type == VALUE_NULL) printf("N");
	else if (v.type == VALUE_INT64) printf("%lld", (long long) v.i);
	else printf("D%lld", (long long) v.i);
}

static int cb_out_dirty(struct chan *chan, void *arg)
{
	(void) chan;
	*(char *) arg = 1;
	return 0;
}

static int new_sort(long nn)
{
	srt = calloc(1, sizeof(*srt));
	wflag = calloc((size_t) nn + 1, 1);
	n = nn;
	if (sort_init(srt, bay, nn, "sort0") != 0) return -1;
	return 0;
}

static int watch_outputs(void)
{
	for (long i = 0; i < n; i++)
		if (bay_add_cb(bay, BAY_CB_DIRTY, sort_get_output(srt, i), cb_out_dirty, &wflag[i], 1) == NULL)
			return -1;
	return 0;
}

static void print_outs(void)
{
	printf("outs");
	if (n == 0) printf(" -");
	for (long i = 0; i < n; i++) {
		struct value v;
		if (chan_read(sort_get_output(srt, i), &v) != 0) abort();
		printf(" ");
		print_val(v);
	}
	printf(" w");
	int any = 0;
	for (long i = 0; i < n; i++)
		if (wflag[i]) { printf(" %ld", i); any = 1; wflag[i] = 0; }
	if (!any) printf(" -");
	printf("\n");
}

int main(void)
{
	char *line = NULL;
	size_t cap = 0;
	if (!getenv("HX_VERBOSE")) {
		int fd = open("/dev/null", O_WRONLY);
		dup2(fd, 2);
	}
	char **t = malloc(sizeof(char *) * (3 * MAXN + 8));
	while (getline(&line, &cap, stdin) > 0) {
		int nt = hx_split(line, t, 3 * MAXN + 8);
		if (nt == 0) { printf("\n"); continue; }
		if (nt >= 4 && !strcmp(t[0], "sort") && !strcmp(t[1], "replace")) {
			long m = nt - 4;
			int64_t *arr = malloc(sizeof(int64_t) * (size_t) (m ? m : 1));
			for (long i = 0; i < m; i++) arr[i] = strtoll(t[4 + i], NULL, 10);
			int64_t old = strtoll(t[2], NULL, 10), new = strtoll(t[3], NULL, 10);
			if (old == new) { printf("die\n"); free(arr); continue; } /* die() aborts */
			sort_replace(arr, m, old, new);
			printf("arr");
			if (m == 0) printf(" -");
			for (long i = 0; i < m; i++) printf(" %lld", (long long) arr[i]);
			printf("\n");
			free(arr);
		} else if (nt == 3 && !strcmp(t[0], "sort") && !strcmp(t[1], "init")) {
			long nn = atol(t[2]);
			if (nn < 0 || nn > MAXN) { printf("bad-op\n"); continue; }
			bay = calloc(1, sizeof(*bay));
			bay_init(bay);
			inputs = calloc((size_t) nn + 1, sizeof(struct chan));
			int bad = 0;
			for (long i = 0; i < nn; i++) {
				chan_init(&inputs[i], CHAN_SINGLE, "input.%ld", i);
				/* like the tri channels (mux outputs) */
				chan_prop_set(&inputs[i], CHAN_DIRTY_WRITE, 1);
				chan_prop_set(&inputs[i], CHAN_ALLOW_DUP, 1);
				bad |= bay_register(bay, &inputs[i]) != 0;
			}
			bad |= new_sort(nn) != 0;
			for (long i = 0; i < nn && !bad; i++)
				bad |= sort_set_input(srt, i, &inputs[i]) != 0;
			bad |= watch_outputs() != 0;
			printf(bad ? "fail\n" : "ok\n");
		} else if (nt >= 2 && !strcmp(t[0], "sort") && !strcmp(t[1], "set")) {
			int bad = (nt - 2) % 2 != 0 || srt == NULL || inputs == NULL;
			for (int i = 2; i + 1 < nt && !bad; i += 2) {
				long idx = atol(t[i]);
				struct value v;
				if (idx < 0 || idx >= n || parse_val(t[i + 1], &v) != 0) { bad = 1; break; }
				if (chan_set(&inputs[idx], v) != 0) { bad = 2; break; }
			}
			if (bad) { printf(bad == 2 ? "fail\n" : "bad-op\n"); continue; }
			if (bay_propagate(bay) != 0) { printf("fail\n"); continue; }
			print_outs();
		} else if (nt == 3 && !strcmp(t[0], "bd") && !strcmp(t[1], "consts")) {
			long c[3];
			if (!strcmp(t[2], "nanos6")) bd_nanos6_consts(c); else bd_nosv_consts(c);
			printf("consts %ld %ld %ld\n", c[0], c[1], c[2]);
		} else if (nt == 4 && !strcmp(t[0], "bd") && !strcmp(t[1], "init")) {
			long nn = atol(t[3]);
			if (nn < 0 || nn > MAXN) { printf("bad-op\n"); continue; }
			int n6 = !strcmp(t[2], "nanos6");
			bay = calloc(1, sizeof(*bay));
			bay_init(bay);
			inputs = NULL;
			cpus = calloc((size_t) nn + 1, sizeof(struct bdcpu));
			ncpus = nn;
			int bad = 0;
			for (long i = 0; i < nn && !bad; i++)
				bad |= (n6 ? bd_nanos6_new(bay, (int) i, &cpus[i]) : bd_nosv_new(bay, (int) i, &cpus[i])) != 0;
			/* as model_<m>_breakdown_create/connect: sort over the tri channels */
			bad |= new_sort(nn) != 0;
			for (long i = 0; i < nn && !bad; i++)
				bad |= sort_set_input(srt, i, cpus[i].tri) != 0;
			bad |= watch_outputs() != 0;
			printf(bad ? "fail\n" : "ok\n");
		} else if (nt >= 2 && !strcmp(t[0], "bd") && !strcmp(t[1], "set")) {
			int bad = (nt - 2) % 3 != 0 || cpus == NULL;
			for (int i = 2; i + 2 < nt && !bad; i += 3) {
				long idx = atol(t[i]);
				struct value v;
				if (idx < 0 || idx >= ncpus || parse_val(t[i + 2], &v) != 0) { bad = 1; break; }
				struct chan *c = !strcmp(t[i + 1], "ss") ? cpus[idx].ss
					: !strcmp(t[i + 1], "tt") ? cpus[idx].tt
					: !strcmp(t[i + 1], "idle") ? cpus[idx].idle : NULL;
				if (c == NULL) { bad = 1; break; }
				if (chan_set(c, v) != 0) { bad = 2; break; }
			}
			if (bad) { printf(bad == 2 ? "fail\n" : "bad-op\n"); continue; }
			if (bay_propagate(bay) != 0) { printf("fail\n"); continue; }
			printf("tr");
			if (ncpus == 0) printf(" -");
			for (long i = 0; i < ncpus; i++) {
				struct value v;
				if (chan_read(cpus[i].tr, &v) != 0) abort();
				printf(" "); print_val(v);
			}
			printf(" tri");
			if (ncpus == 0) printf(" -");
			for (long i = 0; i < ncpus; i++) {
				struct value v;
				if (chan_read(cpus[i].tri, &v) != 0) abort();
				printf(" "); print_val(v);
			}
			printf(" ");
			print_outs();
		} else {
			printf("bad-op\n");
		}
		fflush(stdout);
	}
	return 0;
}
