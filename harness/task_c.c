/* Correspondence harness for C07: the REAL src/emu/body.c and src/emu/task.c
 * (included as sources, so that the private `struct body` can be dumped)
 * driven through the `task …` line protocol.  Everything else (err(), pcf)
 * comes from the libraries built from /repo. */
#include <stdio.h>
#include <stdlib.h>
#include <string.h>
#include <unistd.h>
#include <fcntl.h>
#include "emu/body.c"
#include "emu/task.c"
#include "hx.h"

#define MAXSTACK 8

static struct task_info info;
static struct task_stack stacks[MAXSTACK];
static int nstacks;
static int failed;

static int cmp_task(const void *a, const void *b)
{
	const struct task *x = *(struct task *const *) a, *y = *(struct task *const *) b;
	return (x->id > y->id) - (x->id < y->id);
}

static int cmp_body(const void *a, const void *b)
{
	const struct body *x = *(struct body *const *) a, *y = *(struct body *const *) b;
	return (x->id > y->id) - (x->id < y->id);
}

static char state_char(enum body_state s)
{
	switch (s) {
	case BODY_ST_CREATED: return 'C';
	case BODY_ST_RUNNING: return 'R';
	case BODY_ST_PAUSED: return 'P';
	case BODY_ST_DEAD: return 'D';
	default: return '?';
	}
}

static void dump(void)
{
	size_t nt = HASH_COUNT(info.tasks);
	struct task **ts = calloc(nt + 1, sizeof(*ts));
	size_t k = 0;
	for (struct task *t = info.tasks; t; t = t->hh.next)
		ts[k++] = t;
	qsort(ts, nt, sizeof(*ts), cmp_task);
	printf("ok ");
	if (nt == 0)
		printf("-");
	for (size_t i = 0; i < nt; i++) {
		struct task *t = ts[i];
		if (i) printf(";");
		printf("T%u:%u:%u:%ld:%u[", t->id, t->type->id, t->type->gid, t->nbodies, t->flags);
		size_t nb = HASH_COUNT(t->body_info.bodies);
		struct body **bs = calloc(nb + 1, sizeof(*bs));
		size_t j = 0;
		for (struct body *b = t->body_info.bodies; b; b = b->hh.next)
			bs[j++] = b;
		qsort(bs, nb, sizeof(*bs), cmp_body);
		for (j = 0; j < nb; j++) {
			struct body *b = bs[j];
			if (j) printf(",");
			printf("B%u:%c:", b->id, state_char(b->state));
			if (b->stack == NULL) {
				printf("-");
			} else {
				int which = -1;
				for (int s = 0; s < MAXSTACK; s++)
					if (b->stack == &stacks[s].body_stack)
						which = s;
				printf("%d", which);
			}
			printf(":%ld:%d", b->iteration, b->flags);
			if (b->task != t)
				printf("!task");
		}
		printf("]");
		free(bs);
	}
	free(ts);
	printf(" | ");
	for (int s = 0; s < nstacks; s++) {
		if (s) printf(";");
		printf("S%d:", s);
		struct body *b = stacks[s].body_stack.top;
		if (b == NULL)
			printf("-");
		int first = 1;
		for (; b; b = b->next) {
			if (!first) printf(",");
			first = 0;
			printf("%u.%u", b->task->id, b->id);
		}
		/* public accessors agree with the private view */
		struct body *top = task_get_top(&stacks[s]);
		struct body *run = task_get_running(&stacks[s]);
		if (top != stacks[s].body_stack.top) printf("!top");
		if (run != NULL && (run != top || body_get_state(run) != BODY_ST_RUNNING)) printf("!run");
		if (run == NULL && top != NULL && body_get_state(top) == BODY_ST_RUNNING) printf("!norun");
	}
	printf("\n");
}

static int probe;

static void result(int ret)
{
	if (ret != 0) {
		failed = !probe;
		printf("err\n");
	} else {
		dump();
	}
}

int main(void)
{
	char *line = NULL;
	size_t cap = 0;
	if (!getenv("HX_VERBOSE")) {
		int fd = open("/dev/null", O_WRONLY);
		dup2(fd, 2); /* silence err() */
	}
	while (getline(&line, &cap, stdin) > 0) {
		char *t[16];
		int n = hx_split(line, t, 16);
		if (n == 0) { printf("\n"); continue; }
		if (strcmp(t[0], "task") != 0 || n < 2) { printf("bad-op\n"); continue; }
		if (n == 3 && strcmp(t[1], "reset") == 0) {
			/* the old tables are leaked on purpose (no destructor in task.h) */
			memset(&info, 0, sizeof(info));
			memset(stacks, 0, sizeof(stacks));
			nstacks = atoi(t[2]);
			if (nstacks > MAXSTACK) { printf("bad-op\n"); continue; }
			failed = 0;
			printf("ok\n");
			continue;
		}
		if (failed) { printf("skip\n"); continue; }
		/* `task probe <op> …`: a failure does not end the case */
		probe = 0;
		if (n == 6 && strcmp(t[1], "probe") == 0) {
			probe = 1;
			for (int i = 1; i < 5; i++) t[i] = t[i + 1];
			n = 5;
		}
		if (n == 5 && strcmp(t[1], "type") == 0) {
			uint8_t *label;
			long len = hx_decode(t[3], &label);
			if (len < 0) { printf("bad-op\n"); continue; }
			result(task_type_create(&info, (uint32_t) strtoul(t[2], NULL, 10), (char *) label));
			free(label);
		} else if (n == 5 && strcmp(t[1], "create") == 0) {
			result(task_create(&info, (uint32_t) strtoul(t[3], NULL, 10),
						(uint32_t) strtoul(t[2], NULL, 10),
						(uint32_t) strtoul(t[4], NULL, 10)));
		} else if (n == 5) {
			int s = atoi(t[2]);
			uint32_t tid = (uint32_t) strtoul(t[3], NULL, 10);
			uint32_t bid = (uint32_t) strtoul(t[4], NULL, 10);
			if (s < 0 || s >= MAXSTACK) { printf("bad-op\n"); continue; }
			struct task *task = task_find(info.tasks, tid);
			if (strcmp(t[1], "exec") == 0)
				result(task_execute(&stacks[s], task, bid));
			else if (strcmp(t[1], "pause") == 0)
				result(task_pause(&stacks[s], task, bid));
			else if (strcmp(t[1], "resume") == 0)
				result(task_resume(&stacks[s], task, bid));
			else if (strcmp(t[1], "end") == 0)
				result(task_end(&stacks[s], task, bid));
			else
				printf("bad-op\n");
		} else {
			printf("bad-op\n");
		}
	}
	return 0;
}
