/* Correspondence harness for C14: the real version.h and
 * ovni_version_check_str driven through the line protocol. */
#include <stdio.h>
#include <stdlib.h>
#include <string.h>
#include <unistd.h>
#include <sys/wait.h>
#include <fcntl.h>
#include "version.h"
#include "ovni.h"
#include "hx.h"

static void do_check(const char *s)
{
	fflush(stdout);
	pid_t p = fork();
	if (p == 0) {
		int fd = open("/dev/null", O_WRONLY);
		dup2(fd, 2);
		ovni_version_check_str(s);
		_exit(0);
	}
	int st = 0;
	waitpid(p, &st, 0);
	if (WIFEXITED(st) && WEXITSTATUS(st) == 0)
		printf("check ok\n");
	else if (WIFSIGNALED(st) && WTERMSIG(st) == SIGABRT)
		printf("check die\n");
	else
		printf("check crash %d\n", st);
}

int main(void)
{
	char *line = NULL;
	size_t cap = 0;
	int fd = open("/dev/null", O_WRONLY);
	if (!getenv("HX_VERBOSE")) dup2(fd, 2); /* silence err() */
	while (getline(&line, &cap, stdin) > 0) {
		char *t[16];
		int n = hx_split(line, t, 16);
		if (n == 0) { printf("\n"); continue; }
		if (strcmp(t[0], "ver") != 0) { printf("bad-op\n"); continue; }
		if (n == 3 && strcmp(t[1], "parse") == 0) {
			uint8_t *b; long len = hx_decode(t[2], &b);
			if (len < 0 || (long) strlen((char *) b) != len) { printf("bad-op\n"); continue; }
			int tup[3] = { -7, -7, -7 };
			if (version_parse((char *) b, tup) != 0) printf("parse none\n");
			else printf("parse %d %d %d\n", tup[0], tup[1], tup[2]);
			free(b);
		} else if (n == 2 && strcmp(t[1], "parsenull") == 0) {
			int tup[3];
			if (version_parse(NULL, tup) != 0) printf("parse none\n");
			else printf("parse %d %d %d\n", tup[0], tup[1], tup[2]);
		} else if (n == 8 && strcmp(t[1], "compat") == 0) {
			int w[3] = { atoi(t[2]), atoi(t[3]), atoi(t[4]) };
			int h[3] = { atoi(t[5]), atoi(t[6]), atoi(t[7]) };
			printf("compat %d\n", version_is_compatible(w, h) ? 1 : 0);
		} else if (n == 3 && strcmp(t[1], "check") == 0) {
			uint8_t *b; long len = hx_decode(t[2], &b);
			if (len < 0 || (long) strlen((char *) b) != len) { printf("bad-op\n"); continue; }
			do_check((char *) b);
			free(b);
		} else if (n == 2 && strcmp(t[1], "checknull") == 0) {
			do_check(NULL);
		} else {
			printf("bad-op\n");
		}
	}
	return 0;
}
