/* Multi-threaded correspondence harness for C11: the REAL src/rt/ovni.c,
 * common.c and parson.c are compiled into this executable (ASan+UBSan build
 * and, separately, a ThreadSanitizer build).
 *
 * clock_gettime is interposed with a _Thread_local counter: every thread has
 * its own deterministic clock (starts at 1000, +tick per reading), so the
 * stream a thread writes can be compared byte for byte with the
 * single-threaded run of the same script.
 *
 *   rt_mt mt <base>
 *     stdin, one case per line:  <seed> | <script 0> | <script 1> | ...
 *     (scripts as for harness/rt.c, ops separated by ';').  Case k runs in a
 *     forked child with OVNI_TRACEDIR=<base>/s<k>: the main thread calls
 *     ovni_proc_init(1,"node",1), starts one thread per script (tid 100+i),
 *     releases them with a barrier; each thread executes its script, yielding
 *     / sleeping / spinning between operations as its own PRNG (from <seed>)
 *     says; after joining, the main thread calls ovni_proc_fini().
 *     env RT_TMPDIR=1: OVNI_TMPDIR=<base>/s<k>.tmp (the relocation at ovni_thread_free runs concurrently)
 *     stdout per case: "returned" | "die t<i>@<op>" | "tsan" | "crash:<status>"
 *
 *   rt_mt race <init|fini> <M> <iters> <base>
 *     <iters> times: fork; M threads released by a spinning barrier all call
 *     ovni_proc_init(1,"node",1) (resp. ovni_proc_fini() after a proper
 *     init); each writes a marker in shared memory before and after the call.
 *     stdout: one summary line
 *       runs=<n> aborted=<a> exited=<e> other=<o> past0=<..> past1=<..> past2plus=<..> maxpast=<m> notstarted=<..>
 *     past<k> = runs in which k threads got past the call.
 */
#define _GNU_SOURCE
#include <errno.h>
#include <fcntl.h>
#include <pthread.h>
#include <sched.h>
#include <signal.h>
#include <stdatomic.h>
#include <stdio.h>
#include <stdlib.h>
#include <string.h>
#include <sys/mman.h>
#include <sys/stat.h>
#include <sys/wait.h>
#include <time.h>
#include <unistd.h>

#include "ovni.h"
#include "hx.h"

#define MAXT 64

struct shared {
	volatile long op[MAXT];       /* op index being executed by thread i */
	volatile long done[MAXT];
	volatile long dead_thread;    /* thread that raised SIGABRT, -1 */
	volatile long before[MAXT];
	volatile long after[MAXT];
};
static struct shared *sh;

/* ---------------- per-thread deterministic clock ---------------- */
static _Thread_local uint64_t clk_now = 1000, clk_tick = 1;
static _Thread_local long my_idx = -1;

int clock_gettime(clockid_t id, struct timespec *tp)
{
	(void) id;
	tp->tv_sec = (time_t) (clk_now / 1000000000ULL);
	tp->tv_nsec = (long) (clk_now % 1000000000ULL);
	clk_now += clk_tick;
	return 0;
}

static void on_abort(int sig)
{
	(void) sig;
	if (sh && sh->dead_thread < 0)
		sh->dead_thread = my_idx;
	/* returning lets abort() finish the job */
}

/* ---------------- script execution (same ops as harness/rt.c) ------------ */

static void set_mcv(struct ovni_ev *ev, const char *hex)
{
	uint8_t *b = NULL;
	long n = hx_decode(hex, &b);
	char mcv[4] = { 0, 0, 0, 0 };
	for (long i = 0; i < 3 && i < n; i++) mcv[i] = (char) b[i];
	ovni_ev_set_mcv(ev, mcv);
	free(b);
}

static uint64_t parse_clock(const char *t)
{
	if (strcmp(t, "now") == 0) return ovni_clock_now();
	return strtoull(t, NULL, 10);
}

static void add_chunks(struct ovni_ev *ev, char **t, int from, int n)
{
	for (int i = from; i < n; i++) {
		uint8_t *b = NULL;
		long len = hx_decode(t[i], &b);
		ovni_payload_add(ev, b, (int) len);
		free(b);
	}
}

static void run_op(char *op, int tid)
{
	char *t[64];
	int n = hx_split(op, t, 64);
	if (n == 0) return;
	if (!strcmp(t[0], "init")) {
		ovni_thread_init(tid);
	} else if (!strcmp(t[0], "ev") && n >= 3) {
		struct ovni_ev ev = { 0 };
		ovni_ev_set_clock(&ev, parse_clock(t[2]));
		set_mcv(&ev, t[1]);
		add_chunks(&ev, t, 3, n);
		ovni_ev_emit(&ev);
	} else if (!strcmp(t[0], "jumbo") && n >= 6) {
		struct ovni_ev ev = { 0 };
		ovni_ev_set_clock(&ev, parse_clock(t[2]));
		set_mcv(&ev, t[1]);
		uint32_t len = (uint32_t) strtoul(t[3], NULL, 10);
		unsigned fill = (unsigned) strtoul(t[4], NULL, 10);
		uint8_t *data = malloc(len ? len : 1);
		for (uint32_t i = 0; i < len; i++) data[i] = (uint8_t) (fill + i);
		uint8_t *pre = NULL;
		long plen = hx_decode(t[5], &pre);
		for (long i = 0; i < plen && (uint32_t) i < len; i++) data[i] = pre[i];
		free(pre);
		add_chunks(&ev, t, 6, n);
		ovni_ev_jumbo_emit(&ev, data, len);
		free(data);
	} else if (!strcmp(t[0], "flush")) {
		ovni_flush();
	} else if (!strcmp(t[0], "mark") && n == 4) {
		int kind = atoi(t[1]);
		int32_t type = (int32_t) strtol(t[2], NULL, 10);
		int64_t value = strtoll(t[3], NULL, 10);
		if (kind == 91) ovni_mark_push(type, value);
		else if (kind == 93) ovni_mark_pop(type, value);
		else ovni_mark_set(type, value);
	} else if (!strcmp(t[0], "tick") && n == 2) {
		clk_tick = strtoull(t[1], NULL, 10);
	} else if (!strcmp(t[0], "free")) {
		ovni_thread_free();
	} else if (!strcmp(t[0], "cpu") && n == 3) {
		ovni_add_cpu(atoi(t[1]), atoi(t[2]));
	} else if (!strcmp(t[0], "require") && n == 3) {
		ovni_thread_require(t[1], t[2]);
	} else if (!strcmp(t[0], "rank") && n == 3) {
		ovni_proc_set_rank(atoi(t[1]), atoi(t[2]));
	} else if (!strcmp(t[0], "attrflush")) {
		ovni_attr_flush();
	} else if (!strcmp(t[0], "attr") && n == 3) {
		uint8_t *b = NULL; hx_decode(t[2], &b);
		ovni_attr_set_json(t[1], (char *) b);
		free(b);
	} else if (!strcmp(t[0], "marktype") && n == 4) {
		uint8_t *b = NULL; hx_decode(t[3], &b);
		ovni_mark_type((int32_t) atoi(t[1]), atol(t[2]), (char *) b);
		free(b);
	} else if (!strcmp(t[0], "marklabel") && n == 4) {
		uint8_t *b = NULL; hx_decode(t[3], &b);
		ovni_mark_label((int32_t) atoi(t[1]), strtoll(t[2], NULL, 10), (char *) b);
		free(b);
	} else {
		fprintf(stderr, "harness: bad op '%s'\n", t[0]);
		_exit(3);
	}
}

/* ---------------- mt mode ---------------- */

struct targ {
	int idx;
	char *script;
	uint64_t seed;
};

static pthread_barrier_t start_barrier;

static uint64_t rnd(uint64_t *s)
{
	*s = *s * 6364136223846793005ULL + 1442695040888963407ULL;
	return *s >> 33;
}

static void perturb(uint64_t *s)
{
	uint64_t r = rnd(s) % 16;
	if (r < 6) return;
	if (r < 10) { sched_yield(); return; }
	if (r < 13) { struct timespec ts = { 0, (long) (rnd(s) % 200000) }; nanosleep(&ts, NULL); return; }
	volatile unsigned spin = (unsigned) (rnd(s) % 20000);
	while (spin--) ;
}

static void *thread_main(void *p)
{
	struct targ *a = p;
	my_idx = a->idx;
	uint64_t s = a->seed * 2654435761ULL + (uint64_t) a->idx * 40503ULL + 1;
	pthread_barrier_wait(&start_barrier);
	char *save = NULL;
	long i = 0;
	for (char *op = strtok_r(a->script, ";\n", &save); op; op = strtok_r(NULL, ";\n", &save), i++) {
		sh->op[a->idx] = i;
		perturb(&s);
		run_op(op, 100 + a->idx);
	}
	sh->op[a->idx] = i;
	sh->done[a->idx] = 1;
	return NULL;
}

static int run_mt(const char *base)
{
	int quiet = getenv("HX_VERBOSE") == NULL;
	char *line = NULL;
	size_t cap = 0;
	long k = 0;
	while (getline(&line, &cap, stdin) > 0) {
		memset((void *) sh, 0, sizeof(*sh));
		sh->dead_thread = -1;
		fflush(stdout);
		pid_t p = fork();
		if (p == 0) {
			if (quiet) { int fd = open("/dev/null", O_WRONLY); dup2(fd, 2); }
			signal(SIGABRT, on_abort);
			char dir[4200];
			snprintf(dir, sizeof(dir), "%s/s%ld", base, k);
			setenv("OVNI_TRACEDIR", dir, 1);
			if (getenv("RT_TMPDIR")) {
				/* relocation mode: streams are written under <base>/s<k>.tmp and moved
				 * to the final directory by ovni_thread_free (concurrently here) */
				char tmp[4300];
				snprintf(tmp, sizeof(tmp), "%s/s%ld.tmp", base, k);
				setenv("OVNI_TMPDIR", tmp, 1);
			} else {
				unsetenv("OVNI_TMPDIR");
			}
			/* split on '|' */
			char *parts[MAXT + 1];
			int np = 0;
			char *save = NULL;
			for (char *q = strtok_r(line, "|\n", &save); q && np <= MAXT; q = strtok_r(NULL, "|\n", &save))
				parts[np++] = q;
			if (np < 2) _exit(3);
			uint64_t seed = strtoull(parts[0], NULL, 10);
			int nt = np - 1;
			my_idx = MAXT - 1;
			ovni_proc_init(1, "node", 1);
			pthread_barrier_init(&start_barrier, NULL, (unsigned) nt);
			pthread_t th[MAXT];
			struct targ args[MAXT];
			for (int i = 0; i < nt; i++) {
				args[i].idx = i;
				args[i].script = parts[i + 1];
				args[i].seed = seed;
				if (pthread_create(&th[i], NULL, thread_main, &args[i]) != 0) _exit(4);
			}
			for (int i = 0; i < nt; i++)
				pthread_join(th[i], NULL);
			ovni_proc_fini();
			exit(0);     /* exit(): lets the sanitizers report */
		}
		int st = 0;
		waitpid(p, &st, 0);
		if (WIFEXITED(st) && WEXITSTATUS(st) == 0)
			printf("returned\n");
		else if (WIFEXITED(st) && WEXITSTATUS(st) == 66)
			printf("tsan\n");
		else if (WIFSIGNALED(st) && WTERMSIG(st) == SIGABRT && sh->dead_thread >= 0 && sh->dead_thread < MAXT)
			printf("die t%ld@%ld\n", sh->dead_thread, sh->op[sh->dead_thread]);
		else
			printf("crash:%d\n", st);
		k++;
	}
	return 0;
}

/* ---------------- race mode ---------------- */

/* A loser's die() reaches abort(): hold the process for a moment so that a
 * thread that did get past the guard can finish its call and set its marker
 * (otherwise the abort of the first loser hides the winner most of the time). */
static void on_abort_slow(int sig)
{
	(void) sig;
	struct timespec ts = { 0, 3000000 };
	nanosleep(&ts, NULL);
}

static atomic_int race_arrived;
static int race_m;
static int race_fini;

static void *race_main(void *p)
{
	long i = (long) p;
	my_idx = i;
	atomic_fetch_add(&race_arrived, 1);
	while (atomic_load(&race_arrived) < race_m)
		;
	sh->before[i] = 1;
	if (race_fini)
		ovni_proc_fini();
	else
		ovni_proc_init(1, "node", 1);
	sh->after[i] = 1;
	return NULL;
}

static int run_race(const char *which, int m, long iters, const char *base)
{
	race_fini = strcmp(which, "fini") == 0;
	race_m = m;
	long aborted = 0, exited = 0, other = 0, past[3] = { 0, 0, 0 }, maxpast = 0, notstarted = 0;
	char dir[4200];
	snprintf(dir, sizeof(dir), "%s/race", base);
	for (long it = 0; it < iters; it++) {
		memset((void *) sh, 0, sizeof(*sh));
		sh->dead_thread = -1;
		pid_t p = fork();
		if (p == 0) {
			int fd = open("/dev/null", O_WRONLY);
			dup2(fd, 2);
			signal(SIGABRT, on_abort_slow);
			setenv("OVNI_TRACEDIR", dir, 1);
			unsetenv("OVNI_TMPDIR");
			if (race_fini)
				ovni_proc_init(1, "node", 1);
			pthread_t th[MAXT];
			for (long i = 0; i < m; i++)
				if (pthread_create(&th[i], NULL, race_main, (void *) i) != 0) _exit(4);
			for (long i = 0; i < m; i++)
				pthread_join(th[i], NULL);
			_exit(0);
		}
		int st = 0;
		waitpid(p, &st, 0);
		if (WIFSIGNALED(st) && WTERMSIG(st) == SIGABRT) aborted++;
		else if (WIFEXITED(st) && WEXITSTATUS(st) == 0) exited++;
		else other++;
		long np = 0, nb = 0;
		for (int i = 0; i < m; i++) { np += sh->after[i]; nb += sh->before[i]; }
		if (nb < m) notstarted++;
		past[np > 2 ? 2 : np]++;
		if (np > maxpast) maxpast = np;
	}
	printf("runs=%ld aborted=%ld exited=%ld other=%ld past0=%ld past1=%ld past2plus=%ld maxpast=%ld notstarted=%ld\n",
			iters, aborted, exited, other, past[0], past[1], past[2], maxpast, notstarted);
	return 0;
}

int main(int argc, char **argv)
{
	sh = mmap(NULL, sizeof(*sh), PROT_READ | PROT_WRITE, MAP_SHARED | MAP_ANONYMOUS, -1, 0);
	if (sh == MAP_FAILED) return 2;
	if (argc == 3 && !strcmp(argv[1], "mt"))
		return run_mt(argv[2]);
	if (argc == 6 && !strcmp(argv[1], "race")) {
		int m = atoi(argv[3]);
		if (m < 1 || m > MAXT) return 2;
		return run_race(argv[2], m, atol(argv[4]), argv[5]);
	}
	fprintf(stderr, "usage: rt_mt mt <base> | rt_mt race <init|fini> <M> <iters> <base>\n");
	return 2;
}
