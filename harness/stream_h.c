/* Correspondence harness for C12/C19: the real src/emu/stream.c (stream_load,
 * stream_step) and the real ovni_ev_size (libovni, sanitized build) driven
 * through the line protocol of lean/Drivers/Stream.lean.
 *
 * stream.c is #included with its mmap() routed to an exact-size malloc
 * buffer filled from the file, so that AddressSanitizer reports any access
 * outside the loaded stream (with the real mmap small over-reads are
 * invisible).  Each case runs in a forked child; the parent turns a sanitizer
 * exit into `oob k` / `ub k` (k = number of successful stream_step calls so
 * far), a signal into `crash sig k`.
 *
 *   cur <unsorted> <hex>   ->  load err | end eof|err steps=<n> offs=<o1,..> |
 *                              oob <k> | ub <k> | hang <k> | crash <sig> <k>
 * HX_DIR names a scratch directory for stream.obs / stream.json. */
#include <fcntl.h>
#include <inttypes.h>
#include <signal.h>
#include <stdio.h>
#include <stdlib.h>
#include <string.h>
#include <sys/mman.h>
#include <sys/stat.h>
#include <sys/wait.h>
#include <unistd.h>
#include "hx.h"

static void *hx_mmap(void *addr, size_t len, int prot, int flags, int fd, off_t off);
static void *(*real_mmap)(void *, size_t, int, int, int, off_t) = mmap;
#define mmap hx_mmap
#include "stream.c" /* /repo/src/emu/stream.c */
#undef mmap

static void *
hx_mmap(void *addr, size_t len, int prot, int flags, int fd, off_t off)
{
	(void) addr; (void) prot; (void) flags;
	uint8_t *b = malloc(len);
	if (b == NULL)
		return MAP_FAILED;
	size_t done = 0;
	while (done < len) {
		ssize_t n = pread(fd, b + done, len - done, off + (off_t) done);
		if (n <= 0) { free(b); return MAP_FAILED; }
		done += (size_t) n;
	}
	return b;
}

static volatile long *progress; /* shared with the child */

static void
child(const char *dir, int unsorted)
{
	static struct stream s;
	if (stream_load(&s, dir, "") != 0) {
		printf("load err\n");
		return;
	}
	if (unsorted)
		stream_allow_unsorted(&s);
	if (!s.active) {
		printf("end eof steps=0 offs=-\n");
		return;
	}
	int64_t max = s.size + 2;
	int64_t *offs = calloc((size_t) max + 1, sizeof(int64_t));
	int64_t k = 0;
	int ret = 0;
	while (k < max) {
		ret = stream_step(&s);
		if (ret != 0)
			break;
		offs[k++] = s.offset;
		*progress = k;
	}
	if (ret == 0) {
		printf("hang %" PRIi64 "\n", k);
		return;
	}
	printf("end %s steps=%" PRIi64 " offs=", ret > 0 ? "eof" : "err", k);
	if (k == 0)
		printf("-");
	for (int64_t i = 0; i < k; i++)
		printf("%s%" PRIi64, i ? "," : "", offs[i]);
	printf("\n");
}

int
main(void)
{
	const char *dir = getenv("HX_DIR");
	if (dir == NULL) {
		fprintf(stderr, "HX_DIR not set\n");
		return 2;
	}
	progress = real_mmap(NULL, 4096, PROT_READ | PROT_WRITE, MAP_SHARED | MAP_ANONYMOUS, -1, 0);
	char obs[4096], json[4096];
	snprintf(obs, sizeof(obs), "%s/stream.obs", dir);
	snprintf(json, sizeof(json), "%s/stream.json", dir);
	FILE *f = fopen(json, "w");
	fprintf(f, "{\"version\":%d,\"ovni\":{\"part\":\"thread\"}}\n", OVNI_METADATA_VERSION);
	fclose(f);

	char *line = NULL;
	size_t cap = 0;
	while (getline(&line, &cap, stdin) > 0) {
		char *t[8];
		int n = hx_split(line, t, 8);
		if (n == 0) { printf("\n"); continue; }
		uint8_t *bytes = NULL;
		long len;
		if (n != 3 || strcmp(t[0], "cur") != 0 || (len = hx_decode(t[2], &bytes)) < 0) {
			printf("bad-line\n");
			continue;
		}
		f = fopen(obs, "wb");
		fwrite(bytes, 1, (size_t) len, f);
		fclose(f);
		free(bytes);
		*progress = 0;
		fflush(stdout);
		pid_t p = fork();
		if (p == 0) {
			if (!getenv("HX_VERBOSE")) {
				int fd = open("/dev/null", O_WRONLY);
				dup2(fd, 2);
			}
			child(dir, atoi(t[1]));
			fflush(stdout);
			_exit(0);
		}
		int st = 0;
		waitpid(p, &st, 0);
		if (WIFEXITED(st) && WEXITSTATUS(st) == 0)
			; /* the child printed the line */
		else if (WIFEXITED(st) && WEXITSTATUS(st) == 99)
			printf("oob %ld\n", *progress);
		else if (WIFEXITED(st) && WEXITSTATUS(st) == 98)
			printf("ub %ld\n", *progress);
		else if (WIFSIGNALED(st))
			printf("crash %d %ld\n", WTERMSIG(st), *progress);
		else
			printf("exit %d %ld\n", WEXITSTATUS(st), *progress);
		fflush(stdout);
	}
	return 0;
}
