"""C12 — structurally invalid or incomplete traces are rejected, never emulated as ok."""
import json
import os
import struct
from concurrent.futures import ThreadPoolExecutor

import c1219_lib as L
import engine
import json_lib
import gen
import vcommon
from ovnitrace import Scratch, Stream, ev_bytes, i32, run_emu, u32, u64, verdict, write_trace

PID = "C12"


class Case:
    def __init__(self, cls, label, tr, expect="reject", sidx=None, meta=False):
        self.cls, self.label, self.tr, self.expect, self.sidx, self.meta = cls, label, tr, expect, sidx, meta
        self.verdict = None
        self.err = ""

    def replay_text(self):
        blob = {"label": self.label, "class": self.cls, "expect": self.expect, "sidx": self.sidx, "meta": self.meta,
                "streams": [{"relpath": s.relpath, "json": s.json_text(), "obs": s.obs().hex()}
                            for s in self.tr.materialise()]}
        return "#replay " + json.dumps(blob) + "\n" + self.tr.describe()


def with_obs(tr, sidx, data):
    t = tr.clone()
    t.streams[sidx][0].raw_obs = data
    return t


# --------------------------------------------------------------------------
# corruption operators
# --------------------------------------------------------------------------

def header_cases(r, tr, tier):
    out = []
    for sidx in range(len(tr.streams)):
        obs = tr.obs(sidx)
        for i in range(8):
            if tier == "thorough":
                vals = [v for v in range(256) if v != obs[i]]
            else:
                vals = {(obs[i] + 1) % 256, (obs[i] - 1) % 256, obs[i] ^ 0x80, 0, 0xff, r.randrange(256)} - {obs[i]}
            for v in sorted(vals):
                out.append(Case("header", f"s{sidx} byte{i}={v:#04x}",
                                with_obs(tr, sidx, obs[:i] + bytes([v]) + obs[i + 1:]), sidx=sidx))
        for k in range(0, 8):
            out.append(Case("header-short", f"s{sidx} file of {k} bytes", with_obs(tr, sidx, obs[:k]), sidx=sidx))
    return out


def trunc_cases(r, tr, tier):
    out = []
    for sidx in range(len(tr.streams)):
        obs = tr.obs(sidx)
        offs = tr.offsets(sidx)
        bounds = set(offs)
        inside = [k for k in range(9, len(obs)) if k not in bounds]
        if tier == "thorough":
            ks = inside
        else:
            # around every event: first byte, inside header, header end, size field, last byte
            ks = set()
            for a, b in zip(offs, offs[1:]):
                for k in (a + 1, a + 4, a + 11, a + 12, a + 13, a + 15, a + 16, b - 1):
                    if a < k < b:
                        ks.add(k)
            ks = sorted(ks)
            if len(ks) > 40:
                ks = sorted(r.sample(ks, 40))
        last = offs[-2]
        for k in ks:
            cls = "trunc-last" if k > last else "trunc-mid"
            out.append(Case(cls, f"s{sidx} cut at {k}/{len(obs)}", with_obs(tr, sidx, obs[:k]), sidx=sidx))
    return out


def swap_cases(r, tr, tier):
    out = []
    for sidx in range(len(tr.streams)):
        evs = tr.streams[sidx][1]
        pairs = [i for i in range(len(evs) - 1) if evs[i].clock != evs[i + 1].clock]
        if tier != "thorough" and len(pairs) > 5:
            pairs = sorted(r.sample(pairs, 5))
        for i in pairs:
            t = tr.clone()
            e = t.streams[sidx][1]
            e[i], e[i + 1] = e[i + 1], e[i]
            out.append(Case("swap", f"s{sidx} events {i}<->{i + 1} clocks {e[i + 1].clock},{e[i].clock}", t, sidx=sidx))
    return out


META_DELETE = ["version", "ovni", "ovni.part", "ovni.tid", "ovni.pid", "ovni.loom", "ovni.app_id", "ovni.require",
               "ovni.finished", "ovni.loom_cpus", "ovni.lib", "ovni.lib.version", "ovni.lib.commit"]
META_ALTER = [("version", [2, 4, 0, -3, "3", None, True, [3], 1e30, 3.5]),
              ("ovni.part", ["", 3, None, ["thread"]]),
              ("ovni.tid", [0, -5, "100", None, [100]]),
              ("ovni.pid", [0, -1, "1", None]),
              ("ovni.loom", ["a/b", "/", 5, None, ["node0"]]),
              ("ovni.app_id", [0, -1, "x", None]),
              ("ovni.finished", [0, 2, "1", True, None, 0.5]),
              ("ovni.require", [5, "ovni", None, []]),
              ("ovni.loom_cpus", [[]])]


def _set(meta, path, val, delete=False):
    ks = path.split(".")
    cur = meta
    for k in ks[:-1]:
        cur = cur[k]
    if delete:
        del cur[ks[-1]]
    else:
        cur[ks[-1]] = val


def meta_expect(tr, sidx, path, delete):
    """Independent expectation: a removed per-process / per-loom attribute is
    legal when another stream of the same process / loom still carries it."""
    s = tr.streams[sidx][0]
    others = [o for j, (o, _) in enumerate(tr.streams) if j != sidx]
    if delete and path == "ovni.app_id":
        if any(o.pid == s.pid and o.loom == s.loom and "app_id" in o.meta["ovni"] for o in others):
            return "ok"
    if delete and path == "ovni.loom_cpus":
        if any(o.loom == s.loom and o.meta["ovni"].get("loom_cpus") for o in others):
            return "ok"
    return "reject"


def meta_cases(r, tr, tier):
    out = []
    for sidx in range(len(tr.streams)):
        base = tr.streams[sidx][0].meta
        for path in META_DELETE:
            t = tr.clone()
            try:
                _set(t.streams[sidx][0].meta, path, None, delete=True)
            except KeyError:
                continue
            out.append(Case("meta-remove", f"s{sidx} remove {path}", t, expect=meta_expect(tr, sidx, path, True),
                            meta=True))
        for path, vals in META_ALTER:
            for v in vals:
                t = tr.clone()
                _set(t.streams[sidx][0].meta, path, v)
                out.append(Case("meta-alter", f"s{sidx} {path}={json.dumps(v)}", t, meta=True))
        # "version-mismatched metadata": the version each stream requires of each model, altered in this
        # stream only (the other streams keep a compatible one): incompatible major, minor too new, unparsable
        for m, ver in sorted(base["ovni"].get("require", {}).items()):
            try:
                a, b, c = (int(x) for x in ver.split("."))
            except ValueError:
                continue
            for v in [f"{a + 1}.{b}.{c}", f"{a}.{b + 1}.{c}", f"{a}.x.{c}", f"{a}.{b}", ""]:
                t = tr.clone()
                t.streams[sidx][0].meta["ovni"]["require"][m] = v
                out.append(Case("meta-alter", f"s{sidx} ovni.require.{m}={json.dumps(v)}", t, meta=True))
        text = tr.streams[sidx][0].json_text()
        for cut in sorted({1, len(text) // 3, len(text) // 2, len(text) - 2}):
            t = tr.clone()
            t.streams[sidx][0].raw_json = text[:cut]
            out.append(Case("meta-unparsable", f"s{sidx} json cut at {cut}", t, meta=True))
        for junk in ["", "[]", "3", "{", "nul", "\x00\x01", "{\"version\":3,}"]:
            t = tr.clone()
            t.streams[sidx][0].raw_json = junk
            out.append(Case("meta-unparsable", f"s{sidx} json={junk!r}", t, meta=True))
        # a model whose events appear but is no longer required
        req = base["ovni"].get("require", {})
        used = {e.mcv[0] for e in tr.streams[sidx][1]}
        for m in [m for m in req if m != "ovni"]:
            if all(m not in o.meta["ovni"].get("require", {}) for j, (o, _) in enumerate(tr.streams) if j != sidx):
                t = tr.clone()
                del t.streams[sidx][0].meta["ovni"]["require"][m]
                tabs = gen.load_tables()
                if chr(tabs[m]["char"]) in used:
                    out.append(Case("meta-unrequire", f"s{sidx} require without {m}", t, meta=True))
    return out


def event_cases(r, tr, tier, tabs):
    out = []
    pairs = L.model_pairs(tabs)
    for sidx in range(len(tr.streams)):
        evs = tr.streams[sidx][1]
        req = tr.streams[sidx][0].meta["ovni"]["require"]
        mids = list(range(1, len(evs) - 1)) or [0]
        # undeclared MCV / unregistered model / model not required, in place of an event or inserted
        subs = ["OHz", "OZa", "O[[", "Xab", "~~~", "\x01\x02\x03", "OH\x00"]
        subs += [pairs[m][0] for m in pairs if m not in req and all(
            m not in o.meta["ovni"]["require"] for (o, _) in tr.streams)][:3]
        # an undeclared MCV of every model the stream requires: an unused category, a used category with an
        # unused value, and a declared code with the value's case flipped when that is undeclared (handlers that
        # ignore some codes must still refuse unknown ones).  Enumerated exceptions of the catalogue
        # (C18 exceptions_enumerated): ovni OB*/OU* ignore the value byte, Nanos6 keeps the legacy 6TC.
        for m in req:
            if m not in tabs:
                continue
            ch = chr(tabs[m]["char"])
            declared = {e[0][:3] for e in tabs[m]["evlist"]}
            if m == "kernel":
                declared |= {"KCO", "KCI"}
            cats = sorted({d[1] for d in declared})
            free_cat = next((c for c in "!#%QZqz" if c not in cats), None)
            cand = []
            if free_cat:
                cand.append(ch + free_cat + "a")
            okcats = [c for c in cats if not (m == "ovni" and c in "BU")]
            if okcats:
                c = r.choice(okcats)
                v = next((v for v in "!#Zz9" if ch + c + v not in declared), None)
                if v and not (m == "nanos6" and c + v == "TC"):
                    cand.append(ch + c + v)
            flips = [d[:2] + d[2].swapcase() for d in sorted(declared) if d[2].isalpha()
                     and d[:2] + d[2].swapcase() not in declared and not (m == "ovni" and d[1] in "BU")
                     and not (m == "nanos6" and d[1:2] + d[2].swapcase() == "TC")]
            if flips:
                cand.append(r.choice(flips))
            subs += cand
        for mcv in subs:
            i = r.choice(mids)
            t = tr.clone()
            e = t.streams[sidx][1]
            e.insert(i, L.Ev(e[i].clock, mcv))
            out.append(Case("mcv", f"s{sidx} insert {mcv!r} at {i}", t))
            # ... and in context: right after every event of the same model and category (inside the region the
            # declared event opened, e.g. an undeclared KC? after KCO: seeded C12-7 took it for KCI), twice at most
            ctx = [j + 1 for j, x in enumerate(evs) if x.mcv[:2] == mcv[:2] and 0 < j + 1 < len(evs)]
            for i in ctx[:2]:
                t = tr.clone()
                e = t.streams[sidx][1]
                e.insert(i, L.Ev(e[i - 1].clock, mcv))
                out.append(Case("mcv", f"s{sidx} insert {mcv!r} after {e[i - 1].mcv!r} at {i}", t))
            # ... and IN PLACE of a declared event of the same model and category (same payload): a handler that
            # takes every unknown value for the closing event would otherwise get its closing event later
            for j in [j for j, x in enumerate(evs) if x.mcv[:2] == mcv[:2] and x.mcv != mcv][:3]:
                t = tr.clone()
                e = t.streams[sidx][1]
                old_mcv = e[j].mcv
                e[j].mcv = mcv
                out.append(Case("mcv", f"s{sidx} replace {old_mcv!r} by {mcv!r} at {j}", t))
        # wrong payload size for the size-checked events
        for i, e in enumerate(evs):
            sizes = {"OHx": [0, 2, 3], "OAs": [0, 2, 3, 5, 8, 16], "OAr": [0, 2, 4, 7, 12, 16]}.get(e.mcv)
            if sizes is None:
                continue
            if tier != "thorough":
                sizes = sizes[:1] + [r.choice(sizes[1:])]
            for n in sizes:
                t = tr.clone()
                t.streams[sidx][1][i].payload = (e.payload + bytes(16))[:n]
                out.append(Case("payload", f"s{sidx} {e.mcv} payload {len(e.payload)}->{n}", t))
        # a jumbo-only event stored as a normal event right after a jumbo one (emu_ev keeps is_jumbo)
        for i, e in enumerate(evs):
            if e.jumbo is not None:
                t = tr.clone()
                t.streams[sidx][1].insert(i + 1, L.Ev(e.clock, e.mcv, u32(4) + u32(77)))
                out.append(Case("nonjumbo-after-jumbo", f"s{sidx} non-jumbo {e.mcv} (8 bytes) after jumbo {e.mcv}", t))
                # ... and one whose 12/16-byte payload is shaped like a complete jumbo body (size, type id,
                # NUL-terminated label): only the flag tells it apart
                for body in (u32(8) + u32(77) + b"abc\0", u32(12) + u32(78) + b"abcdefg\0"):
                    t = tr.clone()
                    t.streams[sidx][1].insert(i + 1, L.Ev(e.clock, e.mcv, body))
                    out.append(Case("nonjumbo-after-jumbo", f"s{sidx} non-jumbo {e.mcv} ({len(body)} bytes, jumbo-shaped) after jumbo {e.mcv}", t))
                t = tr.clone()
                t.streams[sidx][1][i] = L.Ev(e.clock, e.mcv, u32(4) + u32(77))
                out.append(Case("nonjumbo", f"s{sidx} {e.mcv} stored non-jumbo", t))
    return out


def task_seed(tabs):
    """One thread creating, running and ending a Nanos6 task and a nOS-V task."""
    tr = L.Tr()
    req = {"ovni": tabs["ovni"]["version"], "nanos6": tabs["nanos6"]["version"], "nosv": tabs["nosv"]["version"]}
    s = Stream(tid=100, pid=1, cpus=[(0, 0), (1, 1)], require=req)
    evs = [L.Ev(10, "OHx", i32(0, -1) + u64(0)),
           L.Ev(20, "6Yc", jumbo=u32(3) + b"six\0"), L.Ev(21, "6Tc", u32(1, 3)), L.Ev(22, "6Tx", u32(1)), L.Ev(23, "6Te", u32(1)),
           L.Ev(30, "VYc", jumbo=u32(4) + b"vee\0"), L.Ev(31, "VTc", u32(1, 4)), L.Ev(32, "VTx", u32(1, 0)), L.Ev(33, "VTe", u32(1, 0)),
           L.Ev(1000, "OHe")]
    tr.add(s, evs)
    return tr


def all_cases(r, tier, tabs, res):
    cases = []
    nseeds = 3 if tier == "quick" else 10
    kinds = ["one", "two", "three", "models", "jumbo"]
    for i in range(nseeds):
        tr = L.seed_trace(r, tabs, kinds[i % len(kinds)] if i < len(kinds) else None)
        cases.append(Case("control", f"seed {i}", tr, expect="ok", sidx=0))
        full = tier == "thorough" and i < 3
        t = "thorough" if full else "quick"
        cases += header_cases(r, tr, t if i == 0 else "quick")
        cases += trunc_cases(r, tr, t)
        cases += swap_cases(r, tr, t)
        cases += meta_cases(r, tr, t)
        cases += event_cases(r, tr, t, tabs)
    # task events of Nanos6 and nOS-V with the payload sizes their handlers check
    # (create_task: exactly 8 bytes in Nanos6, at least 8 in nOS-V; task state events: at least 4 / 8)
    tr = task_seed(tabs)
    cases.append(Case("control", "seed tasks", tr, expect="ok", sidx=0))
    evs = tr.streams[0][1]
    for i, e in enumerate(evs):
        sizes = {"6Tc": [0, 4, 12, 16], "6Tx": [0, 2], "6Te": [0, 2], "VTc": [0, 4], "VTx": [0, 4], "VTe": [0, 4]}.get(e.mcv, [])
        for n in sizes:
            t = tr.clone()
            t.streams[0][1][i].payload = (e.payload + bytes(16))[:n]
            cases.append(Case("payload", f"s0 {e.mcv} payload {len(e.payload)}->{n}", t))
    if tier == "quick":
        # every model required at once (the `models` seed is otherwise thorough-only): event corruptions only
        tr = L.seed_trace(r, tabs, "models")
        cases.append(Case("control", "seed models", tr, expect="ok", sidx=0))
        cases += event_cases(r, tr, "quick", tabs)
    return cases


# --------------------------------------------------------------------------

def load_replay(path):
    cases = []
    for line in open(path):
        if line.startswith("#replay "):
            blob = json.loads(line[len("#replay "):])
            tr = L.Tr()
            for sd in blob["streams"]:
                parts = dict(p.split(".", 1) for p in sd["relpath"].split("/"))
                s = Stream(loom=parts.get("loom", "node0"), pid=int(parts.get("proc", 1)), tid=int(parts.get("thread", 1)))
                s.relpath = sd["relpath"]
                s.raw_json = sd["json"]
                s.raw_obs = bytes.fromhex(sd["obs"])
                tr.add(s, [])
            cases.append(Case(blob["class"], blob["label"], tr, expect=blob["expect"], sidx=blob.get("sidx")))
    return cases


def check(res, tier, replay=None):
    res.cov["rule"] = ("seed traces (1-3 threads, OHx/OAs/OAr payload shapes, model enter/leave pairs, a jumbo nOS-V "
                       "type event) x every single corruption operator (header bytes, truncation offsets, adjacent "
                       "swaps, metadata key removal/alteration/unparsable JSON, undeclared or unrequired MCV, wrong "
                       "payload sizes, non-jumbo after jumbo); each run through the real `ovniemu -l` (oracle: exit != 0 "
                       "and no 'emulation finished ok'); stream-layer corruptions also through the real stream.c "
                       "(ASan harness, exact-size heap buffer) and the Lean cursor (exact step/offset/verdict diff); "
                       "metadata corruptions also through the Lean metadata gates, fed by the Lean parson model from the raw "
                       "stream.json bytes (Python's json as cross-check); the parson model itself against the real parson.c "
                       "(json_lib: documents, getters, dotset, serialization, every truncation, byte mutations). non-trivial = ovniemu got past "
                       "argument parsing and opened the trace")
    res.assumptions = ["parson = lean/OvniModel/Json.lean (Props/Json: round trip, truncation, getter laws, totality); tied to the "
                       "real src/parson.c by the correspondence of checks/json_lib.py in this run (generator-bounded); numbers "
                       "whose value the model does not compute (non-dyadic decimals, beyond 2^53) are compared on grammar only",
                       "memory beyond the stream file reads as zero in the model driver (mmap page tail); the theorems "
                       "quantify over arbitrary contents"]
    prep = engine.prepare(res, asan=True, drivers=("drv_stream", "drv_json"))
    proved = vcommon.prove(res, ["C12", "Json"])
    found = False
    _viol = res.violation
    seen_keys = {}

    def violation_once(key, text, content):
        """one replay file per stable key; further inputs of the same key are counted"""
        seen_keys[key] = seen_keys.get(key, 0) + 1
        res.dist("violation:" + key)
        if seen_keys[key] == 1:
            return _viol(key, text, content)
        return False
    res.violation = violation_once
    if prep.bdir and prep.bdir_asan and prep.driver_ok:
        r = vcommon.rng("c12")
        tabs = gen.load_tables()
        harness = L.stream_harness(prep)
        # ---- the metadata layer below the gates: the parson model against the real parson.c
        jreplay = [l[len("jsonline "):].strip() for l in open(replay) if l.startswith("jsonline ")] if replay else None
        if not replay or jreplay:
            for f in json_lib.run_json_correspondence(res, prep, tier, vcommon.rng("c12-json"), jreplay):
                if f["kind"] == "oracle":
                    found = True
                    res.violation(f["key"], f["text"], f["replay"])
                else:
                    res.cov.setdefault("correspondence_breaks", []).append({"what": f["text"][:600], "script": f["replay"][:1500]})
        cases = load_replay(replay) if replay else all_cases(r, tier, tabs, res)
        with Scratch("c12") as d:
            # ---- the real ovniemu on every case
            def work(chunk):
                for i, c in chunk:
                    td = os.path.join(d, "w%d" % chunk[0][0])
                    c.tr.write(td)
                    rc, err = L.run_emu_patient(prep.bdir, td, ["-l"])
                    c.verdict, c.err = verdict(rc, err), err
            idx = list(enumerate(cases))
            n = max(1, vcommon.NCPU)
            chunks = [idx[k::n] for k in range(n) if idx[k::n]]
            with ThreadPoolExecutor(n) as ex:
                list(ex.map(work, chunks))
            # ---- stream layer: real stream.c vs the Lean cursor
            sl = [c for c in cases if c.sidx is not None]
            lines = ["cur 0 " + (c.tr.obs(c.sidx).hex() or "-") for c in sl]
            hx = os.path.join(d, "hx")
            os.makedirs(hx, exist_ok=True)
            impl, model = L.run_stream_layer(prep, harness, lines, hx, res)
            model_by_case = {}
            for c, l, a, b in zip(sl, lines, impl + ["<missing>"] * len(lines), model + ["<missing>"] * len(lines)):
                model_by_case[id(c)] = b
                res.dist("stream-model:" + L.model_class(b) if b != "<missing>" else "stream-model:missing")
                if a != L.canon_model(b):
                    found = True
                    res.violation("stream-corr:" + c.cls, f"real stream.c says '{a}', Lean cursor says '{b}' ({c.label})",
                                  l + f"\n# impl: {a}\n# model: {b}\n" + c.replay_text())
                elif a.startswith("oob") or a.startswith("ub") or a.startswith("hang"):
                    # model and implementation agree that the code misbehaves: the failing input of the
                    # theorem that does not hold (Props/C12 truncation_not_rejected / Props/C19)
                    off = b.split()[2] if len(b.split()) > 2 else ""
                    key = {"oob": "stream-header-overread", "ub": "evsize-int-overflow",
                           "hang": "evsize-nonpositive-loop:stream_step"}[a.split()[0]]
                    if a.startswith("oob") and off.startswith("-"):
                        key = "evsize-negative-offset"
                    found = True
                    res.violation(key, f"stream_step on the real stream.c: {a} ({c.cls}: {c.label}); the Lean cursor "
                                  f"predicts the same; `{c.cls}` is only rejected as long as the bytes after the buffer "
                                  "happen to make the event not fit", l + "\n" + c.replay_text())
            # ---- metadata gates: ovniemu vs the Lean decision logic
            ml = [c for c in cases if c.meta]
            mlines, jlines = [], []
            cast = "1" if L.version_is_cast() else "0"
            for c in ml:
                toks = []
                for s, evs in c.tr.streams:
                    toks += L.meta_tokens(s.json_text(), tabs, L.simple_compat)
                evm = sorted({ord(e.mcv[0]) for s, evs in c.tr.streams for e in evs})
                mlines.append("meta %d %s %s" % (len(c.tr.streams), " ".join(toks), ",".join(map(str, evm)) or "-"))
                # the same decision from the raw bytes of every stream.json: parsed and read by the Lean parson model
                jlines.append("metaj %s %d %s %s" % (cast, len(c.tr.streams),
                                                     " ".join(s.json_text().encode("utf-8").hex() or "-" for s, _ in c.tr.streams),
                                                     ",".join(map(str, evm)) or "-"))
            _, mmodel, _ = engine.run_lines(engine.exe("drv_stream"), mlines)
            _, jmodel, _ = engine.run_lines(engine.exe("drv_stream"), jlines)
            for c, l, jl, b0, bj in zip(ml, mlines, jlines, mmodel + ["<missing>"] * len(mlines), jmodel + ["<missing>"] * len(mlines)):
                # primary: the Lean JSON path; Python's json module (the former stand-in for parson) is kept as a cross-check
                # and as the fall-back where a number of the document has no modelled value
                b = b0 if bj == "meta unsup" else bj
                res.dist("meta-source:" + ("python-json-fallback" if bj == "meta unsup" else "lean-json"))
                if bj != "meta unsup" and bj != b0:
                    res.cov.setdefault("correspondence_breaks", []).append(
                        {"what": f"metadata gates from the Lean parson model say '{bj}', from Python's json '{b0}' ({c.label})",
                         "script": jl[:1200] + "\n" + l[:600]})
                want = "ok" if b == "meta ok" else "reject"
                res.dist("meta-model:" + (b.split()[-1] if b.startswith("meta reject") else b))
                if c.verdict in ("ok", "reject") and c.verdict != want:
                    found = True
                    res.violation("meta-corr:" + c.label.split(" ", 1)[-1][:60],
                                  f"ovniemu verdict {c.verdict}, Lean metadata gates say '{b}' ({c.label})",
                                  jl + "\n" + l + "\n" + c.replay_text() + "\n" + c.err[-1500:])
            # ---- the property oracle on every case
            shown = {}
            for c in cases:
                res.case(c.cls + "|" + c.tr.describe(), nontrivial=c.verdict is not None)
                res.dist("class:" + c.cls)
                res.dist("ovniemu:" + str(c.verdict))
                if shown.get(c.cls, 0) < 1 and len(res.cov["samples"]) < 6 and c.cls in ("trunc-last", "swap", "meta-remove", "payload", "header", "mcv"):
                    shown[c.cls] = 1
                    res.sample({"class": c.cls, "case": c.label, "ovniemu": c.verdict,
                                "model": model_by_case.get(id(c))})
                if c.expect == "ok":
                    if c.verdict != "ok":
                        found = True
                        res.violation("control:" + c.cls + ":" + c.label[:40], f"valid trace not accepted: {c.verdict} ({c.label})",
                                      c.replay_text() + "\n" + c.err[-1500:])
                    continue
                if c.verdict == "reject":
                    continue
                found = True
                if c.verdict in ("ok", "ok-nomsg"):
                    key = {"nonjumbo-after-jumbo": "emu-ev-sticky-jumbo"}.get(c.cls, "accepted:" + c.cls + ":" + c.label.split(" ", 1)[-1][:50])
                    if c.cls == "meta-alter" and c.label.endswith("version=3.5"):
                        key = "meta-version-fraction"
                    res.violation(key, f"corrupted trace emulated as ok ({c.cls}: {c.label})",
                                  c.replay_text() + "\n" + c.err[-800:])
                elif c.verdict == "timeout":
                    res.violation("evsize-nonpositive-loop:ovniemu", f"ovniemu does not terminate ({c.cls}: {c.label})", c.replay_text())
                else:
                    key = "load-cpus-null-cpus-array" if "loom_cpus" in c.label and c.verdict.startswith("crash") else \
                        f"crash:ovniemu:{c.verdict}:{c.cls}"
                    res.violation(key, f"ovniemu did not exit cleanly: {c.verdict} ({c.cls}: {c.label})",
                                  c.replay_text() + "\n" + c.err[-1500:])
    for b in res.cov.get("correspondence_breaks", [])[:3]:
        proved = False
        res.failed_obligations = getattr(res, "failed_obligations", []) + ["correspondence json: " + b["what"] + " on: " + b["script"]]
    for pr in prep.problems:
        res.failed_obligations = getattr(res, "failed_obligations", []) + [pr]
        proved = False
    if not proved:
        vcommon.obligations_failed(res, found)
