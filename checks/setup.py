#!/usr/bin/env python3
"""MANIFEST.setup_cmd: build everything from files on disk (offline)."""
import os
import sys

HERE = os.path.dirname(os.path.abspath(__file__))
sys.path.insert(0, os.path.join(HERE, "lib"))
sys.path.insert(0, os.path.join(HERE, "..", "tools"))

import gen  # noqa: E402
import vcommon  # noqa: E402


def main():
    b = vcommon.repo_build("plain")
    gen.generate(b)
    try:
        sys.path.insert(0, HERE)
        import c11_lib
        c11_lib.gen_footprint(b)
    except Exception as e:      # noqa: BLE001
        print('footprint generation skipped:', e)
    import re
    exes = re.findall(r'\[\[lean_exe\]\]\s*name\s*=\s*"([^"]+)"', open(os.path.join(vcommon.LEAN, "lakefile.toml")).read())
    ok, out = vcommon.lake_build(["OvniModel"] + exes)
    print(out[-3000:])
    if not ok:
        sys.exit(1)
    print("setup ok:", b)


if __name__ == "__main__":
    main()
