#!/usr/bin/env python3
"""MANIFEST.setup_cmd: build everything from files on disk (offline)."""
import os
import sys

HERE = os.path.dirname(os.path.abspath(__file__))
sys.path.insert(0, os.path.join(HERE, "lib"))
sys.path.insert(0, os.path.join(HERE, "..", "tools"))

import gen  # noqa: E402
import vcommon  # noqa: E402


def main():
    b = vcommon.repo_build("plain")
    gen.generate(b)
    try:
        sys.path.insert(0, HERE)
        import c11_lib
        c11_lib.gen_footprint(b)
    except Exception as e:      # noqa: BLE001
        print('footprint generation skipped:', e)
    import re
    exes = re.findall(r'\[\[lean_exe\]\]\s*name\s*=\s*"([^"]+)"', open(os.path.join(vcommon.LEAN, "lakefile.toml")).read())
    # the drivers (model + line protocol) must build: without them nothing can be checked
    ok, out = vcommon.lake_build(exes)
    print(out[-2000:])
    if not ok:
        sys.exit(1)
    # the theorems are built here only to warm the cache: when /repo has been changed so that a proof
    # obligation over the regenerated tables no longer checks, that is for the property's own check to
    # report (with the failing theorem and a failing input), not a reason for the setup to fail
    ok, out = vcommon.lake_build(["OvniModel"])
    if not ok:
        print(out[-3000:])
        print("setup: some theorem modules do not build on this tree; the checks will report them")
    print("setup ok:", b)


if __name__ == "__main__":
    main()
