"""C04 — thread life-cycle: accepted traces follow the documented state machine."""
import itertools
import os
from concurrent.futures import ThreadPoolExecutor

import c0405_lib
import emu_lib
import engine
import histories
import vcommon
from ovnitrace import Scratch

PID = "C04"
TYPES = {2, 4, 6}      # thread.prv: tid, state, cpu


def gen_history(r, res, p_illegal=0.25):
    sysd = histories.small_sys(r)
    w = histories.Walk2(r, sysd, {})
    n = r.randrange(2, 26)
    bad_budget = 1 if r.random() < p_illegal else 0
    res.dist("hist:" + ("with-illegal-step" if bad_budget else "legal-walk"))
    for _ in range(n):
        t = r.randrange(w.n)
        ops = w.legal_ops(t)
        if w.st[t] == "dead":
            continue            # executing a dead thread is outside the quantified space
        if bad_budget and r.random() < 0.15:
            op = r.choice([o for o in "xcpwre" if not (o == "x" and w.st[t] == "dead")])
            bad_budget = 0
            if op == "x" and w.st[t] != "unknown" and r.random() < 0.5:
                w.thread_op(t, "x", cpu=w.free_cpu(t, allow_busy=True))
            else:
                w.thread_op(t, op, cpu=w.free_cpu(t, allow_busy=(r.random() < 0.3)) if op == "x" else None)
        elif ops:
            w.thread_op(t, r.choice(ops))
        if w.illegal:
            break
    k = r.random()
    if w.illegal and r.random() < 0.7:
        # continue as an implementation accepting the illegal step would: it must not be accepted
        c0405_lib.complete_as_if(w)
    if not w.illegal and k < 0.8:
        w.finish_all()
        # start and finish never-started threads too, else the trace is (correctly) rejected
        for t in range(w.n):
            if w.st[t] == "unknown" and r.random() < 0.85:
                w.thread_op(t, "x")
                w.thread_op(t, "e")
    res.dist("spec:" + w.expected())
    return sysd, w.events, w.expected(), "; ".join(w.illegal)


def exhaustive(maxlen):
    """All OH* histories up to `maxlen` over 2 threads of one process, one
    physical CPU + the virtual CPU (execute alternates between them by thread);
    a dead thread never executes again; an illegal step, if any, is the last one
    (the emulator stops at the first refused event, so a word with an illegal
    step before its last letter exercises nothing its prefix does not).
    Depth-first over the legal prefixes."""
    sysd = emu_lib.Sys([("node0", [(100, [10, 11])], [3])], {"ovni": "1.1.0"})
    alphabet = [(t, op) for t in range(2) for op in "xcpwre"]
    out = []

    def replay(word):
        w = histories.Walk(None, sysd)
        w.tick = (lambda w=w: setattr(w, "clk", w.clk + 1) or w.clk)
        for (t, op) in word:
            if op == "x" and w.st[t] == "dead":
                return None
            if op == "x":
                g = 0 if t == 0 else 1       # thread 0 -> physical cpu, thread 1 -> vcpu
                w.thread_op(t, "x", cpu=(g, sysd.cpus[g]))
            else:
                w.thread_op(t, op)
        return w

    stack = [()]
    while stack:
        word = stack.pop()
        for a in alphabet:
            nw = word + (a,)
            w = replay(nw)
            if w is None:
                continue
            out.append((sysd, w.events, w.expected(), "; ".join(w.illegal)))
            if not w.illegal and len(nw) < maxlen:
                stack.append(nw)
    return out


def run_cases(res, prep, cases, tag, types, lint=True, spec_oracle=True, workers=None, oracle=None, post=None):
    """cases: list of (sysd, events, expected|None, why). Returns found flag."""
    found = False
    drv = engine.exe("drv_emu")
    all_lines, spans = [], []
    for (sysd, events, exp, why) in cases:
        ls = emu_lib.model_lines(sysd, events, lint)
        spans.append((len(all_lines), len(all_lines) + len(ls)))
        all_lines += ls
    _, mout, merr = engine.run_lines(drv, all_lines, timeout=3000)
    with Scratch(tag) as d:
        def one(i):
            sysd, events, exp, why = cases[i]
            td = os.path.join(d, "t%d" % i)
            r = emu_lib.impl_result(prep.bdir, td, sysd, events, lint, post=post)
            import shutil
            shutil.rmtree(td, ignore_errors=True)
            return r
        with ThreadPoolExecutor(max_workers=workers or vcommon.NCPU) as ex:
            impl = list(ex.map(one, range(len(cases))))
    for i, (sysd, events, exp, why) in enumerate(cases):
        a, b = spans[i]
        t0 = min([e[1] for e in events], default=0)
        mres = emu_lib.model_result(all_lines[a:b], mout[a:b], t0)
        ires = impl[i]
        text = emu_lib.script_text(sysd, events, lint)
        res.case(text, nontrivial=len(events) > 0)
        res.dist("ovniemu:" + ires[0])
        if i < 2:
            res.sample({"events": [(e[0], e[1], e[2] if isinstance(e[2], str) else e[2].decode("latin1")) for e in events][:12],
                        "ovniemu": ires[0], "model": mres[0], "spec": exp})
        dis = emu_lib.compare(res, tag, sysd, events, mres, ires, types)
        if not dis and c0405_lib.point_mismatch(mres, ires):
            dis = [c0405_lib.point_mismatch(mres, ires)]
        # property oracle: the documented automaton decides the verdict
        if spec_oracle and exp is not None and ires[0] in ("ok", "reject") and ires[0] != exp:
            found = True
            res.violation(f"{tag}:spec:" + (why or "accepted-vs-spec")[:60].replace(" ", "_"),
                          f"ovniemu verdict {ires[0]} but the documented state machine says {exp} ({why})",
                          text + "\n# ovniemu: " + ires[0] + "\n# spec: " + str(exp) + " " + why + "\n# " + ires[3][-600:].replace("\n", "\n# "))
        elif ires[0] not in ("ok", "reject"):
            found = True
            res.violation(f"{tag}:crash", f"ovniemu {ires[0]}", text + "\n# " + ires[3][-800:].replace("\n", "\n# "))
        elif len(ires) > 4 and ires[4]:
            found = True
            res.violation(f"{tag}:files:" + ires[4][0][:50].replace(" ", "_"),
                          "property violated by ovniemu's output files: " + "; ".join(ires[4][:3]),
                          text + "\n# " + "\n# ".join(ires[4][:5]))
        elif oracle is not None and ires[0] == "ok" and oracle(sysd, events, ires[2]):
            probs = oracle(sysd, events, ires[2])
            found = True
            res.violation(f"{tag}:oracle:" + probs[0][:50].replace(" ", "_"),
                          "property violated by ovniemu's output: " + "; ".join(probs[:3]),
                          text + "\n# " + "\n# ".join(probs[:5]))
        elif dis:
            # model and implementation disagree; is the property itself violated?
            # timelines: check the implementation against the spec automaton directly
            res.cov.setdefault("correspondence_breaks", []).append({"what": dis[0], "script": text[:1500]})
    return found


def spec_timeline_oracle(sysd, events, itl):
    """Independent oracle for the thread-state timeline: replay the documented
    automaton and compare with thread.prv types 4 (state) and 2 (tid)."""
    code = {"unknown": 0, "running": 1, "paused": 2, "dead": 3, "cooling": 4, "warming": 5}
    st = {}
    exp4, exp2 = {}, {}
    t0 = min([e[1] for e in events], default=0)
    for ev in events:
        g, clk, mcv = ev[0], ev[1], ev[2]
        mcv = mcv if isinstance(mcv, str) else mcv.decode("latin1")
        if not mcv.startswith("OH") or mcv[2] not in histories.LEGAL:
            continue
        cur = st.get(g, "unknown")
        new = histories.LEGAL[mcv[2]].get(cur)
        if new is None:
            return None
        st[g] = new
        t = clk - t0
        exp4.setdefault(("T", g + 1, 4), []).append((t, code[new]))
        tid = sysd.threads[g][2] if new in ("running", "cooling", "warming") else 0
        exp2.setdefault(("T", g + 1, 2), []).append((t, tid))
    exp = emu_lib.canon_tl({**exp4, **exp2})
    probs = []
    for k, v in exp.items():
        if itl.get(k, []) != v:
            probs.append(f"{k}: ovniemu shows {itl.get(k, [])[:6]} expected {v[:6]}")
    for k in itl:
        if k[0] == "T" and k[2] in (2, 4) and k not in exp:
            probs.append(f"{k}: unexpected timeline {itl[k][:4]}")
    return probs


def c04_oracle(sysd, events, itl):
    return spec_timeline_oracle(sysd, events, itl) or []


def check(res, tier, replay=None):
    res.cov["rule"] = ("OH* histories over 1-2 looms, 1-3 threads per process, 1-3 CPUs + vCPU: random walks over the documented "
                       "automaton with at most one illegal step; plus every history of length <= 5 (thorough 8) over two threads whose only illegal step, if any, is the last. "
                       "Each trace is written by an independent Python writer, emulated by the real ovniemu -l and by the Lean "
                       "reference emulator; verdict, failing event and thread.prv types 2/4/6 must agree, and the verdict must "
                       "equal the documented automaton's. non-trivial = at least one event; distinct by script")
    prep = engine.prepare(res, drivers=("drv_emu",))
    proved = vcommon.prove(res, "C04")
    found = False
    if prep.bdir and prep.driver_ok:
        r = vcommon.rng("c04")
        n = 400 if tier == "quick" else 6000
        cases = c0405_lib.transition_matrix() + c0405_lib.directed_oversub() + c0405_lib.kernel_cases()
        cases += [gen_history(r, res) for _ in range(n)]
        upto = 5 if tier == "quick" else 8
        cases += exhaustive(upto)
        res.cov["exhaustive_upto"] = upto
        found = run_cases(res, prep, cases, "c04", TYPES, oracle=c04_oracle)
        for b in res.cov.get("correspondence_breaks", [])[:3]:
            proved = False
            res.failed_obligations = getattr(res, "failed_obligations", []) + ["correspondence emu: " + b["what"] + "\n" + b["script"]]
    for pr in prep.problems:
        res.failed_obligations = getattr(res, "failed_obligations", []) + [pr]
        proved = False
    if not proved:
        vcommon.obligations_failed(res, found)
