"""C09 — crash consistency: a killed run is never accepted by the emulator
with flushed events missing from a visible stream."""
import os
import shutil
from concurrent.futures import ThreadPoolExecutor

import engine
import fs_lib
import rt_lib
import vcommon
from ovnitrace import Scratch

PID = "C09"
KEY_JSON_FIRST = "tmpdir-json-before-obs"
REPORTED = set()

# (name, OVNI_TMPDIR mode, readdir order spec or None = what the file system gives); the readdir order
# only matters to the code before `fix: relocate stream.obs before stream.json`
CONFIGS = [("direct", False, None), ("tmp-obs-first", True, ".:oj"), ("tmp-json-first", True, ".:jo"),
           ("tmp-native", True, None)]


def crash_oracle(emu, sub, k, script, run, tmp):
    """Independent oracle on what a kill left on disk: for each of the two
    trees, if ovniemu -l accepts it then every visible stream contains every
    event (and flush marker) the thread had flushed.  Returns problems."""
    must = fs_lib.flushed_user_events(script, run.at)
    nmark = fs_lib.flush_markers_expected(script, run.at)
    probs = []
    for root, name in ((os.path.join(sub, "s%d" % k), "final"), (os.path.join(sub, "s%d.tmp" % k), "tmpdir")):
        if not os.path.isdir(root):
            continue
        streams = fs_lib.visible_streams(root)
        v = emu.verdict(root)
        emu.res.dist("emu:%s:%s" % (name, v if not streams else v + "+streams"))
        if not v.startswith("ok"):
            if v not in ("reject", "abort"):
                probs.append("ovniemu %s on the %s tree" % (v, name))
            continue
        for sd in streams:
            try:
                data = open(os.path.join(sd, "stream.obs"), "rb").read()
            except OSError:
                probs.append("accepted although stream.obs is missing in the %s tree" % name)
                continue
            why = fs_lib.stream_has(data, must, nmark)
            if why:
                probs.append("ovniemu accepts the %s tree but its stream lacks flushed events: %s" % (name, why))
    return probs


def finished_oracle(sub, k, script, run):
    """finished = 1 visible in the final tree => the final stream.obs holds
    everything the thread flushes in its whole life."""
    fin = os.path.join(sub, "s%d" % k)
    probs = []
    for sd in fs_lib.visible_streams(fin) if os.path.isdir(fin) else []:
        if not fs_lib.json_finished(os.path.join(sd, "stream.json")):
            continue
        must = fs_lib.flushed_user_events(script, None)
        nmark = fs_lib.flush_markers_expected(script, None)
        try:
            data = open(os.path.join(sd, "stream.obs"), "rb").read()
        except OSError:
            data = b""
        why = fs_lib.stream_has(data, must, nmark)
        if why:
            probs.append("finished=1 is visible in the final tree but the final stream.obs is incomplete: " + why)
    return probs


def replay_text(cfg, n, script):
    return "cfg %s %s kill %d\n%s\n" % ("t" if cfg[1] else "d", cfg[2] or "native", n, script)


def run_config(res, prep, h, drv, emu, d, cfg, scripts, kills=None):
    """Fault-free call-list correspondence, then a kill before every
    intercepted call.  Returns True if a property violation was found."""
    name, tmp, order = cfg
    found = False
    viol = []
    sub0 = os.path.join(d, name + "-ref")
    ref = fs_lib.run_harness(h, sub0, scripts, tmp, order)
    nanc = fs_lib.anc_count(sub0)
    lines = [fs_lib.model_line("calls", tmp, nanc, ref[k].order(), ref[k].jsizes(), scripts[k]) for k in range(len(scripts))]
    _, out, _ = engine.run_lines(drv, lines)
    for k, sc in enumerate(scripts):
        oc, kv = fs_lib.parse_model(out[k] if k < len(out) else "<missing>")
        mcalls = kv.get("calls", "").split(",")
        res.case("calls:" + name + ":" + sc, nontrivial=ref[k].ncalls > 10)
        res.dist("calls-compared:" + name)
        if ref[k].cls != "returned" or mcalls != ref[k].calls:
            i = next((i for i, (a, b) in enumerate(zip(mcalls, ref[k].calls)) if a != b), min(len(mcalls), len(ref[k].calls)))
            res.cov.setdefault("correspondence_breaks", []).append(
                {"script": sc[:300], "what": "%s: call list differs at #%d: model %s impl %s (outcome %s)" % (
                    name, i, mcalls[i:i + 2], ref[k].calls[i:i + 2], ref[k].outcome)})
    shutil.rmtree(sub0, ignore_errors=True)
    maxn = max(r.ncalls for r in ref)
    points = list(range(1, maxn + 1)) if kills is None else kills

    def one(n):
        sub = os.path.join(d, "%s-k%d" % (name, n))
        idx = [k for k in range(len(scripts)) if ref[k].ncalls >= n]
        # keep script numbering: run all, only look at idx
        runs = fs_lib.run_harness(h, sub, scripts, tmp, order, kill=n, log=False)
        return n, sub, idx, runs

    with ThreadPoolExecutor(max_workers=max(2, vcommon.NCPU // 2)) as ex:
        results = list(ex.map(one, points))
    qlines, qmeta = [], []
    for n, sub, idx, runs in results:
        for k in idx:
            qlines.append(fs_lib.model_line("kill %d" % (n - 1), tmp, nanc, ref[k].order(), ref[k].jsizes(), scripts[k]))
            qmeta.append((n, sub, k, runs[k]))
    _, mout, _ = engine.run_lines(drv, qlines)
    for j, (n, sub, k, run) in enumerate(qmeta):
        sc = scripts[k]
        res.case("kill:%s:%d:%s" % (name, n, sc), nontrivial=n > 10)
        res.dist("kill:" + name)
        if run.cls != "killed":
            res.cov.setdefault("correspondence_breaks", []).append(
                {"script": sc[:300], "what": "%s: kill at call %d gave %s" % (name, n, run.outcome)})
            continue
        # model vs. what is left on disk
        moc, kv = fs_lib.parse_model(mout[j] if j < len(mout) else "<missing>")
        diffs = fs_lib.fs_matches(fs_lib.snapshot(sub, k), fs_lib.parse_fs(kv.get("fs", "")), exact=False)
        if moc != "killed" or diffs:
            res.cov.setdefault("correspondence_breaks", []).append(
                {"script": sc[:300], "what": "%s: state after kill at call %d differs from the model: %s %s" % (
                    name, n, moc, "; ".join(diffs[:3]))})
        # property oracles on the implementation
        p1 = crash_oracle(emu, sub, k, sc, run, tmp)
        p2 = finished_oracle(sub, k, sc, run)
        probs = p1 + p2
        if p1:
            res.dist("oracle-failed:accepted-with-flushed-events-missing:" + name)
        if p2:
            res.dist("oracle-failed:finished-before-data:" + name)
        if probs:
            found = True
            order_seen = ref[k].order()
            # which file was relocated first (from the fault-free call log)
            dst = [c for c in ref[k].calls if c.startswith("fopen:F/") and c.endswith(":w")]
            json_first = tmp and any(c.endswith("/json:w") for c in dst) and any(c.endswith("/obs:w") for c in dst) and \
                next(i for i, c in enumerate(dst) if c.endswith("/json:w")) < next(i for i, c in enumerate(dst) if c.endswith("/obs:w"))
            key = KEY_JSON_FIRST if json_first else "c09:oracle:%s:%s" % (name, probs[0][:50].replace(" ", "_"))
            res.dist("violation:" + key)
            viol.append((0 if p1 else 1, key, "crash consistency violated by libovni (%s, readdir order %s, kill before call %d = %s): %s" % (
                name, order_seen or "-", n, ref[k].calls[n - 1] if n - 1 < len(ref[k].calls) else "?", "; ".join(probs)),
                replay_text(cfg, n, sc) + "# " + "\n# ".join(probs)))
    for kind, key, text, rep in sorted(viol, key=lambda v: v[0]):
        if (key, kind) in REPORTED:      # one report per key and kind of failure
            continue
        REPORTED.add((key, kind))
        res.violation(key, text, rep)
    for n, sub, idx, runs in results:
        shutil.rmtree(sub, ignore_errors=True)
    return found


def load_replay(path):
    cfgs = []
    lines = [l.strip() for l in open(path) if l.strip() and not l.startswith("#")]
    for i in range(0, len(lines) - 1, 2):
        t = lines[i].split()
        if t[0] != "cfg":
            continue
        cfg = ("replay", t[1] == "t", None if t[2] == "native" else t[2])
        cfgs.append((cfg, int(t[4]), lines[i + 1]))
    return cfgs


def check(res, tier, replay=None):
    res.cov["rule"] = ("conformant single-thread programs with several flushes (some padded so that the stream up to OHe "
                       "ends on a 4096-byte stdio boundary and flushed events follow) run on the real libovni in direct "
                       "mode and in OVNI_TMPDIR mode (readdir order obs-first / json-first / native, which only matters to the code "
                       "before the fix that relocates stream.obs first by name); (a) the "
                       "interposed libc call list must equal the model's; (b) a kill before EVERY intercepted call: the "
                       "remains must be a crash state of the model (any prefix of stdio buffers) and satisfy the oracle "
                       "'ovniemu -l accepts a tree => every visible stream holds every flushed event' and 'finished=1 in "
                       "the final tree => final stream.obs complete'. non-trivial = past initialisation; distinct by "
                       "(config, kill point, script)")
    res.assumptions = ["a kill leaves exactly the effects of completed system calls; stdio may have written any prefix of its buffer",
                       "power loss / page-cache behaviour is outside the model",
                       "clock_gettime is a deterministic counter; JSON text is parson's (only its size enters the model)"]
    prep = engine.prepare(res, drivers=("drv_fs",))
    proved = vcommon.prove(res, "C09")
    found = False
    if prep.bdir and prep.driver_ok:
        h = rt_lib.build_harness(prep.bdir)
        drv = engine.exe("drv_fs")
        emu = fs_lib.EmuCache(prep.bdir, res)
        r = vcommon.rng("c09")
        with Scratch("c09") as d:
            if replay:
                for cfg, n, sc in load_replay(replay):
                    found |= run_config(res, prep, h, drv, emu, d, cfg, [sc], kills=[n])
            else:
                nrand, nbound = (6, 3) if tier == "quick" else (150, 50)
                scripts = [fs_lib.gen_prog(r, res) for _ in range(nrand)] + [fs_lib.gen_prog(r, res, boundary=True) for _ in range(nbound)]
                for sc in scripts[:2]:
                    res.sample({"script": sc[:300]})
                for cfg in CONFIGS:
                    found |= run_config(res, prep, h, drv, emu, d, cfg, scripts)
        res.cov["emulator_runs"] = emu.runs
        for b in res.cov.get("correspondence_breaks", [])[:3]:
            proved = False
            res.failed_obligations = getattr(res, "failed_obligations", []) + ["correspondence fs: " + b["what"] + " on: " + b["script"]]
    for pr in prep.problems:
        res.failed_obligations = getattr(res, "failed_obligations", []) + [pr]
        proved = False
    if not proved:
        vcommon.obligations_failed(res, found)
