"""C17 — mark API end to end."""
import json
import os
import struct

import c01
import c04
import emu_lib
import engine
import histories
import rt_lib
import vcommon
from ovnitrace import Scratch, read_pcf

PID = "C17"


def hx(s):
    b = s.encode("latin1") if isinstance(s, str) else s
    return b.hex() if b else "-"


# --------------------------------------------------------------------------
# (A) runtime side: real libovni vs Rt/Mark.lean
# --------------------------------------------------------------------------

def gen_rt_script(r, res):
    ops = ["init", "cpu 0 0", "ev 4f4878 now " + struct.pack("<iiQ", 0, -1, 0).hex()]
    defined = {}
    labelled = {}
    n = r.randrange(2, 14)
    bad = r.random() < 0.3
    for i in range(n):
        k = r.random()
        if k < 0.3:
            free = [x for x in [0, 1, 2, 50, 99, 17, 33] if x not in defined]
            t = (r.choice(free) if free else 5) if not (bad and r.random() < 0.2) else r.choice([-1, 100, 1000] + list(defined))
            title = r.choice(["T", "My title", "x y", "€"]) if not (bad and r.random() < 0.1) else ""
            flags = r.choice([0, 1, 1, 3, 2])
            ops.append("marktype %d %d %s" % (t, flags, hx(title.encode("utf-8")) if title else "-"))
            res.dist("rt:marktype")
            if 0 <= t < 100 and title and t not in defined:
                defined[t] = flags & 1
        elif k < 0.6:
            if not defined and not bad:
                continue
            t = r.choice(list(defined)) if defined and not (bad and r.random() < 0.1) else 7
            used = labelled.setdefault(t, set())
            cand = [x for x in [1, 2, 3, 5, 2**31 - 1, 2**40] if x not in used]
            v = (r.choice(cand) if cand else 9) if not (bad and r.random() < 0.2) else r.choice([0, -1] + list(used))
            used.add(v)
            lab = r.choice(["a", "label b", "ccc"]) if not (bad and r.random() < 0.1) else ""
            ops.append("marklabel %d %d %s" % (t, v, hx(lab) if lab else "-"))
            res.dist("rt:marklabel")
        else:
            t = r.choice(list(defined) + [3]) if defined else 3
            v = r.choice([1, 2, 3, -4, 2**40]) if not (bad and r.random() < 0.15) else 0
            stack = defined.get(t, 0)
            kind = r.choice([91, 93]) if stack else 61
            ops.append("mark %d %d %d" % (kind, t, v))
            res.dist("rt:mark-event")
    ops += ["ev 4f4865 now", "flush", "free"]
    return " ; ".join(ops)


def canon_marks_json(path):
    """ovni.mark of a stream.json in the driver's canonical form"""
    try:
        meta = json.load(open(path))
    except Exception:       # noqa: BLE001
        return None
    marks = meta.get("ovni", {}).get("mark")
    if not marks:
        return "-"
    out = []
    for t, d in marks.items():
        ls = ",".join("%s=%s" % (v, hx(l.encode("utf-8"))) for v, l in d.get("labels", {}).items())
        out.append("%s:%s:%s:%s" % (t, hx(d.get("title", "").encode("utf-8")), d.get("chan_type"), ls))
    return "|".join(out)


def run_rt(res, prep, scripts):
    found = False
    h = rt_lib.build_harness(prep.bdir)
    _, model, _ = engine.run_lines(engine.exe("drv_rt"), scripts)
    with Scratch("c17rt") as d:
        out, err = rt_lib.run_scripts(h, d, scripts)
        for k, sc in enumerate(scripts):
            oc = out[k].split()[0] if k < len(out) else "<missing>"
            m = model[k] if k < len(model) else "<missing>"
            moc = m.split()[0]
            res.case(sc)
            res.dist("rt-outcome:" + oc.split("@")[0])
            mm = [p for p in m.split(" ") if p.startswith("marks=")]
            mmarks = mm[0][6:] if mm else None
            dis = None
            if oc != moc:
                dis = f"outcome libovni={oc} model={moc}"
            elif oc == "returned":
                im = canon_marks_json(rt_lib.meta_path(d, k))
                if im != mmarks:
                    dis = f"ovni.mark metadata libovni={im} model={mmarks}"
            if k < 1:
                res.sample({"rt_script": sc[:300], "outcome": oc})
            if dis:
                # which guard does the property require?  zero values, undefined
                # types at label time, bad titles are "refused": the model encodes them
                res.cov.setdefault("correspondence_breaks", []).append({"what": dis, "script": sc[:600]})
    return found


# --------------------------------------------------------------------------
# (B) emulator side
# --------------------------------------------------------------------------

class MarkCase:
    pass


# label values: small ones, and (since `fix: keep PCF values as 64-bit`) values beyond the C int range,
# including pairs that are equal modulo 2^32 or 2^31
LABEL_POOL = list(range(1, 40)) + [2**31 - 1, 2**31, 2**31 + 7, 2**32 + 5, 2**32 + 7, 2**40, 2**62 + 3]


def gen_emu_case(r, res):
    sysd = histories.small_sys(r)
    n = len(sysd.threads)
    ntypes = r.randrange(1, 5)
    truth = {}
    for t in r.sample(range(0, 100), ntypes):
        truth[t] = {"title": r.choice(["Phase", "Iter", "A b c", "x"]) + str(t), "stack": r.random() < 0.5,
                    "labels": {v: "l%d" % v for v in r.sample(LABEL_POOL, r.randrange(0, 5))}}
    conflict = None
    k = r.random()
    if k < 0.25:
        conflict = r.choice(["title", "ctype", "label", "badctype", "notitle"])
    res.dist("marks:" + (conflict or "consistent"))
    per_thread = []
    for g in range(n):
        defs = []
        for t, d in truth.items():
            if g == 0 or r.random() < 0.5:
                labs = {v: l for v, l in d["labels"].items() if g == 0 or r.random() < 0.6}
                defs.append([t, d["title"], "stack" if d["stack"] else "single", labs])
        r.shuffle(defs)
        per_thread.append(defs)
    if conflict and n >= 1:
        g = r.randrange(n)
        t = r.choice(list(truth))
        d = truth[t]
        if conflict == "title":
            per_thread[g].append([t, d["title"] + "!", "stack" if d["stack"] else "single", {}])
        elif conflict == "ctype":
            per_thread[g].append([t, d["title"], "single" if d["stack"] else "stack", {}])
        elif conflict == "label":
            if d["labels"]:
                v = r.choice(list(d["labels"]))
                per_thread[g].append([t, d["title"], "stack" if d["stack"] else "single", {v: "other"}])
            else:
                conflict = None
        elif conflict == "badctype":
            per_thread[g].append([t, d["title"], "queue", {}])
        elif conflict == "notitle":
            per_thread[g].append([t, None, "stack" if d["stack"] else "single", {}])
        # a duplicated key in one JSON object is not expressible: keep one entry per type per thread
        seen = {}
        for e in per_thread[g]:
            seen[e[0]] = e
        if conflict in ("title", "ctype", "label", "badctype", "notitle") and g == 0:
            pass
        per_thread[g] = list(seen.values())
        # the conflicting entry replaced thread g's own consistent one: a conflict only
        # exists if another thread (or an earlier definition) disagrees
    w = histories.Walk(r, sysd)
    stacks = {}
    illegal_ev = None
    steps = r.randrange(3, 30)
    bad_ev = r.random() < 0.2
    for _ in range(steps):
        if w.illegal or illegal_ev:
            break
        t = r.randrange(n)
        if r.random() < 0.5 and w.st[t] in ("running", "cooling", "warming", "paused") or (w.st[t] != "unknown" and w.st[t] != "dead" and r.random() < 0.3):
            ty = r.choice(list(truth))
            d = truth[ty]
            key = (t, ty)
            stk = stacks.setdefault(key, [])
            v = r.choice(list(d["labels"]) + [r.choice([1, 2, 77, -3, 2**33 + 1])])
            if bad_ev and r.random() < 0.25:
                bad_ev = False
                kind = r.choice(["zero", "undef", "wrongop", "mismatch", "size"])
                res.dist("markev-illegal:" + kind)
                if kind == "zero":
                    w.emit(t, "OM=" if not d["stack"] else "OM[", struct.pack("<qi", 0, ty))
                elif kind == "undef":
                    free = [x for x in range(100) if x not in truth]
                    w.emit(t, "OM=", struct.pack("<qi", v, r.choice(free)))
                elif kind == "wrongop":
                    w.emit(t, "OM[" if not d["stack"] else "OM=", struct.pack("<qi", v, ty))
                elif kind == "mismatch":
                    if d["stack"]:
                        w.emit(t, "OM]", struct.pack("<qi", (stk[-1] + 1) if stk else v, ty))
                    else:
                        w.emit(t, "OM]", struct.pack("<qi", v, ty))
                else:
                    w.emit(t, "OM=", struct.pack("<q", v))
                illegal_ev = kind
                break
            if d["stack"]:
                if stk and r.random() < 0.5:
                    w.emit(t, "OM]", struct.pack("<qi", stk.pop(), ty))
                elif len(stk) < 6:
                    stk.append(v)
                    w.emit(t, "OM[", struct.pack("<qi", v, ty))
            else:
                stk[:] = [v]
                w.emit(t, "OM=", struct.pack("<qi", v, ty))
            res.dist("op:mark")
        elif w.st[t] != "dead":
            ops = w.legal_ops(t)
            if ops:
                w.thread_op(t, r.choice(ops))
    if not w.illegal and not illegal_ev:
        w.finish_all()
        for t in range(n):
            if w.st[t] == "unknown":
                w.thread_op(t, "x")
                w.thread_op(t, "e")
    c = MarkCase()
    c.sysd, c.events, c.per_thread, c.truth = sysd, w.events, per_thread, truth
    c.illegal = bool(w.illegal) or bool(illegal_ev)
    c.conflict = conflict
    c.spec_ok = (w.expected() == "ok")      # the thread automaton's own verdict (all steps legal, all dead)
    return c


def mark_lines(c):
    out = []
    for g, defs in enumerate(c.per_thread):
        for (t, title, ct, labs) in defs:
            ls = ";".join("%d=%s" % (v, hx(l)) for v, l in labs.items()) or "-"
            out.append("mark %d %d %s %s %s" % (g, t, hx(title) if title is not None else "N", hx(ct) if ct is not None else "N", ls))
    return out


def model_lines_with_marks(c):
    lines = emu_lib.model_lines(c.sysd, c.events, True)
    i = [k for k, l in enumerate(lines) if l.startswith("enable ")][0]
    lines[i:i] = mark_lines(c)
    lines.insert(len(lines) - 1, "pcf")
    return lines


def write_marks_into(streams, c):
    for g, defs in enumerate(c.per_thread):
        if not defs:
            continue
        mk = {}
        for (t, title, ct, labs) in defs:
            d = {}
            if title is not None:
                d["title"] = title
            if ct is not None:
                d["chan_type"] = ct
            if labs:
                d["labels"] = {str(v): l for v, l in labs.items()}
            mk[str(t)] = d
        streams[g].meta["ovni"]["mark"] = mk


def definitions_conflict(per_thread):
    """Independent of the Lean model and of the scan order: do the mark definitions of all threads
    contradict one another (two titles or channel types for one type, two labels for one value) or is
    one of them malformed (no title, unknown channel type)?  Such a trace must be refused."""
    seen = {}
    for defs in per_thread:
        for (t, title, ct, labs) in defs:
            if title is None or ct not in ("single", "stack"):
                return "malformed definition of type %d" % t
            e = seen.setdefault(t, {"title": title, "ct": ct, "labels": {}})
            if e["title"] != title:
                return "two titles for type %d" % t
            if e["ct"] != ct:
                return "two channel types for type %d" % t
            for v, l in labs.items():
                if e["labels"].setdefault(v, l) != l:
                    return "two labels for value %d of type %d" % (v, t)
    return None


def oracle_marks(c, itl):
    """Independent statement of the property: thread row shows the mark value
    while the thread is active, CPU row while it runs there, type 100 + mark type."""
    sysd, events = c.sysd, c.events
    n = len(sysd.threads)
    st = ["unknown"] * n
    cpu = [None] * n
    chans = {}
    t0 = min([e[1] for e in events], default=0)
    exp = {}
    for ev in events:
        g, clk, mcv, payload = ev[0], ev[1], ev[2], ev[3]
        li = sysd.threads[g][0]
        if mcv.startswith("OH") and mcv[2] in histories.LEGAL:
            new = histories.LEGAL[mcv[2]].get(st[g])
            if new is None:
                return []
            st[g] = new
            if mcv[2] == "x":
                cpu[g] = sysd.cpu_gindex(li, struct.unpack("<i", payload[:4])[0])
            if new == "dead":
                cpu[g] = None
        elif mcv.startswith("OM") and len(payload) == 12:
            v, ty = struct.unpack("<qi", payload)
            stk = chans.setdefault((g, ty), [])
            if mcv[2] == "[":
                stk.append(v)
            elif mcv[2] == "]" and stk:
                stk.pop()
            elif mcv[2] == "=":
                stk[:] = [v]
        t = clk - t0
        for ty in c.truth:
            for gg in range(n):
                stk = chans.get((gg, ty), [])
                top = stk[-1] if stk else 0
                exp.setdefault(("T", gg + 1, 100 + ty), []).append((t, top if st[gg] in histories.ACTIVE else 0))
            for cg in range(len(sysd.cpus)):
                run = [x for x in range(n) if cpu[x] == cg and st[x] == "running"]
                val = 0
                if len(run) == 1:
                    stk = chans.get((run[0], ty), [])
                    val = stk[-1] if stk else 0
                exp.setdefault(("C", cg + 1, 100 + ty), []).append((t, val))
    exp = emu_lib.canon_tl(exp)
    probs = []
    for k in set(exp) | {k for k in itl if 100 <= k[2] < 200}:
        if exp.get(k, []) != itl.get(k, []):
            probs.append(f"mark row {k}: ovniemu {itl.get(k, [])[:6]} expected {exp.get(k, [])[:6]}")
            if len(probs) > 3:
                break
    return probs


def run_emu_cases(res, prep, cases):
    found = False
    drv = engine.exe("drv_emu")
    all_lines, spans = [], []
    for c in cases:
        ls = model_lines_with_marks(c)
        spans.append((len(all_lines), len(all_lines) + len(ls)))
        all_lines += ls
    _, mout, _ = engine.run_lines(drv, all_lines, timeout=3000)
    from concurrent.futures import ThreadPoolExecutor
    from ovnitrace import run_emu, verdict, write_trace, Prv
    import re
    import shutil
    with Scratch("c17emu") as d:
        def one(i):
            c = cases[i]
            td = os.path.join(d, "t%d" % i)
            streams = emu_lib.build_streams(c.sysd, c.events)
            write_marks_into(streams, c)
            write_trace(td, streams)
            rc, err = run_emu(prep.bdir, td, ["-l"])
            v = verdict(rc, err)
            tl, pcfs = {}, {}
            ft = None
            m = re.search(r"dclock=(-?\d+)", err)
            if m and v != "ok":
                ft = int(m.group(1))
            if v == "ok":
                for f, name in (("T", "thread"), ("C", "cpu")):
                    p = Prv(os.path.join(td, name + ".prv"))
                    for (row, ty), lst in p.timeline().items():
                        tl[(f, row, ty)] = lst
                    pcfs[name] = read_pcf(os.path.join(td, name + ".pcf"))
            shutil.rmtree(td, ignore_errors=True)
            return v, ft, tl, err, pcfs
        with ThreadPoolExecutor(max_workers=vcommon.NCPU) as ex:
            impl = list(ex.map(one, range(len(cases))))
    for i, c in enumerate(cases):
        a, b = spans[i]
        lines, out = all_lines[a:b], mout[a:b]
        t0 = min([e[1] for e in c.events], default=0)
        mres = emu_lib.model_result(lines, out, t0)
        v, ft, tl, err, pcfs = impl[i]
        text = "\n".join(lines)
        res.case(text)
        res.dist("ovniemu:" + v)
        if i < 2:
            res.sample({"marks": mark_lines(c)[:6], "events": len(c.events), "ovniemu": v, "model": mres[0]})
        if v not in ("ok", "reject"):
            found = True
            res.violation("c17:crash", f"ovniemu {v}", text + "\n# " + err[-800:].replace("\n", "\n# "))
            continue
        dis = emu_lib.compare(res, "c17", c.sysd, c.events, mres, (v, ft, tl, err))
        probs = []
        # independent of the Lean model: consistent definitions and only legal events (values pushed,
        # popped in order, set; any value may repeat) must be emulated
        why = definitions_conflict(c.per_thread)
        if v == "ok" and why:
            probs.append("contradictory mark definitions are accepted (%s)" % why)
        if v == "reject" and not c.illegal and getattr(c, "conflict", None) is None and getattr(c, "spec_ok", False):
            probs.append("a legal mark history with consistent definitions is refused: " +
                         " | ".join(l for l in err.split("\n") if "ERROR" in l)[:300])
        if v == "ok":
            probs += oracle_marks(c, tl)
            # PCF: 100+type declared with the title; labels registered (merged) present
            for name in ("thread", "cpu"):
                for ty, d in c.truth.items():
                    ent = pcfs[name].get(100 + ty)
                    if ent is None:
                        probs.append(f"{name}.pcf lacks type {100 + ty}")
                        continue
                    defined = {}
                    title = None
                    for defs in c.per_thread:
                        for (t, ti, ct, labs) in defs:
                            if t == ty:
                                defined.update(labs)
                                title = title or ti
                    if title is not None and ent[0].strip() != title.strip():
                        probs.append(f"{name}.pcf type {100 + ty} title '{ent[0]}' != '{title}'")
                    for val, lab in defined.items():
                        if ent[1].get(val) != lab:
                            probs.append(f"{name}.pcf type {100 + ty} value {val} label {ent[1].get(val)!r} != {lab!r}")
            # model's PCF view
            pl = [o for l, o in zip(lines, out) if l == "pcf"]
            if pl:
                want = {}
                body = pl[0][4:].strip()
                for ent in body.split(";") if body else []:
                    ty, ti, ls = ent.split(":")
                    want[int(ty)] = (bytes.fromhex(ti).decode("latin1") if ti != "-" else "",
                                     {int(kv.split("=")[0]): bytes.fromhex(kv.split("=")[1]).decode("latin1") for kv in ls.split(",") if kv})
                for ty, (ti, ls) in want.items():
                    ent = pcfs["thread"].get(ty)
                    if ent is None or ent[0].strip() != ti.strip() or ent[1] != ls:
                        dis.append(f"pcf type {ty}: ovniemu {ent} model {(ti, ls)}")
        if probs:
            found = True
            res.violation("c17:oracle:" + probs[0][:50].replace(" ", "_"),
                          "property violated by ovniemu's output: " + "; ".join(probs[:3]), text + "\n# " + "\n# ".join(probs[:5]))
        elif dis:
            res.cov.setdefault("correspondence_breaks", []).append({"what": dis[0], "script": text[:1800]})
    return found


def probe_big_labels(res, prep):
    """Label values beyond the C `int` range: the API (int64 value) accepts
    them; the emulator must still show them under their own label and must not
    refuse two distinct values."""
    from ovnitrace import Stream, i32, u64, run_emu, verdict, write_trace, Prv
    found = False
    big = 2**32 + 5
    for labels, what in (({str(big): "big"}, "single"), ({str(big): "big", "5": "five"}, "pair")):
        with Scratch("c17big") as d:
            s = Stream(cpus=[(0, 0)])
            s.meta["ovni"]["mark"] = {"1": {"title": "T", "chan_type": "single", "labels": labels}}
            s.ev(10, "OHx", i32(0, -1) + u64(0)).ev(20, "OM=", struct.pack("<qi", big, 1)).ev(40, "OHe")
            td = os.path.join(d, "ovni")
            write_trace(td, [s])
            rc, err = run_emu(prep.bdir, td, ["-l"])
            v = verdict(rc, err)
            res.case("big-label-probe:" + what)
            prob = None
            if v != "ok":
                prob = f"labels {labels} (distinct int64 values) are refused: {v}"
            else:
                pcf = read_pcf(os.path.join(td, "thread.pcf")).get(101, ("", {}))
                if pcf[1].get(big) != "big":
                    prob = f"value {big} is shown without its label (thread.pcf has {pcf[1]})"
            if prob:
                found = res.violation("mark-label-value-beyond-int", prob,
                                      "trace: one thread, mark type 1 single, labels %s, OM= value %d\n# %s" % (labels, big, prob)) or found
    return found


def check(res, tier, replay=None):
    res.cov["rule"] = ("(A) random programs over ovni_mark_type/label/push/pop/set with bad types, titles, zero values, duplicates, "
                       "on the real libovni vs the Lean runtime model: outcome and the ovni.mark metadata written; (B) traces "
                       "written independently with per-thread mark definitions (consistent, or one title / channel-type / label / "
                       "malformed conflict), mark events interleaved with thread state changes on several threads and CPUs, with "
                       "single illegal mark events: real ovniemu -l vs the Lean reference emulator (verdict, failing event, "
                       "rows of types 100..199, PCF titles and labels) and vs an independent oracle. distinct by script")
    prep = engine.prepare(res, drivers=("drv_emu", "drv_rt"))
    proved = vcommon.prove(res, "C17")
    found = False
    if prep.bdir and prep.driver_ok:
        r = vcommon.rng("c17")
        na, nb = (120, 350) if tier == "quick" else (2000, 5000)
        found = run_rt(res, prep, [gen_rt_script(r, res) for _ in range(na)]) or found
        found = run_emu_cases(res, prep, [gen_emu_case(r, res) for _ in range(nb)]) or found
        found = probe_big_labels(res, prep) or found
        for b in res.cov.get("correspondence_breaks", [])[:3]:
            proved = False
            res.failed_obligations = getattr(res, "failed_obligations", []) + ["correspondence: " + b["what"] + "\n" + b["script"]]
    for pr in prep.problems:
        res.failed_obligations = getattr(res, "failed_obligations", []) + [pr]
        proved = False
    if not proved:
        vcommon.obligations_failed(res, found)
