"""C15 — metadata merge is distribution-independent; conflicts are refused cleanly.

Implementation side: the real `ovniemu` on traces written by tools/ovnitrace.py.
Model side: `drv_system` (lean/OvniModel/Emu/System.lean, both `asis` and `fixed`
modes).  Independent oracle: the expected thread.row / cpu.row computed in
Python from the generated *world* (the union of the metadata) straight from the
property statement, never from the distribution.
"""
import itertools
import os

import engine
import vcommon
from ovnitrace import Prv, Scratch, Stream, i32, u64, read_rows, run_emu, verdict, write_trace

PID = "C15"
CRASH_KEY = "load-cpus-null-cpus-array"


def hx(s):
    if isinstance(s, str):
        s = s.encode("latin1")
    return s.hex() if s else "-"


# --------------------------------------------------------------------------
# Worlds: the union of the metadata
# --------------------------------------------------------------------------

LOOM_NAMES = ["node1", "node10", "node2", "node2.cluster", "a", "B", "b", "zz.0", "Node1", "n", "n0",
              "host.3", "host.12", "x-1", "x_1"]


def gen_world(r, res=None, small=False):
    # one world in ten is past the single-digit sizes (ranks, CPUs, threads >= 10; sparse large ids)
    wide = (not small) and r.random() < 0.1
    nl = (r.choice([1, 1, 2, 2, 3]) if not wide else r.choice([4, 5])) if not small else 1
    names = r.sample(LOOM_NAMES, nl)
    if nl >= 2 and r.random() < 0.3:
        # several looms of ONE host (names equal up to the first dot): their order is decided by the full name
        fam = r.choice([["node1.0", "node1.1", "node1.2", "node1.10"], ["host.3", "host.12", "host.1", "host"],
                        ["a.b.c", "a.b", "a.c", "a.b.d"]])
        pick = r.sample(fam, min(nl, len(fam)))
        names = pick + [x for x in names if x not in pick][:nl - len(pick)]
        while len(names) < nl:          # loom names are unique in a world
            names.append(next(x for x in LOOM_NAMES if x not in names))
    rank_mode = r.choice(["none", "none", "all", "all", "some-looms", "ties"])
    if nl == 1 and rank_mode == "some-looms":
        rank_mode = "all"
    looms = []
    pid_pool = r.sample(range(1, 60), 12) if not wide else r.sample([7, 9, 10, 11, 99, 100, 101, 1000, 9999, 10000, 65536, 10**6,
                                                                       2**31 - 1000, 12, 13, 14, 15, 16, 17, 18, 19, 20, 21, 22], 24)
    tid_pool = r.sample(range(1, 400), 60) if not wide else (r.sample(range(1, 4000), 300) + [65535, 65536, 2**31 - 1, 10**9])
    nprocs_total = 0
    for li, name in enumerate(names):
        ncpu = r.choice([1, 2, 2, 3, 4]) if not wide else r.choice([2, 9, 10, 12])
        phy = r.sample(range(0, 12), ncpu) if not wide else r.sample(range(0, 300), ncpu)
        if r.random() < 0.4:
            phy = list(range(ncpu))
        cpus = [(i, phy[i]) for i in range(ncpu)]
        procs = []
        for pi in range(r.choice([1, 1, 2, 3]) if not wide else r.choice([2, 3, 4])):
            pid = pid_pool.pop() if r.random() < 0.85 or not procs else procs[-1]["pid"] + 100
            nth = r.choice([1, 2, 2, 3]) if not wide else r.choice([1, 2, 9, 11])
            tids = [tid_pool.pop() for _ in range(nth)]
            procs.append({"pid": pid, "appid": r.choice([1, 1, 2, 3, 7]), "rank": None, "nranks": None, "tids": tids})
            nprocs_total += 1
        looms.append({"name": name, "cpus": cpus, "procs": procs})
    if rank_mode == "ties":
        # equal ranks in different processes / looms: the stable sorts then fall
        # back on insertion order, i.e. on the relpath order of trace_load
        for l in looms:
            for p in l["procs"]:
                p["rank"] = r.choice([0, 0, 1])
                p["nranks"] = 2
    elif rank_mode != "none":
        ranks = list(range(nprocs_total + r.choice([0, 0, 3])))
        r.shuffle(ranks)
        for li, l in enumerate(looms):
            if rank_mode == "some-looms" and li == 0:
                continue
            for p in l["procs"]:
                p["rank"] = ranks.pop()
                p["nranks"] = nprocs_total + 3
    if res is not None:
        res.dist("world:looms=%d" % nl)
        if wide:
            res.dist("world:wide")
        res.dist("world:ranks=" + rank_mode)
    return {"looms": looms, "ties": rank_mode == "ties"}


def expected_rows(world, specs=None):
    """Row names demanded by the property: looms by name, or by minimum rank when
    every process of every loom has a rank; processes by rank or pid; threads by
    tid; CPUs by physical id, the virtual CPU last."""
    looms = world["looms"]
    if specs is not None:
        # insertion order = first appearance along trace_load's relpath order;
        # it only matters when sort keys tie (Python's sorted is stable too)
        seen_l, seen_p = [], []
        for s in by_relpath(specs):
            if s["loom"] not in seen_l:
                seen_l.append(s["loom"])
            if (s["loom"], s["pid"]) not in seen_p:
                seen_p.append((s["loom"], s["pid"]))
        looms = sorted(looms, key=lambda l: seen_l.index(l["name"]) if l["name"] in seen_l else 99)
        looms = [dict(l, procs=sorted(l["procs"], key=lambda p: seen_p.index((l["name"], p["pid"]))
                                      if (l["name"], p["pid"]) in seen_p else 99)) for l in looms]
    has = [all(p["rank"] is not None for p in l["procs"]) for l in looms]
    if all(has):
        ordered = sorted(looms, key=lambda l: min(p["rank"] for p in l["procs"]))
    else:
        ordered = sorted(looms, key=lambda l: l["name"].encode("latin1"))
    trows, crows = [], []
    for i, l in enumerate(ordered):
        if all(p["rank"] is not None for p in l["procs"]):
            procs = sorted(l["procs"], key=lambda p: p["rank"])
        else:
            procs = sorted(l["procs"], key=lambda p: p["pid"])
        for p in procs:
            for t in sorted(p["tids"]):
                trows.append("TH %d.%d" % (p["appid"], t))
        for (_, phy) in sorted(l["cpus"], key=lambda c: c[1]):
            crows.append(" CPU %d.%d" % (i, phy))
        crows.append("vCPU %d.*" % i)
    return trows, crows


# --------------------------------------------------------------------------
# Distributions: which stream carries what
# --------------------------------------------------------------------------

def base_specs(world):
    """One spec per thread, no per-process / per-loom attribute placed yet.
    `x` = logical CPU index used by the thread's OHx (-1 = virtual CPU)."""
    specs = []
    for l in world["looms"]:
        k = 0
        for p in l["procs"]:
            for t in p["tids"]:
                specs.append({"relpath": "loom.%s/proc.%d/thread.%d" % (l["name"], p["pid"], t),
                              "part": "thread", "loom": l["name"], "pid": p["pid"], "tid": t,
                              "finished": 1, "ver": 1, "commit": 1,
                              "appid": None, "rank": None, "nranks": None, "cpus": None,
                              "x": k if k < len(l["cpus"]) else -1})
                k += 1
    return specs


def by_relpath(specs):
    return sorted(specs, key=lambda s: s["relpath"].encode("latin1"))


def threads_of_proc(specs, loom, pid):
    return [s for s in by_relpath(specs) if s["loom"] == loom and s["pid"] == pid]


def threads_of_loom(specs, loom):
    return [s for s in by_relpath(specs) if s["loom"] == loom]


def place_proc_attrs(r, world, specs, how):
    for l in world["looms"]:
        for p in l["procs"]:
            ths = threads_of_proc(specs, l["name"], p["pid"])
            for attr in ("appid", "rank"):
                if how == "all":
                    sel = ths
                elif how == "first":
                    sel = ths[:1]
                elif how == "last":
                    sel = ths[-1:]
                else:
                    sel = [t for t in ths if r.random() < 0.5] or [r.choice(ths)]
                for t in sel:
                    if attr == "appid":
                        t["appid"] = p["appid"]
                    elif p["rank"] is not None:
                        t["rank"], t["nranks"] = p["rank"], p["nranks"]


def place_cpus(r, world, specs, how):
    for l in world["looms"]:
        ths = threads_of_loom(specs, l["name"])
        cpus = list(l["cpus"])
        if how == "all":
            for t in ths:
                t["cpus"] = list(cpus)
        elif how == "first":
            ths[0]["cpus"] = list(cpus)
        elif how == "last":
            ths[-1]["cpus"] = list(cpus)
        elif how == "reversed":
            ths[0]["cpus"] = list(reversed(cpus))
        elif how == "shuffled":
            t = r.choice(ths)
            c = list(cpus)
            r.shuffle(c)
            t["cpus"] = c
        elif how == "safe-split":
            # first appearances in ascending index order along the relpath order,
            # duplicates of already known CPUs sprinkled anywhere after them
            cuts = sorted(r.randrange(0, len(cpus) + 1) for _ in range(len(ths) - 1))
            cuts = [0] + cuts + [len(cpus)]
            known = []
            for i, t in enumerate(ths):
                new = cpus[cuts[i]:cuts[i + 1]]
                lst = []
                for c in new:
                    while known and r.random() < 0.3:
                        lst.append(r.choice(known))
                    lst.append(c)
                    known.append(c)
                while known and r.random() < 0.3:
                    lst.append(r.choice(known))
                if lst or (r.random() < 0.0):
                    t["cpus"] = lst
        else:   # "any-split": every CPU lands somewhere, any order, duplicates allowed
            for t in ths:
                t["cpus"] = []
            for c in cpus:
                for t in (r.sample(ths, r.randrange(1, len(ths) + 1))):
                    t["cpus"].append(c)
            for t in ths:
                r.shuffle(t["cpus"])
                if not t["cpus"]:
                    t["cpus"] = None


PROC_HOW = ["all", "first", "last", "random"]
CPU_HOW = ["all", "first", "last", "safe-split", "safe-split", "reversed", "shuffled", "any-split", "any-split"]


def variant(r, world, ph, ch):
    specs = base_specs(world)
    place_proc_attrs(r, world, specs, ph)
    place_cpus(r, world, specs, ch)
    return specs


def cpu_first_appearance_ascending(specs):
    """True iff, for every loom, CPUs first appear in ascending index order along
    the relpath order (only used to classify the input distribution)."""
    seen = {}
    for s in by_relpath(specs):
        for (i, p) in (s["cpus"] or []):
            l = seen.setdefault(s["loom"], [])
            if (i, p) not in l:
                if l and l[-1][0] > i:
                    return False
                l.append((i, p))
    return True


# --------------------------------------------------------------------------
# Contradictions (single, on top of a valid safe distribution)
# --------------------------------------------------------------------------

PROPERTY_CONTRADICTIONS = ["appid-diff", "rank-diff", "nranks-diff", "index-two-phyids", "phyid-two-indexes",
                           "dup-tid", "missing-cpus", "missing-appid"]
OTHER_CONTRADICTIONS = ["rank-missing-proc", "nranks-missing", "rank-ge-nranks", "appid-nonpos", "index-gap",
                        "index-neg", "phyid-neg", "cpus-empty", "not-finished", "no-part", "no-loom", "pid-zero",
                        "tid-zero", "loom-slash", "no-version", "rank-neg"]


def contradict(r, world, kind):
    """Returns specs or None when the world cannot host this contradiction."""
    specs = variant(r, world, r.choice(["all", "first", "random"]), r.choice(["first", "all", "safe-split"]))
    srt = by_relpath(specs)
    l = r.choice(world["looms"])
    p = r.choice(l["procs"])
    ths = threads_of_proc(specs, l["name"], p["pid"])
    lths = threads_of_loom(specs, l["name"])
    if kind == "appid-diff":
        if len(ths) < 2:
            return None
        a, b = r.sample(ths, 2)
        a["appid"], b["appid"] = p["appid"], p["appid"] + r.choice([1, 2, 5])
    elif kind in ("rank-diff", "nranks-diff"):
        if len(ths) < 2 or p["rank"] is None:
            return None
        a, b = r.sample(ths, 2)
        a["rank"], a["nranks"] = p["rank"], p["nranks"]
        if kind == "rank-diff":
            b["rank"], b["nranks"] = (p["rank"] + 1) % p["nranks"], p["nranks"]
        else:
            b["rank"], b["nranks"] = p["rank"], p["nranks"] + 1
    elif kind == "index-two-phyids":
        t = r.choice(lths)
        i, _ = r.choice(l["cpus"])
        newphy = max(ph for _, ph in l["cpus"]) + r.choice([1, 5])
        t["cpus"] = list(t["cpus"] or [])
        t["cpus"].insert(r.randrange(0, len(t["cpus"]) + 1), (i, newphy))
    elif kind == "phyid-two-indexes":
        t = r.choice(lths)
        _, ph = r.choice(l["cpus"])
        t["cpus"] = list(t["cpus"] or [])
        t["cpus"].insert(r.randrange(0, len(t["cpus"]) + 1), (len(l["cpus"]) + r.choice([0, 1]), ph))
    elif kind == "dup-tid":
        t = r.choice(ths)
        d = dict(t)
        d["relpath"] = t["relpath"] + r.choice([".dup", "x", "/again"]) if r.random() < 0.7 else "0dup/" + t["relpath"]
        d["x"] = -1
        specs.append(d)
    elif kind == "missing-cpus":
        for t in lths:
            t["cpus"] = None
    elif kind == "missing-appid":
        for t in ths:
            t["appid"] = None
    elif kind == "rank-missing-proc":
        if p["rank"] is None or len(l["procs"]) < 2:
            return None
        for t in ths:
            t["rank"] = t["nranks"] = None
    elif kind == "nranks-missing":
        if p["rank"] is None:
            return None
        t = r.choice([t for t in ths if t["rank"] is not None])
        t["nranks"] = None
    elif kind == "rank-ge-nranks":
        if p["rank"] is None:
            return None
        for t in ths:
            if t["rank"] is not None:
                t["nranks"] = p["rank"]
        if p["rank"] == 0:
            return None
    elif kind == "rank-neg":
        for t in ths:
            if t["appid"] is not None or t["rank"] is not None:
                t["rank"], t["nranks"] = -1 - r.randrange(3), 4
    elif kind == "appid-nonpos":
        v = r.choice([0, -1, -7])
        for t in ths:
            if t["appid"] is not None:
                t["appid"] = v
    elif kind == "index-gap":
        n = len(l["cpus"])
        for t in lths:
            if t["cpus"]:
                t["cpus"] = [(i + 2 if i == n - 1 else i, ph) for (i, ph) in t["cpus"]]
    elif kind == "index-neg":
        t = r.choice([t for t in lths if t["cpus"]])
        t["cpus"] = list(t["cpus"]) + [(-1 - r.randrange(3), 40)]
    elif kind == "phyid-neg":
        t = r.choice([t for t in lths if t["cpus"]])
        t["cpus"] = list(t["cpus"]) + [(len(l["cpus"]), r.choice([-1, -2, -9]))]
    elif kind == "cpus-empty":
        cands = [t for t in lths if t["cpus"] is None] or lths
        r.choice(cands)["cpus"] = []
    elif kind == "not-finished":
        r.choice(srt)["finished"] = r.choice([0, None, 2])
    elif kind == "no-part":
        r.choice(srt)["part"] = None
    elif kind == "no-loom":
        r.choice(srt)["loom"] = None
    elif kind == "pid-zero":
        r.choice(srt)["pid"] = r.choice([0, None, -4])
    elif kind == "tid-zero":
        r.choice(srt)["tid"] = r.choice([0, None, -4])
    elif kind == "loom-slash":
        t = r.choice(srt)
        t["loom"] = t["loom"] + "/x"
        t["cpus"] = [(0, 0)]
    elif kind == "no-version":
        r.choice(srt)[r.choice(["ver", "commit"])] = 0
    else:
        raise ValueError(kind)
    return specs


# --------------------------------------------------------------------------
# Spec → trace / driver line
# --------------------------------------------------------------------------

def spec_stream(sp, k):
    s = Stream(tid=sp["tid"] if sp["tid"] is not None else 0, pid=sp["pid"] if sp["pid"] is not None else 0,
               loom=sp["loom"] or "", app_id=0)
    o = s.meta["ovni"]
    for key, val in (("part", sp["part"]), ("loom", sp["loom"]), ("pid", sp["pid"]), ("tid", sp["tid"]),
                     ("app_id", sp["appid"]), ("rank", sp["rank"]), ("nranks", sp["nranks"]),
                     ("finished", sp["finished"])):
        if val is None:
            o.pop(key, None)
        else:
            o[key] = val
    if sp["cpus"] is not None:
        o["loom_cpus"] = [{"index": i, "phyid": p} for (i, p) in sp["cpus"]]
    if not sp["ver"]:
        del o["lib"]["version"]
    if not sp["commit"]:
        del o["lib"]["commit"]
    s.relpath = sp["relpath"]
    s.ev(100 + 10 * k, "OHx", i32(sp["x"], -1) + u64(0))
    s.ev(5000 + 10 * k, "OHe")
    return s


def oi(v):
    return "N" if v is None else str(v)


def spec_line(sp):
    cpus = "N" if sp["cpus"] is None else ("-" if not sp["cpus"] else ",".join("%d:%d" % c for c in sp["cpus"]))
    return "stream %s %s %s %d %d %d %d %d %s %s %s %s x=%d" % (
        hx(sp["relpath"]), "N" if sp["part"] is None else hx(sp["part"]),
        "N" if sp["loom"] is None else hx(sp["loom"]), sp["pid"] or 0, sp["tid"] or 0, sp["finished"] or 0,
        1 if sp["ver"] else 0, 1 if sp["commit"] else 0, oi(sp["appid"]), oi(sp["rank"]), oi(sp["nranks"]), cpus,
        sp["x"])


def parse_spec_line(line):
    w = line.split()
    unhx = lambda t: None if t == "N" else ("" if t == "-" else bytes.fromhex(t).decode("latin1"))
    on = lambda t: None if t == "N" else int(t)
    cp = w[12]
    cpus = None if cp == "N" else ([] if cp == "-" else [tuple(int(x) for x in e.split(":")) for e in cp.split(",")])
    x = int(w[13][2:]) if len(w) > 13 else -1
    return {"relpath": unhx(w[1]), "part": unhx(w[2]), "loom": unhx(w[3]), "pid": int(w[4]), "tid": int(w[5]),
            "finished": int(w[6]), "ver": int(w[7]), "commit": int(w[8]), "appid": on(w[9]), "rank": on(w[10]),
            "nranks": on(w[11]), "cpus": cpus, "x": x}


def model_lines(specs, order=None):
    idx = list(order) if order is not None else list(range(len(specs)))
    return ["reset"] + [" ".join(spec_line(specs[i]).split()[:13]) for i in idx] + ["build asis", "build fixed"]


def model_rows(out):
    """'ok R=.. T=a.t,... C=i.p,...' → (thread rows, cpu rows) as row names"""
    w = out.split()
    t = w[2][2:]
    c = w[3][2:]
    trows = [] if t == "-" else ["TH " + x for x in t.split(",")]
    crows = []
    for x in ([] if c == "-" else c.split(",")):
        crows.append(("vCPU " + x) if x.endswith(".*") else (" CPU " + x))
    return trows, crows


class Case:
    def __init__(self, group, kind, specs, order=None, expect=None, world=None):
        self.group, self.kind, self.specs, self.order = group, kind, specs, order
        self.expect = expect      # "ok" | "reject"
        self.world = world
        self.asis = self.fixed = None

    def replay(self):
        idx = list(self.order) if self.order is not None else list(range(len(self.specs)))
        return "\n".join(spec_line(self.specs[i]) for i in idx) + "\n"


def run_impl(bdir, d, case):
    td = os.path.join(d, "t")
    idx = list(case.order) if case.order is not None else list(range(len(case.specs)))
    streams = [spec_stream(case.specs[i], i) for i in range(len(case.specs))]
    write_trace(td, streams, order=idx)
    rc, err = run_emu(bdir, td)
    v = verdict(rc, err)
    out = {"verdict": v, "err": err}
    if v == "ok":
        out["trows"], out["tn"] = read_rows(os.path.join(td, "thread.row"))
        out["crows"], out["cn"] = read_rows(os.path.join(td, "cpu.row"))
        pt, pc = Prv(os.path.join(td, "thread.prv")), Prv(os.path.join(td, "cpu.prv"))
        out["tl"] = (pt.nrows, pt.timeline(), pc.nrows, pc.timeline())
    return out


# --------------------------------------------------------------------------

def corpus_cases():
    """Fixed inputs that run first: the witnesses of Props/C15.lean (DESIGN §6-B)
    and their well-behaved siblings."""
    w2 = {"looms": [{"name": "n", "cpus": [(0, 0), (1, 1)],
                     "procs": [{"pid": 1, "appid": 1, "rank": None, "nranks": None, "tids": [1, 2]}]}], "ties": False}
    out = []

    def mk(kind, c1, c2, expect, world=w2):
        specs = base_specs(w2)
        for s in specs:
            s["x"] = -1
        specs[0]["appid"] = 1
        specs[0]["cpus"], specs[1]["cpus"] = c1, c2
        out.append(Case("corpus", kind, specs, None, expect, world))

    mk("corpus:ascending", [(0, 0), (1, 1)], None, "ok")
    mk("corpus:descending", [(1, 1), (0, 0)], None, "ok")                 # wDesc
    mk("corpus:split-ascending", [(0, 0)], [(1, 1)], "ok")
    mk("corpus:split-descending", [(1, 1)], [(0, 0)], "ok")
    mk("corpus:duplicated", [(0, 0), (1, 1), (0, 0)], [(1, 1), (0, 0)], "ok")
    mk("corpus:index-two-phyids", [(0, 0), (0, 5)], None, "reject", None)      # wTwoPhy
    mk("corpus:index-two-phyids-high", [(1, 0), (1, 5)], None, "reject", None)
    mk("corpus:phyid-two-indexes", [(0, 0), (1, 0)], None, "reject", None)
    return out


def gen_cases(r, tier, res):
    cases = corpus_cases()
    nworlds = 150 if tier == "quick" else 1500
    for g in range(nworlds):
        world = gen_world(r, res)
        group = "w%d" % g
        # base + metamorphic variants of the same world
        combos = [("all", "all"), ("first", "first"), ("last", "last")]
        combos += [(r.choice(PROC_HOW), r.choice(CPU_HOW)) for _ in range(7)]
        for (ph, ch) in combos:
            specs = variant(r, world, ph, ch)
            order = None
            if r.random() < 0.6:
                order = list(range(len(specs)))
                r.shuffle(order)
            cases.append(Case(group, "variant:%s/%s" % (ph, ch), specs, order, "ok", world))
        # relpaths renamed: ranks are distinct in generated worlds, so even the
        # names of the directories must not matter
        if not world["ties"]:
            specs = variant(r, world, "random", "all")
            names = r.sample(range(1000), len(specs))
            for s, nm in zip(specs, names):
                s["relpath"] = r.choice(["s%03d", "d/%d/e", "loom.q/proc.%d/thread.1"]) % nm
            cases.append(Case(group, "variant:renamed-relpaths", specs, None, "ok", world))
        # single contradictions
        kinds = PROPERTY_CONTRADICTIONS + r.sample(OTHER_CONTRADICTIONS, 4 if tier == "quick" else 10)
        for kind in kinds:
            specs = contradict(r, world, kind)
            if specs is None:
                continue
            cases.append(Case(group, "contra:" + kind, specs, None, "reject", world))
    # bounded-exhaustive: one loom, one process, two threads; every pair of CPU
    # lists over the loom's CPUs (with repetition) x every app_id placement
    ncpu = 2 if tier == "quick" else 3
    maxlen = 2 if tier == "quick" else 3
    world = {"looms": [{"name": "n", "cpus": [(i, 3 * i + 1) for i in range(ncpu)],
                        "procs": [{"pid": 7, "appid": 2, "rank": None, "nranks": None, "tids": [5, 6]}]}]}
    lists = [None]
    for n in range(1, maxlen + 1):
        lists += [list(t) for t in itertools.product(world["looms"][0]["cpus"], repeat=n)]
    k = 0
    for la in lists:
        for lb in lists:
            for ap in ((1, 0), (0, 1), (1, 1)):
                if tier == "thorough" and k % 3 != (vcommon.seed() % 3) and len(la or []) + len(lb or []) > 4:
                    k += 1
                    continue
                k += 1
                specs = base_specs(world)
                specs[0]["cpus"], specs[1]["cpus"] = la, lb
                for s, a in zip(specs, ap):
                    s["appid"] = 2 if a else None
                for s in specs:
                    s["x"] = -1
                # the union of the CPU lists is the loom; it is consistent iff its
                # indices are exactly 0..k-1 (phyids are distinct by construction)
                union = sorted(set(la or []) | set(lb or []))
                okw = len(union) > 0 and [i for (i, _) in union] == list(range(len(union)))
                exp = "ok" if okw else "reject"
                w2 = {"looms": [dict(world["looms"][0], cpus=union)]}
                cases.append(Case("exh%d" % len(union), "exh:" + exp, specs, None, exp, w2))
    return cases


def check(res, tier, replay=None):
    res.cov["rule"] = ("fixed corpus (the Lean witnesses of DESIGN 6-B and siblings) + random worlds (1-3 looms x 1-3 "
                       "processes x 1-3 threads, 1-4 CPUs with arbitrary physical ids, ranks none/all/some looms/tied) -> "
                       "10-11 metamorphic distributions each (app_id/rank on all/first/last/random threads; CPU lists on "
                       "all/first/last thread, split, shuffled, reversed, duplicated; directory creation order "
                       "shuffled; directories renamed when ranks do not tie) + every single contradiction of the "
                       "property + other malformed metadata; bounded-exhaustive pairs of CPU lists for a 2-thread loom. "
                       "Each trace: real ovniemu (exit status/signal, thread.row, cpu.row, PRV timelines) vs Lean build "
                       "(asis and fixed) vs rows computed in Python from the world. non-trivial = ovniemu reached "
                       "system_init")
    res.assumptions = ["JSON numbers in the metadata are integers that fit an int (parson, (int) casts modelled as identity)",
                       "uthash iterates in insertion order; HASH_SORT/DL_SORT are stable (modelled by a stable insertion sort)",
                       "nftw enumeration order is arbitrary; trace_load sorts by strcmp(relpath) (modelled)"]
    prep = engine.prepare(res, drivers=("drv_system",))
    proved = vcommon.prove(res, "C15")
    found = False

    def viol(key, text, rep):
        res.dist("violation:" + key.split(":")[0])
        if os.environ.get("C15_DEBUG"):
            vcommon.log("VIOL", key, text[:200])
        res.violation(key, text, rep)

    if prep.bdir and prep.driver_ok:
        r = vcommon.rng("c15")
        drv = engine.exe("drv_system")
        if replay:
            lines = [l.strip() for l in open(replay) if l.startswith("stream ")]
            specs = [parse_spec_line(l) for l in lines]
            first = open(replay).readline()
            exp = "reject" if "expect=reject" in open(replay).read() else "ok"
            cases = [Case("replay", "replay", specs, None, exp, None)]
        else:
            cases = gen_cases(r, tier, res)
        # model, one batch
        lines = []
        for c in cases:
            lines += model_lines(c.specs, c.order)
        _, mout, merr = engine.run_lines(drv, lines)
        pos = 0
        for c in cases:
            n = len(c.specs) + 3
            blk = mout[pos:pos + n]
            pos += n
            c.asis, c.fixed = (blk[-2], blk[-1]) if len(blk) == n else ("<missing>", "<missing>")
        crash_min = None
        base = {}     # group -> reference (rows, timelines) of the first ok variant
        with Scratch("c15") as d:
            for ci, c in enumerate(cases):
                out = run_impl(prep.bdir, d, c)
                v = out["verdict"]
                canon = c.kind + "|" + c.replay()
                res.case(canon, nontrivial=True)
                res.dist("kind:" + c.kind.split("/")[0] if c.kind.startswith("variant") else "kind:" + c.kind)
                res.dist("impl:" + v)
                res.dist("model-asis:" + " ".join(c.asis.split()[:2 if c.asis.startswith("error") else 1]))
                if c.kind.startswith("variant") or c.kind.startswith("exh:ok"):
                    asc = cpu_first_appearance_ascending(c.specs)
                    res.dist("cpu-first-appearance-ascending:%s" % asc)
                    # reading of the crash hypothesis of the _partial theorems: on a
                    # consistent union the code as it is crashes exactly when the CPUs of
                    # some loom do not first appear in ascending index order
                    if asc != (c.asis != "crash"):
                        found = True
                        viol("crash-hypothesis-reading:" + c.kind,
                             "model asis=%s but first-appearance-ascending=%s" % (c.asis[:40], asc), c.replay())
                if ci % 97 == 0:
                    res.sample({"kind": c.kind, "streams": c.replay().split("\n")[:3], "ovniemu": v,
                                "model_asis": c.asis[:80], "model_fixed": c.fixed[:80]}, limit=8)
                hdr = "# %s %s expect=%s\n" % (c.group, c.kind, c.expect)
                tail = "# ovniemu: %s\n# model asis: %s\n# model fixed: %s\n# stderr tail:\n# %s\n" % (
                    v, c.asis, c.fixed, "\n# ".join([l for l in out["err"].strip().split("\n") if "ERROR" in l][:6] + out["err"].strip().split("\n")[-3:]))
                rep = hdr + c.replay() + tail
                # ---- O1: never a crash
                if v not in ("ok", "reject"):
                    found = True
                    if c.asis == "crash" and v.startswith("crash"):
                        # one finding, many inputs: keep the smallest one
                        res.dist("violation:" + CRASH_KEY)
                        size = (len(c.specs), sum(len(s["cpus"] or []) for s in c.specs))
                        if crash_min is None or size < crash_min[0]:
                            crash_min = (size, v, c, rep)
                    else:
                        viol("abnormal-exit:" + c.kind, "ovniemu verdict %s (model asis: %s)" % (v, c.asis[:60]), rep)
                    continue
                # ---- O2/O3: the property oracle on the implementation's output
                if v != c.expect:
                    found = True
                    key = ("contradiction-accepted:" if c.expect == "reject" else "valid-distribution-refused:") + c.kind
                    viol(key, "ovniemu verdict %s, the property demands %s" % (v, c.expect), rep)
                    continue
                if v == "ok" and c.world is not None:
                    et, ec = expected_rows(c.world, c.specs)
                    if out["trows"] != et or out["crows"] != ec or out["tn"] != len(et) or out["cn"] != len(ec):
                        found = True
                        viol("rows-differ-from-spec:" + c.kind,
                                      "row files differ from the order the property demands",
                                      rep + "# thread.row: %s\n# expected:   %s\n# cpu.row:  %s\n# expected: %s\n" % (
                                          out["trows"], et, out["crows"], ec))
                        continue
                    ref = base.setdefault(c.group, (c, out))
                    if (out["trows"], out["crows"], out["tl"]) != (ref[1]["trows"], ref[1]["crows"], ref[1]["tl"]):
                        found = True
                        viol("variants-differ:" + c.kind,
                                      "two distributions of the same metadata give different rows or PRV timelines",
                                      rep + "# reference variant:\n" + ref[0].replay())
                        continue
                # ---- correspondence with the Lean model
                # the code now in /repo looks the index up among the CPUs loaded so far
                # (fix: f0b14dc): it is the `fixed` model; `asis` is kept for the witness theorems
                model = c.fixed
                mv = "ok" if model.startswith("ok ") else ("reject" if model.startswith("error ") else model)
                bad = mv != v
                if not bad and v == "ok":
                    mt, mc = model_rows(model)
                    bad = (mt, mc) != (out["trows"], out["crows"])
                if bad:
                    found = True
                    viol("model-mismatch:" + c.kind, "ovniemu (%s) and the Lean model (%s) disagree" % (v, model[:80]),
                                  rep + ("# thread.row %s\n# cpu.row %s\n" % (out.get("trows"), out.get("crows"))))
        if crash_min is not None:
            _, v, c, rep = crash_min
            n = res.cov["distribution"].get("violation:" + CRASH_KEY, 0)
            res.violation(CRASH_KEY,
                          "ovniemu died with a signal (%s) instead of accepting or refusing, on %d generated inputs "
                          "(smallest one below): load_cpus -> loom_get_cpu indexes cpus_array before loom_init_end "
                          "allocates it (model: build asIs = crash; fixed model: %s)" % (v, n, c.fixed[:60]), rep)
    for pr in prep.problems:
        res.failed_obligations = getattr(res, "failed_obligations", []) + [pr]
        proved = False
    if not proved:
        vcommon.obligations_failed(res, found)
