"""C10 — I/O faults are never silent: after a single failing libc call the
runtime aborts or leaves a complete trace; it never destroys the only complete
copy of a stream."""
import os
import shutil
from concurrent.futures import ThreadPoolExecutor

import engine
import fs_lib
import rt_lib
import vcommon
from ovnitrace import Scratch

PID = "C10"
WHATS = ["ENOSPC", "EIO", "EACCES", "EINTR", "short"]
REPORTED = set()
# the readdir order only matters to the code before `fix: relocate stream.obs before stream.json`
CONFIGS = [("direct", False, None), ("tmp-obs-first", True, ".:oj"), ("tmp-json-first", True, ".:jo")]


def site_key(calls, i, cfgname):
    """Stable key of the call site that failed (index i of the fault-free log)."""
    c = calls[i] if i < len(calls) else "?"
    kind = c.split(":")[0]
    # the relocation is everything after close(streamfd)
    opened = next((j for j, x in enumerate(calls) if x == "close"), None)
    if kind == "close":
        return "close-streamfd-unchecked"
    if kind == "opendir":
        return "move-opendir-failure-silent"
    if kind == "readdir":
        return "move-readdir-failure-silent"
    if opened is not None and i > opened and kind in ("fopen", "fread", "fwrite", "fclose"):
        return "move-ignores-copy-errors"
    return "c10:oracle:%s:%s" % (cfgname, kind)


def fault_oracle(emu, sub, k, script, run, has_free, failed_kind):
    """Independent oracle on the implementation: (1) a normal return means the
    final tree is complete and valid; (2) whatever the outcome, a complete copy
    of everything flushed still exists somewhere (except after an abort caused
    by a failed close(): there the injected fault itself is the loss of the
    last write and aborting is all the runtime can do)."""
    probs = []
    fin = os.path.join(sub, "s%d" % k)
    tmp = os.path.join(sub, "s%d.tmp" % k)
    upto = None if run.cls == "returned" else run.at
    must = fs_lib.flushed_user_events(script, upto)
    nmark = fs_lib.flush_markers_expected(script, upto)

    def obs_of(root):
        out = []
        for d, dn, fn in os.walk(root):
            if "stream.obs" in fn:
                out.append(open(os.path.join(d, "stream.obs"), "rb").read())
        return out
    if run.cls == "returned":
        streams = fs_lib.visible_streams(fin) if os.path.isdir(fin) else []
        if not streams:
            probs.append("returned normally but the final trace has no stream")
        for sd in streams:
            if has_free and not fs_lib.json_finished(os.path.join(sd, "stream.json")):
                probs.append("returned normally but the final stream.json is not complete (finished flag missing or unparsable)")
            try:
                data = open(os.path.join(sd, "stream.obs"), "rb").read()
            except OSError:
                probs.append("returned normally but the final stream.obs is missing")
                continue
            why = fs_lib.stream_has(data, must, nmark)
            if why:
                probs.append("returned normally but the final stream.obs lost flushed events: " + why)
        if not probs and has_free:
            v = emu.verdict(fin)
            emu.res.dist("emu:" + v)
            if not v.startswith("ok"):
                probs.append("returned normally but ovniemu does not accept the final trace: " + v)
    if (must or nmark) and not (failed_kind == "close" and run.cls == "die"):
        copies = obs_of(fin) + (obs_of(tmp) if os.path.isdir(tmp) else [])
        if not any(fs_lib.stream_has(c, must, nmark) is None for c in copies):
            probs.append("no complete copy of the flushed stream is left (outcome %s)" % run.outcome)
    return probs


def replay_text(cfg, spec, script):
    return "cfg %s %s fault %s\n%s\n" % ("t" if cfg[1] else "d", cfg[2] or "native", spec, script)


def same_trace(mcalls, icalls, fi):
    if len(mcalls) != len(icalls):
        return False
    for j, (a, b) in enumerate(zip(mcalls, icalls)):
        if j == fi:
            if a.split(":")[0] != b.split(":")[0]:
                return False
        elif a != b:
            return False
    return True


def run_config(res, h, drv, emu, d, cfg, scripts, specs=None):
    name, tmp, order = cfg
    found = False
    viol = []
    sub0 = os.path.join(d, name + "-ref")
    ref = fs_lib.run_harness(h, sub0, scripts, tmp, order)
    nanc = fs_lib.anc_count(sub0)
    shutil.rmtree(sub0, ignore_errors=True)
    maxn = max(r.ncalls for r in ref)
    if specs is None:
        specs = ["any:%d:%s" % (n, w) for n in range(1, maxn + 1) for w in WHATS]

    def one(spec):
        sub = os.path.join(d, "%s-%s" % (name, spec.replace(":", "_")))
        return spec, sub, fs_lib.run_harness(h, sub, scripts, tmp, order, fault=spec)

    with ThreadPoolExecutor(max_workers=max(2, vcommon.NCPU // 2)) as ex:
        results = list(ex.map(one, specs))
    qlines, qmeta = [], []
    for spec, sub, runs in results:
        kind, n, what = spec.split(":")
        n = int(n)
        for k in range(len(scripts)):
            if kind == "any":
                if ref[k].ncalls < n:
                    continue
                idx = n - 1
            else:
                # n-th call of that kind in the fault-free log
                hits = [j for j, c in enumerate(ref[k].calls) if c.split(":")[0] == kind]
                if len(hits) < n:
                    continue
                idx = hits[n - 1]
            kept = 0
            if ref[k].calls[idx] == "fclose":
                j = idx - 1
                sizes = []
                while j >= 0 and not (ref[k].calls[j].startswith("fopen:") and ref[k].calls[j].endswith(":w")):
                    if ref[k].calls[j].split(":")[0] in ("fwrite", "fputs"):
                        sizes.insert(0, int(ref[k].calls[j].split(":")[1]))
                    j -= 1
                kept = fs_lib.stdio_on_disk(sizes)
            qlines.append(fs_lib.model_line("fault %d %s %d" % (idx, what, kept), tmp, nanc, ref[k].order(), ref[k].jsizes(), scripts[k]))
            qmeta.append((spec, sub, k, runs[k], idx, what))
    _, mout, _ = engine.run_lines(drv, qlines)
    for j, (spec, sub, k, run, idx, what) in enumerate(qmeta):
        sc = scripts[k]
        call = ref[k].calls[idx]
        ckind = call.split(":")[0]
        res.case("fault:%s:%s:%s" % (name, spec, sc), nontrivial=True)
        res.dist("fault-injected:%s:%s" % (ckind, what))
        if run.nfaults:
            res.dist("fault-fired:%s" % what, run.nfaults)
            res.cov["faults_fired"] = res.cov.get("faults_fired", 0) + run.nfaults
        else:
            res.dist("fault-not-fired")
        res.dist("outcome:%s:%s" % (name, run.cls))
        moc, kv = fs_lib.parse_model(mout[j] if j < len(mout) else "<missing>")
        if kv.get("fired") == "1":
            res.dist("fault-effective(model):%s" % what)
        what_diff = None
        if run.cls not in ("returned", "die"):
            what_diff = "impl outcome %s" % run.outcome
        elif moc != run.cls:
            what_diff = "outcome impl=%s model=%s" % (run.outcome, moc)
        elif not same_trace(kv.get("trace", "").split(","), run.calls, idx if kv.get("fired") == "1" else -1):
            mc = kv.get("trace", "").split(",")
            i = next((i for i, (a, b) in enumerate(zip(mc, run.calls)) if a != b and i != idx), min(len(mc), len(run.calls)))
            what_diff = "call list after the fault differs at #%d: model %s impl %s" % (i, mc[i:i + 2], run.calls[i:i + 2])
        else:
            diffs = fs_lib.fs_matches(fs_lib.snapshot(sub, k), fs_lib.parse_fs(kv.get("fs", "")), exact=True)
            if diffs:
                what_diff = "directory contents differ: " + "; ".join(diffs[:3])
        if what_diff:
            res.cov.setdefault("correspondence_breaks", []).append(
                {"script": sc[:300], "what": "%s: fault %s on call #%d (%s): %s" % (name, what, idx, call, what_diff)})
        probs = fault_oracle(emu, sub, k, sc, run, "free" in fs_lib.script_ops(sc), ckind if run.nfaults else None)
        if run.cls not in ("returned", "die") and run.nfaults:
            # neither a normal return nor a diagnostic + abort: a signal or a sanitizer report after the
            # injected fault (memory error on the error path) is not "terminates with a diagnostic"
            probs = ["the runtime neither returned nor died with a diagnostic after the fault: %s" % run.outcome] + probs
        if probs:
            found = True
            key = site_key(ref[k].calls, idx, name)
            res.dist("violation:" + key)
            viol.append((key, "libovni (%s) with %s injected into call #%d (%s): %s" % (name, what, idx, call, "; ".join(probs)),
                         replay_text(cfg, "any:%d:%s" % (idx + 1, what), sc) + "# outcome: " + run.outcome + "\n# " + "\n# ".join(probs)))
    for key, text, rep in viol:        # one report per key
        if key in REPORTED:
            continue
        REPORTED.add(key)
        res.violation(key, text, rep)
    for spec, sub, runs in results:
        shutil.rmtree(sub, ignore_errors=True)
    return found


def load_replay(path):
    out = []
    lines = [l.strip() for l in open(path) if l.strip() and not l.startswith("#")]
    for i in range(0, len(lines) - 1, 2):
        t = lines[i].split()
        if t[0] != "cfg":
            continue
        out.append((("replay", t[1] == "t", None if t[2] == "native" else t[2]), t[4], lines[i + 1]))
    return out


def check(res, tier, replay=None):
    res.cov["rule"] = ("conformant single-thread programs run on the real libovni (direct and OVNI_TMPDIR mode, both readdir "
                       "orders, which only matter to the code before the fix); for EVERY intercepted libc call index and each of ENOSPC/EIO/EACCES/EINTR/short one run with that "
                       "call failing; abort vs. return, the calls made after the fault and the final directory contents must "
                       "equal the model's prediction; oracle on the implementation: returned normally => final trace complete "
                       "(finished marker, every flushed event, accepted by ovniemu -l) and, whatever the outcome, a complete "
                       "copy of the flushed stream still exists. distinct by (config, fault, script)")
    res.assumptions = ["a failed fclose discards the stdio buffer; a failed close means the last write did not reach the file "
                       "(deferred write error); a failed fwrite/fputs transfers nothing, a short one half of the data",
                       "one fault per run; errno classes ENOSPC/EIO/EACCES/EINTR (the runtime treats every errno alike)"]
    prep = engine.prepare(res, drivers=("drv_fs",))
    proved = vcommon.prove(res, "C10")
    found = False
    if prep.bdir and prep.driver_ok:
        h = rt_lib.build_harness(prep.bdir)
        drv = engine.exe("drv_fs")
        emu = fs_lib.EmuCache(prep.bdir, res)
        r = vcommon.rng("c10")
        with Scratch("c10") as d:
            if replay:
                for cfg, spec, sc in load_replay(replay):
                    found |= run_config(res, h, drv, emu, d, cfg, [sc], specs=[spec])
            else:
                nrand, nbound = (4, 1) if tier == "quick" else (60, 15)
                scripts = [fs_lib.gen_prog(r, res) for _ in range(nrand)] + [fs_lib.gen_prog(r, res, boundary=True) for _ in range(nbound)]
                for sc in scripts[:2]:
                    res.sample({"script": sc[:300]})
                for cfg in CONFIGS:
                    found |= run_config(res, h, drv, emu, d, cfg, scripts)
                    # per-kind counting as well (the n-th call of one kind)
                    kinds = ["mkdir", "stat", "open", "write", "close", "fopen", "fputs", "fwrite", "fread", "fclose",
                             "opendir", "readdir", "closedir", "remove", "rmdir"]
                    specs = ["%s:%d:%s" % (kd, n, w) for kd in kinds for n in (1, 2) for w in ("EIO", "EINTR", "short")]
                    found |= run_config(res, h, drv, emu, d, (cfg[0] + "-bykind", cfg[1], cfg[2]), scripts[:2], specs=specs)
        res.cov["emulator_runs"] = emu.runs
        for b in res.cov.get("correspondence_breaks", [])[:3]:
            proved = False
            res.failed_obligations = getattr(res, "failed_obligations", []) + ["correspondence fs: " + b["what"] + " on: " + b["script"]]
    for pr in prep.problems:
        res.failed_obligations = getattr(res, "failed_obligations", []) + [pr]
        proved = False
    if not proved:
        vcommon.obligations_failed(res, found)
