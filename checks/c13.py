"""C13 — Paraver output is well-formed and self-consistent."""
import c04
import emu_lib
import emu_props
import engine
import vcommon

PID = "C13"


def check(res, tier, replay=None):
    res.cov["rule"] = ("accepted (and rejected) traces over all table-driven models, 1-2 looms, several processes/threads/CPUs, "
                       "from the mixed history generator; for every accepted trace independent parsers check thread/cpu "
                       ".prv (non-decreasing time, rows in range, header duration = last event time, declared row count), "
                       ".pcf (every type used is declared, every non-zero value of a type with a value table is labelled) and "
                       ".row (count and names in the documented order); the Lean reference emulator must produce the same "
                       "timelines. non-trivial = at least one event; distinct by script")
    prep = engine.prepare(res, drivers=("drv_emu",))
    proved = vcommon.prove(res, "C13")
    found = False
    if prep.bdir and prep.driver_ok:
        r = vcommon.rng("c13")
        tabs = emu_props.load_tables()
        n = 450 if tier == "quick" else 6000
        cases = [emu_props.gen_mixed(r, res, tabs, p_illegal=0.08, maxlen=50) for _ in range(n)]
        found = c04.run_cases(res, prep, cases, "c13", None, post=emu_lib.pv_oracle)
        res.cov["accepted_traces_checked"] = res.cov["distribution"].get("ovniemu:ok", 0)
        for b in res.cov.get("correspondence_breaks", [])[:3]:
            proved = False
            res.failed_obligations = getattr(res, "failed_obligations", []) + ["correspondence emu: " + b["what"] + "\n" + b["script"]]
    for pr in prep.problems:
        res.failed_obligations = getattr(res, "failed_obligations", []) + [pr]
        proved = False
    if not proved:
        vcommon.obligations_failed(res, found)
