"""C13 — Paraver output is well-formed and self-consistent."""
import os

import c04
import c07
import emu_lib
import emu_props
import engine
import vcommon

PID = "C13"


def task_type_cases(r, tabs, n):
    """Several processes whose task types partially overlap (same label in two
    processes, plus labels only one process has); every process runs a task of
    each of its types, so every task-type value must be labelled in the PCF."""
    out = []
    pool = [b"alpha", b"beta", b"gamma", b"delta", b"eps"]
    for i in range(n):
        sc = c07.Scenario()
        sc.model = r.choice(["V", "6"])
        sc.note = "pcf-task-types"
        nproc = r.choice([2, 2, 3])
        sc.procs = []
        evs = []
        tid = 100
        for p in range(nproc):
            labs = r.sample(pool, r.randrange(1, 4))
            # processes spread over one to three looms (the PCF must collect the task types of all of them)
            pr = dict(pid=10 + p, appid=1 + p, rank=None, threads=[tid], labels={}, loom="node%d" % r.choice([0, 0, 1, 2]))
            sc.procs.append(pr)
            for k, lab in enumerate(labs):
                typeid = 1 + k
                pr["labels"][typeid] = lab
                evs.append((pr["pid"], ("type", tid, typeid, lab)))
            tid += 1
        taskid = 1
        for pr in sc.procs:
            t = pr["threads"][0]
            for typeid in pr["labels"]:
                evs.append((pr["pid"], ("create", t, "c", taskid, typeid)))
                evs.append((pr["pid"], ("task", t, "x", taskid, 0)))
                evs.append((pr["pid"], ("task", t, "e", taskid, 0)))
                taskid += 1
        sc.events = evs
        out.append(sc)
    return out


def breakdown_cases(r, tabs, n):
    """`ovniemu -b`: one to three looms (each with its own virtual CPU), Nanos6
    or nOS-V threads entering and leaving a subsystem region."""
    from ovnitrace import Stream, i32, u64
    out = []
    for i in range(n):
        model = r.choice(["nanos6", "nosv"])
        tab = tabs[model]
        mch = chr(tab["char"])
        pushes = [rw for rw in tab["table"] if rw[3] == 1]
        nlooms = r.choice([1, 2, 2, 3])
        streams = []
        clk = 100
        for li in range(nlooms):
            ncpu = r.choice([1, 2])
            for t in range(r.choice([1, 2])):
                s = Stream(loom="node%d" % li, pid=10 + li, tid=100 + 10 * li + t, app_id=1 + li,
                           require={"ovni": tabs["ovni"]["version"], model: tab["version"]},
                           cpus=[(c, c) for c in range(ncpu)] if t == 0 else None)
                if model == "nosv":
                    s.meta["nosv"] = {"can_breakdown": True}
                cpu = t % ncpu if t < ncpu else -1
                clk += 3
                s.ev(clk, "OHx", i32(cpu, -1) + u64(0))
                for _ in range(r.randrange(1, 4)):
                    (c, v, ch, act, val) = r.choice(pushes)
                    pops = [rw for rw in tab["table"] if rw[3] == 2 and rw[2] == ch and rw[4] == val]
                    if not pops or (model in ("nosv", "nanos6") and chr(c) in "TY"):
                        continue
                    clk += 5
                    s.ev(clk, mch + chr(c) + chr(v))
                    clk += 5
                    s.ev(clk, mch + chr(pops[0][0]) + chr(pops[0][1]))
                clk += 4
                s.ev(clk, "OHe")
                streams.append(s)
        out.append((model, streams))
    return out


def run_extra(res, prep, tabs, tier):
    """task-type PCF labels and breakdown traces: files self-check."""
    import shutil
    from ovnitrace import Scratch, run_emu, verdict, write_trace
    r = vcommon.rng("c13x")
    found = False
    n1, n2 = (60, 60) if tier == "quick" else (600, 600)
    with Scratch("c13x") as d:
        for k, sc in enumerate(task_type_cases(r, tabs, n1)):
            streams, clocks, base = c07.scenario_streams(sc, tabs)
            td = os.path.join(d, "t")
            write_trace(td, streams)
            rc, err = run_emu(prep.bdir, td, ["-l"])
            v = verdict(rc, err)
            res.case("task-types:%d:%s" % (k, sc.model) + repr(sc.events)[:2000])
            res.dist("extra:task-types:" + v)
            probs = emu_lib.pv_selfcheck(td) if v == "ok" else ([] if v == "reject" else ["ovniemu " + v])
            if v == "reject":
                probs = ["a legal multi-process task-type history was rejected: " + err[-300:]]
            if probs:
                found = True
                res.violation("c13:task-types:" + probs[0][:50].replace(" ", "_"), "; ".join(probs[:3]),
                              "model %s procs %r\nevents %r\n# %s" % (sc.model, sc.procs, sc.events, "\n# ".join(probs[:5])))
            shutil.rmtree(td, ignore_errors=True)
        for k, (model, streams) in enumerate(breakdown_cases(r, tabs, n2)):
            td = os.path.join(d, "b")
            write_trace(td, streams)
            rc, err = run_emu(prep.bdir, td, ["-b", "-l"])
            v = verdict(rc, err)
            res.case("breakdown:%d:%s:%d" % (k, model, len(streams)) + "".join(s.relpath for s in streams))
            res.dist("extra:breakdown:" + v)
            res.dist("extra:breakdown-looms:%d" % len({s.loom for s in streams}))
            probs = emu_lib.pv_selfcheck(td) if v == "ok" else ["ovniemu -b " + v + ": " + err[-300:]]
            if probs:
                found = True
                res.violation("c13:breakdown:" + probs[0][:50].replace(" ", "_"), "; ".join(probs[:3]),
                              "model %s streams %r\n# %s" % (model, [(s.relpath, len(s.events)) for s in streams], "\n# ".join(probs[:5])))
            shutil.rmtree(td, ignore_errors=True)
    return found


def check(res, tier, replay=None):
    res.cov["rule"] = ("accepted (and rejected) traces over all table-driven models, 1-2 looms, several processes/threads/CPUs, "
                       "from the mixed history generator; for every accepted trace independent parsers check thread/cpu "
                       ".prv (non-decreasing time, rows in range, header duration = last event time, declared row count), "
                       ".pcf (every type used is declared, every non-zero value of a type with a value table is labelled) and "
                       ".row (count and names in the documented order); the Lean reference emulator must produce the same "
                       "timelines. non-trivial = at least one event; distinct by script")
    prep = engine.prepare(res, drivers=("drv_emu",))
    proved = vcommon.prove(res, "C13")
    found = False
    if prep.bdir and prep.driver_ok:
        r = vcommon.rng("c13")
        tabs = emu_props.load_tables()
        n = 450 if tier == "quick" else 6000
        cases = [emu_props.gen_mixed(r, res, tabs, p_illegal=0.08, maxlen=50) for _ in range(n)]
        found = c04.run_cases(res, prep, cases, "c13", None, post=emu_lib.pv_oracle)
        found = run_extra(res, prep, tabs, tier) or found
        res.cov["accepted_traces_checked"] = res.cov["distribution"].get("ovniemu:ok", 0)
        for b in res.cov.get("correspondence_breaks", [])[:3]:
            proved = False
            res.failed_obligations = getattr(res, "failed_obligations", []) + ["correspondence emu: " + b["what"] + "\n" + b["script"]]
    for pr in prep.problems:
        res.failed_obligations = getattr(res, "failed_obligations", []) + [pr]
        proved = False
    if not proved:
        vcommon.obligations_failed(res, found)
