"""C13 — Paraver output is well-formed and self-consistent."""
import os

import c04
import c07
import c07_lib
import c13_lib
import c17
import emu_lib
import emu_props
import engine
import vcommon

PID = "C13"


def task_type_cases(r, tabs, n):
    """Several processes whose task types partially overlap (same label in two
    processes, plus labels only one process has); every process runs a task of
    each of its types, so every task-type value must be labelled in the PCF."""
    out = []
    pool = [b"alpha", b"beta", b"gamma", b"delta", b"eps"]
    for i in range(n):
        sc = c07.Scenario()
        sc.model = r.choice(["V", "6"])
        sc.note = "pcf-task-types"
        nproc = r.choice([2, 2, 3])
        sc.procs = []
        evs = []
        tid = 100
        for p in range(nproc):
            labs = r.sample(pool, r.randrange(1, 4))
            # processes spread over one to three looms (the PCF must collect the task types of all of them)
            pr = dict(pid=10 + p, appid=1 + p, rank=None, threads=[tid], labels={}, loom="node%d" % r.choice([0, 0, 1, 2]))
            sc.procs.append(pr)
            for k, lab in enumerate(labs):
                typeid = 1 + k
                pr["labels"][typeid] = lab
                evs.append((pr["pid"], ("type", tid, typeid, lab)))
            tid += 1
        taskid = 1
        for pr in sc.procs:
            t = pr["threads"][0]
            for typeid in pr["labels"]:
                evs.append((pr["pid"], ("create", t, "c", taskid, typeid)))
                evs.append((pr["pid"], ("task", t, "x", taskid, 0)))
                evs.append((pr["pid"], ("task", t, "e", taskid, 0)))
                taskid += 1
        sc.events = evs
        out.append(sc)
    return out


def breakdown_cases(r, tabs, n):
    """`ovniemu -b`: one to three looms (each with its own virtual CPU), Nanos6
    or nOS-V threads entering and leaving a subsystem region."""
    from ovnitrace import Stream, i32, u64
    out = []
    for i in range(n):
        model = r.choice(["nanos6", "nosv"])
        tab = tabs[model]
        mch = chr(tab["char"])
        pushes = [rw for rw in tab["table"] if rw[3] == 1]
        nlooms = r.choice([1, 2, 2, 3])
        streams = []
        clk = 100
        for li in range(nlooms):
            ncpu = r.choice([1, 2])
            for t in range(r.choice([1, 2])):
                s = Stream(loom="node%d" % li, pid=10 + li, tid=100 + 10 * li + t, app_id=1 + li,
                           require={"ovni": tabs["ovni"]["version"], model: tab["version"]},
                           cpus=[(c, c) for c in range(ncpu)] if t == 0 else None)
                if model == "nosv":
                    s.meta["nosv"] = {"can_breakdown": True}
                cpu = t % ncpu if t < ncpu else -1
                clk += 3
                s.ev(clk, "OHx", i32(cpu, -1) + u64(0))
                for _ in range(r.randrange(1, 4)):
                    (c, v, ch, act, val) = r.choice(pushes)
                    pops = [rw for rw in tab["table"] if rw[3] == 2 and rw[2] == ch and rw[4] == val]
                    if not pops or (model in ("nosv", "nanos6") and chr(c) in "TY"):
                        continue
                    clk += 5
                    s.ev(clk, mch + chr(c) + chr(v))
                    clk += 5
                    s.ev(clk, mch + chr(pops[0][0]) + chr(pops[0][1]))
                clk += 4
                s.ev(clk, "OHe")
                streams.append(s)
        out.append((model, streams))
    return out


def task_type_script(sc, tabs):
    """drv_emu script (text level) for the hierarchy of a task-type scenario: one to three
    looms, one CPU per thread (phyid = index), task types per process in creation order.
    drv_emu has no task layer (`noHook`), so only the .pcf / .row text is taken."""
    # processes may be spread over several looms (c07.scenario_streams): each loom has one CPU per thread
    byloom = {}
    for pr in sc.procs:
        byloom.setdefault(pr.get("loom", "node0"), []).append(pr)
    sysd = emu_lib.Sys([(loom, [(pr["pid"], list(pr["threads"])) for pr in prs],
                         list(range(sum(len(pr["threads"]) for pr in prs)))) for loom, prs in byloom.items()],
                       {"ovni": tabs["ovni"]["version"]})
    appids = []
    for (li, pid, tid) in sysd.threads:
        appids.append([pr["appid"] for pr in sc.procs if pr["pid"] == pid][0])
    # global process order: looms by name, processes by pid
    procs = sorted(sc.procs, key=lambda pr: (pr.get("loom", "node0"), pr["pid"]))
    tts = []
    for (pid, e) in sc.events:
        if e[0] == "type":
            pi = [k for k, pr in enumerate(procs) if pr["pid"] == pid][0]
            lab = c07_lib.type_label(e[2], e[3])
            tts.append((ord(sc.model), pi, c07_lib.gid_of_label(lab), lab))
    lines = ["reset"] + ["thread %d %d %d" % (tid, pid, li) for (li, pid, tid) in sysd.threads]
    lines += ["cpu %d %d %d" % (li, idx, virt) for (li, idx, virt, phy) in sysd.cpus]
    lines.append("enable 79,%d 1" % ord(sc.model))
    return c13_lib.pv_lines(sysd, lines, appids=appids, tasktypes=tts)


def run_extra(res, prep, tabs, tier, text):
    """task-type PCF labels and breakdown traces: files self-check; task types: .pcf / .row text."""
    import shutil
    from ovnitrace import Scratch, run_emu, verdict, write_trace
    r = vcommon.rng("c13x")
    found = False
    n1, n2 = (60, 60) if tier == "quick" else (600, 600)
    tcases = task_type_cases(r, tabs, n1)
    tlines, tspans = [], []
    for sc in tcases:
        ls = task_type_script(sc, tabs)
        tspans.append((len(tlines), len(tlines) + len(ls)))
        tlines += ls
    _, tout, _ = engine.run_lines(engine.exe("drv_emu"), tlines, timeout=3000)
    with Scratch("c13x") as d:
        for k, sc in enumerate(tcases):
            streams, clocks, base = c07.scenario_streams(sc, tabs)
            td = os.path.join(d, "t")
            write_trace(td, streams)
            rc, err = run_emu(prep.bdir, td, ["-l"])
            v = verdict(rc, err)
            if v == "ok":
                a, b = tspans[k]
                mf = c13_lib.model_files(tout[b - 1]) if b - 1 < len(tout) else None
                text.compare("task-types", td, mf, "\n".join(tlines[a:b]), emu_lib.pv_selfcheck(td),
                             only=("thread.pcf", "cpu.pcf", "thread.row", "cpu.row"))
            res.case("task-types:%d:%s" % (k, sc.model) + repr(sc.events)[:2000])
            res.dist("extra:task-types:" + v)
            probs = emu_lib.pv_selfcheck(td) if v == "ok" else ([] if v == "reject" else ["ovniemu " + v])
            if v == "reject":
                probs = ["a legal multi-process task-type history was rejected: " + err[-300:]]
            if probs:
                found = True
                res.violation("c13:task-types:" + probs[0][:50].replace(" ", "_"), "; ".join(probs[:3]),
                              "model %s procs %r\nevents %r\n# %s" % (sc.model, sc.procs, sc.events, "\n# ".join(probs[:5])))
            shutil.rmtree(td, ignore_errors=True)
        for k, (model, streams) in enumerate(breakdown_cases(r, tabs, n2)):
            td = os.path.join(d, "b")
            write_trace(td, streams)
            rc, err = run_emu(prep.bdir, td, ["-b", "-l"])
            v = verdict(rc, err)
            res.case("breakdown:%d:%s:%d" % (k, model, len(streams)) + "".join(s.relpath for s in streams))
            res.dist("extra:breakdown:" + v)
            res.dist("extra:breakdown-looms:%d" % len({s.loom for s in streams}))
            probs = emu_lib.pv_selfcheck(td) if v == "ok" else ["ovniemu -b " + v + ": " + err[-300:]]
            if probs:
                found = True
                res.violation("c13:breakdown:" + probs[0][:50].replace(" ", "_"), "; ".join(probs[:3]),
                              "model %s streams %r\n# %s" % (model, [(s.relpath, len(s.events)) for s in streams], "\n# ".join(probs[:5])))
            shutil.rmtree(td, ignore_errors=True)
    return found


class TextTie:
    """Byte-for-byte comparison of the model's files with ovniemu's; differences are
    correspondence breaks (a failing independent oracle on the same files makes the
    caller report a violation with the trace as replay)."""

    def __init__(self, res):
        self.res = res
        self.stats = {"traces": 0, "files": 0, "bytes": 0, "prv_lines": 0, "differences": 0, "model_has_no_text": 0}
        self.by_group = {}

    def compare(self, group, tracedir, mfiles, script, oracle_probs, only=None):
        self.stats["traces"] += 1
        self.by_group[group] = self.by_group.get(group, 0) + 1
        if mfiles is None:
            self.stats["model_has_no_text"] += 1
            self.brk(group + ": the model produced no text for a trace ovniemu accepts", script, oracle_probs)
            return
        diffs = c13_lib.compare_files(tracedir, mfiles, only)
        names = [n for n in c13_lib.FILES if only is None or n in only]
        self.stats["files"] += len(names)
        self.stats["bytes"] += sum(len(mfiles[n]) for n in names)
        self.stats["prv_lines"] += sum(mfiles[n].count(b"\n") - 1 for n in names if n.endswith(".prv"))
        for (n, what) in diffs:
            self.stats["differences"] += 1
            self.brk(group + ": " + what, script, oracle_probs)

    def brk(self, what, script, oracle_probs):
        self.res.cov.setdefault("correspondence_breaks", []).append(
            {"what": "text: " + what + (" [independent oracle on the same files: " + "; ".join(oracle_probs[:2]) + "]"
                                        if oracle_probs else ""), "script": script[:1500]})


def text_script(sysd, events):
    return c13_lib.pv_lines(sysd, emu_lib.model_lines(sysd, events, True))


def text_models(cases):
    """Run the text-level driver on every case: {text-level script (it names the physical CPU ids and the
    application ids, which the plain script does not): (files or None, script)}"""
    lines, spans = [], []
    for (sysd, events, exp, why) in cases:
        ls = text_script(sysd, events)
        spans.append((len(lines), len(lines) + len(ls)))
        lines += ls
    _, out, _ = engine.run_lines(engine.exe("drv_emu"), lines, timeout=3000)
    tm = {}
    for (a, b) in spans:
        script = "\n".join(lines[a:b])
        tm[script] = (c13_lib.model_files(out[b - 1]) if b - 1 < len(out) else None, script)
    return tm


def run_mark_text(res, prep, tier, text):
    """Mark types (C17's generator: consistent and conflicting definitions, labels beyond int):
    six files byte for byte on every accepted trace."""
    import shutil
    from concurrent.futures import ThreadPoolExecutor
    from ovnitrace import Scratch, run_emu, verdict, write_trace
    r = vcommon.rng("c13m")

    class Quiet:
        def dist(self, k, n=1):
            pass
    n = 120 if tier == "quick" else 1500
    cases = [c17.gen_emu_case(r, Quiet()) for _ in range(n)]
    lines, spans = [], []
    for c in cases:
        base = [l for l in c17.model_lines_with_marks(c) if l != "pcf"]
        ls = c13_lib.pv_lines(c.sysd, base)
        spans.append((len(lines), len(lines) + len(ls)))
        lines += ls
    _, out, _ = engine.run_lines(engine.exe("drv_emu"), lines, timeout=3000)
    found = False
    with Scratch("c13m") as d:
        def one(i):
            c = cases[i]
            td = os.path.join(d, "t%d" % i)
            streams = emu_lib.build_streams(c.sysd, c.events)
            c17.write_marks_into(streams, c)
            write_trace(td, streams)
            rc, err = run_emu(prep.bdir, td, ["-l"])
            return td, verdict(rc, err)
        with ThreadPoolExecutor(max_workers=vcommon.NCPU) as ex:
            impl = list(ex.map(one, range(len(cases))))
        for i, c in enumerate(cases):
            td, v = impl[i]
            a, b = spans[i]
            script = "\n".join(lines[a:b])
            res.case("marks-text:" + script)
            res.dist("marks-text:" + v)
            if v == "ok":
                # a mark value need not have a label (the label table of a mark type is optional)
                probs = [p for p in emu_lib.pv_selfcheck(td) if "has no label" not in p]
                text.compare("marks", td, c13_lib.model_files(out[b - 1]) if b - 1 < len(out) else None, script, probs)
                if probs:
                    found = True
                    res.violation("c13:marks:" + probs[0][:50].replace(" ", "_"), "; ".join(probs[:3]),
                                  script + "\n# " + "\n# ".join(probs[:5]))
            shutil.rmtree(td, ignore_errors=True)
    return found


def run_rank_worlds(res, prep, tier):
    """The documented ROW ORDER when the metadata carries MPI ranks: looms by their lowest rank,
    processes by rank, threads by tid, CPUs by physical id (worlds of the C15 generator: several
    looms, several processes per loom whose pid order differs from their rank order).  The files of
    the real ovniemu go through the C13 self-check with the expected row names.  (Seeded C13-7: the
    loom's rank_min was taken from its first process.)"""
    import c15
    from ovnitrace import Scratch
    r = vcommon.rng("c13-rank-worlds")
    found = False
    n = 60 if tier == "quick" else 800
    with Scratch("c13-rows") as d:
        for i in range(n):
            world = c15.gen_world(r, None)
            specs = c15.variant(r, world, "all", "all")
            case = c15.Case("w%d" % i, "variant:all/all", specs, None, "ok", world)
            sub = os.path.join(d, "w%d" % i)
            os.makedirs(sub)
            out = c15.run_impl(prep.bdir, sub, case)
            ranked = all(p["rank"] is not None for l in world["looms"] for p in l["procs"])
            res.dist("rank-worlds:" + ("ranked" if ranked else "unranked") + ":" + out["verdict"])
            res.case("rank-world " + case.replay()[:400], nontrivial=out["verdict"] == "ok")
            if out["verdict"] != "ok":
                continue        # refusing a distribution is C15's subject
            et, ec = c15.expected_rows(world, specs)
            probs = emu_lib.pv_selfcheck(os.path.join(sub, "t"), {"thread": et, "cpu": ec})
            if probs:
                found = True
                res.violation("c13:rank-rows:" + probs[0][:50].replace(" ", "_"),
                              "Paraver files of a trace with MPI ranks violate C13: " + "; ".join(probs[:3]),
                              "# C15 replay format (checks/check.py C15 --replay)\n" + case.replay()
                              + "# " + "\n# ".join(probs[:5]) + "\n")
            import shutil
            shutil.rmtree(sub, ignore_errors=True)
    return found


def check(res, tier, replay=None):
    res.cov["rule"] = ("accepted (and rejected) traces over all table-driven models, 1-2 looms, several processes/threads/CPUs "
                       "(8% wide hierarchies: 3-4 looms, 9-12 threads, up to 11 CPUs with sparse ids), from the mixed history "
                       "generator; for every accepted trace independent parsers check thread/cpu "
                       ".prv (non-decreasing time, rows in range, header duration = last event time, declared row count), "
                       ".pcf (every type used is declared, every non-zero value of a type with a value table is labelled) and "
                       ".row (count and names in the documented order); the Lean reference emulator must produce the same "
                       "timelines. TEXT LEVEL: for every accepted trace of the mixed generator and of the mark generator (C17's: "
                       "mark types with labels up to 2^62) the six files thread/cpu .prv .pcf .row printed by the Lean model "
                       "(Emu/PvLines + Emu/PvText through drv_emu `pvmode`/`pvtext`) are compared BYTE FOR BYTE with the files "
                       "ovniemu wrote - no canonicalisation, the line order inside one timestamp included; for the multi-process "
                       "task-type traces only .pcf and .row (drv_emu has no task layer, so their .prv is not modelled); the "
                       "breakdown traces (-b) are self-checked only. non-trivial = at least one event; distinct by script")
    prep = engine.prepare(res, drivers=("drv_emu",))
    proved = vcommon.prove(res, ["C13", "C13Text"])
    found = False
    if prep.bdir and prep.driver_ok:
        r = vcommon.rng("c13")
        tabs = emu_props.load_tables()
        n = 450 if tier == "quick" else 6000
        cases = [emu_props.gen_mixed(r, res, tabs, p_illegal=0.08, maxlen=50) for _ in range(n)]
        # long runs: the same kind of history stretched over 10^15 .. 9*10^18 ns (the duration field of the
        # .prv header is rewritten at close and must not run into the first record)
        for span in (10**15, 2 * 10**15, 10**17, 9 * 10**18):
            for _ in range(2 if tier == "quick" else 10):
                sysd, events, exp, why = emu_props.gen_mixed(r, res, tabs, p_illegal=0.0, maxlen=30)
                firsts = {}
                for i, ev in enumerate(events):
                    firsts.setdefault(ev[0], i)
                # stretch only after every stream has started (the clock gate compares the first clocks)
                k = max(max(firsts.values(), default=0) + 1, len(events) // 2)
                if len(events) >= 2 and k < len(events) and len(firsts) == len(sysd.threads):
                    t0 = events[0][1]
                    events = [ev if i < k else (ev[0], ev[1] + span - t0) + tuple(ev[2:]) for i, ev in enumerate(events)]
                    res.dist("case:long-run")
                cases.append((sysd, events, exp, why))
        text = TextTie(res)
        tm = text_models(cases)

        def post(tracedir, sysd, events):
            probs = emu_lib.pv_oracle(tracedir, sysd, events)
            mf, script = tm.get("\n".join(text_script(sysd, events)), (None, ""))
            text.compare("mixed" + (":wide" if len(sysd.looms) > 2 else ""), tracedir, mf, script, probs)
            return probs
        found = c04.run_cases(res, prep, cases, "c13", None, post=post)
        found = run_mark_text(res, prep, tier, text) or found
        found = run_extra(res, prep, tabs, tier, text) or found
        found = run_rank_worlds(res, prep, tier) or found
        res.cov["accepted_traces_checked"] = res.cov["distribution"].get("ovniemu:ok", 0)
        res.cov["text_tie"] = dict(text.stats, traces_by_group=text.by_group)
        for b in res.cov.get("correspondence_breaks", [])[:3]:
            proved = False
            res.failed_obligations = getattr(res, "failed_obligations", []) + ["correspondence emu: " + b["what"] + "\n" + b["script"]]
    for pr in prep.problems:
        res.failed_obligations = getattr(res, "failed_obligations", []) + [pr]
        proved = False
    if not proved:
        vcommon.obligations_failed(res, found)
