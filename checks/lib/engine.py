"""Shared check engine: prepare (build /repo, regenerate, build Lean), run
line-protocol scripts through the Lean driver and a C harness, diff."""
import os
import subprocess
import sys

sys.path.insert(0, os.path.join(os.path.dirname(os.path.abspath(__file__)), "..", "..", "tools"))

import gen
import vcommon
from vcommon import LEAN, BuildError, Result, log, lake_build, run


def exe(name):
    return os.path.join(LEAN, ".lake", "build", "bin", name)


# properties decided on the runtime / tools alone: no generated event table or handler fact enters their model
RUNTIME_ONLY = {"C01", "C02", "C03", "C09", "C10", "C11", "C15", "C16"}


class Prepared:
    def __init__(self):
        self.bdir = None
        self.driver = os.path.join(LEAN, ".lake", "build", "bin", "ovnimodel")
        self.bdir_asan = None
        self.problems = []       # infrastructure-level discrepancies
        self.driver_ok = False
        self.driver_log = ""


def prepare(res, need_driver=True, asan=False, drivers=("ovnimodel",)):
    """Build /repo's working tree, regenerate the Lean tables, build the
    driver. Failures are recorded (they become obligations that no longer
    check), not raised."""
    p = Prepared()
    try:
        p.bdir = vcommon.repo_build("plain")
        if asan:
            p.bdir_asan = vcommon.repo_build("asan")
    except BuildError as e:
        # /repo does not build: nothing can be decided
        res.cov["explanation"] = "repo build failed: " + str(e)[-2000:]
        p.problems.append("repo-build: " + str(e)[-1500:])
        return p
    try:
        changed = gen.generate(p.bdir)
        res.cov["generated_changed"] = [k for k, v in changed.items() if v]
        if gen.HANDLERS_FALLBACK:
            res.cov["handler_facts"] = ("NOT regenerated (constructs the extractor does not understand: %s); the committed "
                                        "Generated/Handlers.lean is used and the handler facts are tied by the differential "
                                        "correspondence only" % "; ".join(gen.HANDLERS_FALLBACK[:4]))
        else:
            res.cov["handler_facts"] = "regenerated from the clang AST of /repo's event.c / setup.c"
        # the translator's own consistency matters to the checks whose model consumes the generated
        # tables / handler facts; the consistency of the code under test (listed vs recognised events)
        # is C18's subject only.  Runtime-side properties do not depend on either.
        pid = getattr(res, "pid", "")
        if pid not in RUNTIME_ONLY:
            bad = gen.translator_selfcheck(p.bdir, consistency=(pid == "C18"))
            for b in bad:
                p.problems.append("translator-selfcheck: " + b)
    except BuildError as e:
        p.problems.append("translator: " + str(e)[-1500:])
    if need_driver:
        ok, out = lake_build(list(drivers))
        p.driver_ok = ok
        p.driver_log = out
        if not ok:
            p.problems.append("lean driver does not build:\n" + out[-2500:])
    return p


def run_lines(exe, lines, timeout=600, env=None):
    """Feed lines, return output lines (same count expected)."""
    if not lines:
        return 0, [], ""
    data = "\n".join(lines) + "\n"
    if env is None:
        env = dict(os.environ)
    env.setdefault("ASAN_OPTIONS", "detect_leaks=0:exitcode=99")
    env.setdefault("UBSAN_OPTIONS", "halt_on_error=1:exitcode=98:print_stacktrace=1")
    r = subprocess.run([exe], input=data.encode(), stdout=subprocess.PIPE,
                       stderr=subprocess.PIPE, timeout=timeout, env=env)
    out = r.stdout.decode("latin1").split("\n")
    if out and out[-1] == "":
        out.pop()
    return r.returncode, out, r.stderr.decode("latin1")


def diff_lines(res, lines, impl_out, model_out, what, keyfn=None, limit=5):
    """Compare outputs line by line; record disagreements as violations
    candidates. Returns list of (index, line, impl, model)."""
    dis = []
    n = max(len(impl_out), len(model_out))
    for i in range(len(lines)):
        a = impl_out[i] if i < len(impl_out) else "<missing>"
        b = model_out[i] if i < len(model_out) else "<missing>"
        if a != b:
            dis.append((i, lines[i], a, b))
    return dis
