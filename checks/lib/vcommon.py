"""Shared infrastructure for the /verif checks.

Everything here derives its paths from __file__, rebuilds from /repo's current
working tree, and never keeps state under /tmp.
"""
import fcntl
import hashlib
import json
import os
import random
import re
import shutil
import subprocess
import sys
import time
from contextlib import contextmanager

VERIF = os.path.abspath(os.path.join(os.path.dirname(__file__), "..", ".."))
REPO = os.environ.get("VERIF_REPO", "/repo")
CACHE = os.path.join(VERIF, ".cache")
LEAN = os.path.join(VERIF, "lean")
# evidence of a run against a private copy (mutation testing) must not overwrite the committed evidence of /repo
EVID = (os.path.join(VERIF, "evidence") if os.path.realpath(REPO) == "/repo"
        else os.path.join(CACHE, "evidence-private"))
REPLAY = os.path.join(VERIF, "replays")
HARNESS = os.path.join(VERIF, "harness")
GUARD = "OVNI_VERIF"
NCPU = os.cpu_count() or 4

ALLOWED_AXIOMS = {"propext", "Classical.choice", "Quot.sound"}
FORBIDDEN = re.compile(
    r"\bsorry\b|\badmit\b|^\s*axiom\s|native_decide|bv_decide|implemented_by|"
    r"\bunsafe\s|maxHeartbeats\s+0\b|\bpartial\s+def\b")


def log(*a):
    print(*a, file=sys.stderr, flush=True)


def seed():
    try:
        return int(os.environ.get("VERIF_SEED", "1"))
    except ValueError:
        return 1


def rng(salt=""):
    return random.Random(f"{seed()}:{salt}")


@contextmanager
def flock(name):
    os.makedirs(CACHE, exist_ok=True)
    path = os.path.join(CACHE, name + ".lock")
    with open(path, "w") as f:
        fcntl.flock(f, fcntl.LOCK_EX)
        try:
            yield
        finally:
            fcntl.flock(f, fcntl.LOCK_UN)


def run(cmd, **kw):
    kw.setdefault("stdout", subprocess.PIPE)
    kw.setdefault("stderr", subprocess.STDOUT)
    kw.setdefault("text", True)
    return subprocess.run(cmd, **kw)


# --------------------------------------------------------------------------
# /repo build (working tree, hooks on), cached by content hash
# --------------------------------------------------------------------------

def _tree_hash():
    h = hashlib.sha256()
    roots = ["src", "include", "cmake", "cfg", "CMakeLists.txt"]
    for r in roots:
        p = os.path.join(REPO, r)
        if os.path.isfile(p):
            files = [p]
        else:
            files = []
            for d, dn, fn in os.walk(p):
                dn.sort()
                for f in sorted(fn):
                    files.append(os.path.join(d, f))
        for f in files:
            h.update(os.path.relpath(f, REPO).encode())
            h.update(b"\0")
            try:
                with open(f, "rb") as fh:
                    h.update(fh.read())
            except OSError:
                h.update(b"?")
            h.update(b"\0")
    return h.hexdigest()[:16]


class BuildError(Exception):
    pass


def repo_build(kind="plain"):
    """Build /repo's working tree. kind: plain | asan. Returns build dir."""
    hsh = _tree_hash()
    base = os.path.join(CACHE, "build")
    os.makedirs(base, exist_ok=True)
    bdir = os.path.join(base, f"{kind}-{hsh}")
    with flock("repo-build-" + kind):
        if os.path.exists(os.path.join(bdir, ".ok")):
            return bdir
        # prune other builds of this kind
        for d in os.listdir(base):
            if d.startswith(kind + "-") and d != os.path.basename(bdir):
                shutil.rmtree(os.path.join(base, d), ignore_errors=True)
        shutil.rmtree(bdir, ignore_errors=True)
        cflags = f"-D{GUARD} -Wno-error"
        btype = "RelWithDebInfo"
        if kind == "asan":
            cflags += (" -fsanitize=address,undefined -fno-sanitize-recover=all"
                       " -fno-omit-frame-pointer -O1")
            btype = "Debug"
        cmd = ["cmake", "-G", "Ninja", "-S", REPO, "-B", bdir,
               f"-DCMAKE_BUILD_TYPE={btype}", "-DUSE_MPI=OFF",
               "-DBUILD_TESTING=OFF", "-DCMAKE_INTERPROCEDURAL_OPTIMIZATION=OFF",
               f"-DCMAKE_C_FLAGS={cflags}", "-DOVNI_GIT_COMMIT=verif",
               "-DCMAKE_INSTALL_PREFIX=" + os.path.join(bdir, "inst")]
        r = run(cmd)
        if r.returncode != 0:
            raise BuildError("cmake failed:\n" + r.stdout[-4000:])
        r = run(["ninja", "-C", bdir])
        if r.returncode != 0:
            raise BuildError("ninja failed:\n" + r.stdout[-4000:])
        open(os.path.join(bdir, ".ok"), "w").close()
    return bdir


def repo_includes(bdir):
    return ["-I" + os.path.join(bdir, "include"), "-I" + os.path.join(bdir, "src"),
            "-I" + os.path.join(REPO, "src"), "-I" + os.path.join(REPO, "src/include"),
            "-I" + os.path.join(REPO, "src/emu"), "-I" + os.path.join(REPO, "include")]


def cc_harness(name, sources, bdir, extra=(), sanitize=True, libs=(), cc="gcc"):
    """Compile a harness from /verif/harness + repo sources. Cached by hash of
    its inputs (harness sources, flags and the repo tree hash in bdir name)."""
    hd = os.path.join(bdir, "harness")
    os.makedirs(hd, exist_ok=True)
    out = os.path.join(hd, name)
    h = hashlib.sha256()
    for s in sources:
        h.update(s.encode())
        with open(s, "rb") as f:
            h.update(f.read())
    h.update(repr((extra, sanitize, libs, cc)).encode())
    stamp = out + ".stamp"
    key = h.hexdigest()
    with flock("harness-" + name):
        if os.path.exists(out) and os.path.exists(stamp) and open(stamp).read() == key:
            return out
        cmd = [cc, "-std=gnu11", "-g", "-O1", f"-D{GUARD}", "-D_POSIX_C_SOURCE=200809L",
               "-D_GNU_SOURCE"]
        if sanitize:
            cmd += ["-fsanitize=address,undefined", "-fno-sanitize-recover=all",
                    "-fno-omit-frame-pointer"]
        cmd += repo_includes(bdir) + ["-I" + HARNESS] + list(extra)
        cmd += list(sources) + ["-o", out] + list(libs)
        r = run(cmd)
        if r.returncode != 0:
            raise BuildError(f"harness {name} failed to compile:\n" + r.stdout[-6000:])
        with open(stamp, "w") as f:
            f.write(key)
    return out


# --------------------------------------------------------------------------
# Lean: generate, build, audit
# --------------------------------------------------------------------------

def write_if_changed(path, content):
    os.makedirs(os.path.dirname(path), exist_ok=True)
    try:
        with open(path) as f:
            if f.read() == content:
                return False
    except OSError:
        pass
    tmp = path + ".tmp%d" % os.getpid()
    with open(tmp, "w") as f:
        f.write(content)
    os.replace(tmp, path)
    return True


def lake_build(targets, timeout=3000):
    """Returns (ok, output). Serialised across concurrent checks."""
    with flock("lake"):
        r = run(["lake", "build"] + list(targets), cwd=LEAN, timeout=timeout)
    return r.returncode == 0, r.stdout


def lean_sources():
    out = []
    for d, dn, fn in os.walk(LEAN):
        if ".lake" in d:
            continue
        for f in fn:
            if f.endswith(".lean"):
                out.append(os.path.join(d, f))
    return sorted(out)


def strip_comments(src):
    # remove nested block comments and line comments (good enough for audit)
    out = []
    i, depth, n = 0, 0, len(src)
    while i < n:
        if src.startswith("/-", i):
            depth += 1
            i += 2
        elif depth and src.startswith("-/", i):
            depth -= 1
            i += 2
        elif depth:
            if src[i] == "\n":
                out.append("\n")
            i += 1
        elif src.startswith("--", i):
            while i < n and src[i] != "\n":
                i += 1
        elif src[i] == '"':
            j = i + 1
            while j < n and src[j] != '"':
                j += 2 if src[j] == "\\" else 1
            out.append('""')
            i = j + 1
        else:
            out.append(src[i])
            i += 1
    return "".join(out)


def audit_sources(allow_partial_in=("Drivers", "Main.lean")):
    """grep for forbidden constructs outside comments/strings.
    `partial def` is allowed only in the IO drivers (never in the model)."""
    hits = []
    for f in lean_sources():
        rel = os.path.relpath(f, LEAN)
        src = strip_comments(open(f).read())
        for ln, line in enumerate(src.split("\n"), 1):
            m = FORBIDDEN.search(line)
            if not m:
                continue
            if "partial" in m.group(0) and any(rel.startswith(a) for a in allow_partial_in):
                continue
            hits.append(f"{rel}:{ln}: {line.strip()[:120]}")
    return hits


THM_RE = re.compile(r"^\s*(?:@\[[^\]]*\]\s*)?(?:private\s+|protected\s+)?theorem\s+([^\s:({\[]+)", re.M)
NS_RE = re.compile(r"^\s*namespace\s+(\S+)", re.M)


def theorems_of(path):
    """Fully qualified theorem names declared in a Props file (simple parser:
    tracks namespace/end)."""
    src = strip_comments(open(path).read())
    names, stack = [], []
    for line in src.split("\n"):
        m = re.match(r"^\s*namespace\s+(\S+)", line)
        if m:
            stack.append(m.group(1))
            continue
        m = re.match(r"^\s*end\s+(\S+)\s*$", line)
        if m and stack and stack[-1] == m.group(1):
            stack.pop()
            continue
        m = THM_RE.match(line)
        if m:
            names.append(".".join(stack + [m.group(1)]))
    return names


def print_axioms(module, names):
    """Returns {name: [axioms]} or raises."""
    src = f"import {module}\n" + "".join(f"#print axioms {n}\n" for n in names)
    tmpd = os.path.join(CACHE, "axioms")
    os.makedirs(tmpd, exist_ok=True)
    p = os.path.join(tmpd, f"ax_{module.replace('.', '_')}_{os.getpid()}.lean")
    with open(p, "w") as f:
        f.write(src)
    try:
        r = run(["lake", "env", "lean", p], cwd=LEAN, timeout=600)
    finally:
        os.unlink(p)
    res = {}
    txt = r.stdout
    for m in re.finditer(r"'([^']+)' depends on axioms: \[([^\]]*)\]", txt, re.S):
        res[m.group(1)] = [a.strip() for a in m.group(2).replace("\n", " ").split(",") if a.strip()]
    for m in re.finditer(r"'([^']+)' does not depend on any axioms", txt):
        res[m.group(1)] = []
    missing = [n for n in names if n not in res]
    return res, missing, txt


def failing_theorems(props_path, build_out):
    """Map lean error lines in build output to enclosing theorem names."""
    rel = os.path.relpath(props_path, LEAN)
    lines = [int(m.group(1)) for m in re.finditer(re.escape(rel) + r":(\d+):\d+: error", build_out)]
    lines += [int(m.group(1)) for m in re.finditer(r"error: " + re.escape(rel) + r":(\d+):\d+", build_out)]
    if not lines:
        return []
    src = open(props_path).read().split("\n")
    out = []
    for ln in lines:
        name = None
        for i in range(min(ln, len(src)) - 1, -1, -1):
            m = THM_RE.match(src[i])
            if m:
                name = m.group(1)
                break
        if name and name not in out:
            out.append(name)
    return out


# --------------------------------------------------------------------------
# Known findings
# --------------------------------------------------------------------------

def known_findings(pid):
    p = os.path.join(VERIF, "KNOWN_FINDINGS.txt")
    out = {}
    if not os.path.exists(p):
        return out
    for line in open(p):
        line = line.strip()
        m = re.match(r"known:\s+property=(\S+)\s+key=(\S+)\s+(.*)", line)
        if m and m.group(1) == pid:
            out[m.group(2)] = m.group(3)
    return out


# --------------------------------------------------------------------------
# Result of a check
# --------------------------------------------------------------------------

class Result:
    def __init__(self, pid, tier, level="proof"):
        self.pid = pid
        self.tier = tier
        self.level = level
        self.t0 = time.time()
        self.cov = {"obligations": 0, "discharged": 0, "checker_cmd": "",
                    "trusted_base": [], "evaluations": 0, "distinct_nontrivial": 0,
                    "traces_validated_against_impl": 0, "rule": "", "samples": [],
                    "theorems": [], "axioms": {}, "distribution": {}}
        self.assumptions = []
        self.violations = []   # (key, text, replay_path)
        self.known_printed = []
        self._distinct = set()

    def case(self, canonical, nontrivial=True, validated=True):
        self.cov["evaluations"] += 1
        if validated:
            self.cov["traces_validated_against_impl"] += 1
        if nontrivial:
            h = hashlib.sha1(canonical.encode() if isinstance(canonical, str) else canonical).digest()[:10]
            if h not in self._distinct:
                self._distinct.add(h)
                self.cov["distinct_nontrivial"] = len(self._distinct)

    def dist(self, key, n=1):
        d = self.cov["distribution"]
        d[key] = d.get(key, 0) + n

    def sample(self, s, limit=6):
        if len(self.cov["samples"]) < limit:
            self.cov["samples"].append(s)

    def violation(self, key, text, replay_content):
        """Record a violation; writes the replay file. `key` is the stable key
        used to match KNOWN_FINDINGS."""
        known = known_findings(self.pid)
        if key in known:
            if key not in self.known_printed:
                self.known_printed.append(key)
                print(f"KNOWN-FINDING: property={self.pid} key={key} {known[key]}", flush=True)
            return False
        if len(self.violations) >= 5:
            self.cov["violations_not_listed"] = self.cov.get("violations_not_listed", 0) + 1
            return True
        os.makedirs(REPLAY, exist_ok=True)
        n = len(self.violations)
        path = os.path.join(REPLAY, f"{self.pid}-{self.tier}-{seed()}-{n}.txt")
        with open(path, "w") as f:
            f.write(f"# property={self.pid} key={key}\n# {text}\n")
            f.write(replay_content if replay_content.endswith("\n") else replay_content + "\n")
        self.violations.append((key, text, path))
        return True

    def finish(self):
        os.makedirs(EVID, exist_ok=True)
        ev = {
            "property_id": self.pid,
            "tier": self.tier,
            "seed": seed(),
            "level": self.level,
            "coverage": self.cov,
            "assumptions": self.assumptions,
            "wall_s": round(time.time() - self.t0, 2),
            "violations": len(self.violations),
        }
        # schema: a proof-level file with obligations/discharged wants both >= 1.  When nothing was
        # discharged (the Props module no longer builds) the measured numbers are kept under other
        # names and the exploration counts describe the run (the file then shows the failure)
        if not self.cov.get("obligations") or not self.cov.get("discharged"):
            cov = dict(self.cov)
            cov["obligations_measured"] = cov.pop("obligations", 0)
            cov["discharged_measured"] = cov.pop("discharged", 0)
            ev["coverage"] = cov
        tmp = os.path.join(EVID, f".{self.pid}.json.tmp")
        with open(tmp, "w") as f:
            json.dump(ev, f, indent=1, default=str)
        os.replace(tmp, os.path.join(EVID, f"{self.pid}.json"))
        for key, text, path in self.violations:
            tail = " no-failing-input-found" if key.startswith("obligation:") and "::input" not in key else ""
            print(f"VIOLATION property={self.pid} replay={path}{tail}", flush=True)
        return 1 if self.violations else 0


# --------------------------------------------------------------------------
# Proof obligations for a property
# --------------------------------------------------------------------------

COMMON_TRUSTED = [
    "Lean 4.33.0 kernel (type-checks every theorem; no sorry/admit/own axioms/native_decide/bv_decide, audited by grep and #print axioms on every run)",
    "axioms allowed: propext, Classical.choice, Quot.sound",
    "the hand-written model is tied to /repo only through the correspondence run of this check (differential testing, generator-bounded) and the regenerated tables (translator + C compiler)",
]


def prove(res, module_rel, extra_targets=()):
    """Build the Props module(s) for this property, audit them, record
    obligations. `module_rel` is a name or a list of names under Props/.
    Returns True if all obligations are discharged. On failure the failing
    obligations are in res.failed_obligations (the caller searches for a
    concrete input first)."""
    rels = [module_rel] if isinstance(module_rel, str) else list(module_rel)
    modules = ["OvniModel.Props." + r for r in rels]
    paths = [os.path.join(LEAN, "OvniModel", "Props", r + ".lean") for r in rels]
    names = []
    for p in paths:
        names += theorems_of(p)
    res.cov["obligations"] = len(names)
    res.cov["theorems"] = names
    res.cov["checker_cmd"] = ("cd lean && lake build " + " ".join(modules) + " && lake env lean <#print axioms of every theorem>"
                              + (" && lake env leanchecker <module>" if res.tier == "thorough" else ""))
    res.cov["trusted_base"] = list(COMMON_TRUSTED)
    res.failed_obligations = []
    ok, out = lake_build(modules + list(extra_targets))
    res.build_log = out
    if not ok:
        bad = []
        for p in paths:
            bad += failing_theorems(p, out)
        bad = bad or ["<module " + " ".join(modules) + " does not build>"]
        res.failed_obligations = bad
        res.cov["discharged"] = max(0, len(names) - len(bad)) if bad[0][0] != "<" else 0
        res.cov["build_errors"] = out[-3000:]
        return False
    hits = audit_sources()
    if hits:
        res.failed_obligations = ["<audit: forbidden construct> " + h for h in hits]
        res.cov["discharged"] = 0
        return False
    ax, missing = {}, []
    for m, p in zip(modules, paths):
        a, mis, txt = print_axioms(m, theorems_of(p))
        ax.update(a)
        missing += mis
    res.cov["axioms"] = {k: v for k, v in ax.items()}
    bad = [n for n in names if n in missing or not set(ax.get(n, [])) <= ALLOWED_AXIOMS]
    if bad:
        res.failed_obligations = ["<axioms> " + b + " " + str(ax.get(b)) for b in bad]
        res.cov["discharged"] = len(names) - len(bad)
        return False
    res.cov["discharged"] = len(names)
    if res.tier == "thorough":
        for m in modules:
            with flock("lake"):
                r = run(["lake", "env", "leanchecker", m], cwd=LEAN, timeout=1800)
            res.cov["leanchecker"] = "ok" if r.returncode == 0 else r.stdout[-500:]
            if r.returncode != 0:
                res.failed_obligations = ["<leanchecker> " + m]
                return False
    return True


def obligations_failed(res, found_input):
    """Called after the failing-input search when prove() returned False and no
    concrete violation was recorded."""
    if found_input:
        return
    txt = "theorems/correspondence that no longer check:\n" + "\n".join(res.failed_obligations)
    txt += "\n\nbuild output (tail):\n" + getattr(res, "build_log", "")[-3000:]
    res.violation("obligation:" + ",".join(res.failed_obligations)[:200],
                  "proof obligation no longer checks; no concrete failing input found", txt)
