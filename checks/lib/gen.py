"""Translator driver: regenerates lean/OvniModel/Generated/*.lean from /repo's
current sources (through the C compiler) on every run."""
import html
import os
import re
import subprocess
import sys

from vcommon import (REPO, VERIF, LEAN, GUARD, BuildError, flock, repo_includes,
                     run, write_if_changed)

GEN = os.path.join(VERIF, "tools", "gen")
OUT = os.path.join(LEAN, "OvniModel", "Generated")
CLANG = os.environ.get("VERIF_CLANG", "clang-14")

sys.path.insert(0, GEN)
import gen_handlers  # noqa: E402

# model dir, Lean namespace, table symbol in event.c (None = switch-based
# handler, no table), has SET action, model_spec symbol
MODELS = [
    ("ovni", "Ovni", None, 0, "model_ovni"),
    ("nanos6", "Nanos6", "ss_table", 1, "model_nanos6"),
    ("nosv", "Nosv", "ss_table", 1, "model_nosv"),
    ("nodes", "Nodes", "ss_table", 0, "model_nodes"),
    ("tampi", "Tampi", "ss_table", 0, "model_tampi"),
    ("mpi", "Mpi", "fn_table", 0, "model_mpi"),
    ("kernel", "Kernel", None, 0, "model_kernel"),
    ("openmp", "Openmp", "fn_table", 0, "model_openmp"),
]


def _cc_run(name, src, bdir, defs, link=True):
    exe = os.path.join(bdir, "gen", name)
    os.makedirs(os.path.dirname(exe), exist_ok=True)
    libs = []
    if link:
        libs = [os.path.join(bdir, "src/emu/libemu.a"),
                os.path.join(bdir, "src/rt/libovni-static.a"),
                os.path.join(bdir, "src/libparson-static.a"),
                os.path.join(bdir, "src/libcommon-static.a"),
                "-Wl,--allow-multiple-definition"]
    cmd = (["gcc", "-std=gnu11", "-O0", "-w", f"-D{GUARD}", "-D_POSIX_C_SOURCE=200809L"]
           + repo_includes(bdir) + ["-I" + GEN] + defs + [src, "-o", exe] + libs)
    r = run(cmd)
    if r.returncode != 0:
        raise BuildError(f"translator {name} failed to compile:\n{r.stdout[-3000:]}")
    r = subprocess.run([exe], stdout=subprocess.PIPE, stderr=subprocess.PIPE, text=True)
    if r.returncode != 0:
        raise BuildError(f"translator {name} failed to run: {r.stderr[-2000:]}")
    return r.stdout


def _find_libs(bdir):
    # locate static libs irrespective of where cmake put them
    found = {}
    for d, dn, fn in os.walk(bdir):
        for f in fn:
            if f.endswith(".a"):
                found[f] = os.path.join(d, f)
    return found


def generate(bdir):
    """Regenerate all Generated/*.lean. Returns dict name -> changed?"""
    changed = {}
    with flock("gen"):
        libs = _find_libs(bdir)
        liblist = [libs[k] for k in ("libemu.a", "libovni-static.a", "libparson-static.a",
                                      "libcommon-static.a") if k in libs]

        def cc(name, src, defs):
            exe = os.path.join(bdir, "gen", name)
            os.makedirs(os.path.dirname(exe), exist_ok=True)
            cmd = (["gcc", "-std=gnu11", "-O0", "-w", f"-D{GUARD}", "-D_POSIX_C_SOURCE=200809L"]
                   + repo_includes(bdir) + ["-I" + GEN] + defs + [src, "-o", exe]
                   + liblist + liblist + ["-Wl,--allow-multiple-definition"])
            r = run(cmd)
            if r.returncode != 0:
                raise BuildError(f"translator {name} failed to compile:\n{r.stdout[-3000:]}")
            r = subprocess.run([exe], stdout=subprocess.PIPE, stderr=subprocess.PIPE, text=True)
            if r.returncode != 0:
                raise BuildError(f"translator {name} failed to run: {r.stderr[-2000:]}")
            return r.stdout

        consts = cc("gen_consts", os.path.join(GEN, "gen_consts.c"), [])
        hdr = "-- GENERATED from /repo on every run by checks/lib/gen.py; do not edit.\n"
        changed["Consts"] = write_if_changed(os.path.join(OUT, "Consts.lean"), hdr + consts)
        imports = ["import OvniModel.Generated.Consts"]
        for mdir, ns, table, has_set, spec in MODELS:
            setup_c = os.path.join(REPO, "src/emu", mdir, "setup.c")
            event_c = os.path.join(REPO, "src/emu", mdir, "event.c")
            body = cc("gen_setup_" + mdir, os.path.join(GEN, "gen_setup.c"),
                      [f'-DSETUP_C="{setup_c}"', f"-DMODEL_SPEC={spec}"]
                      + (["-DHAS_TASK_ENUMS=1"] if mdir in ("nosv", "nanos6") else []))
            if table:
                body += cc("gen_event_" + mdir, os.path.join(GEN, "gen_event.c"),
                           [f'-DEVENT_C="{event_c}"', f"-DTABLE={table}", f"-DHAS_SET={has_set}"])
            else:
                body += "def table : List (Nat × Nat × Nat × Nat × Int) := []\n"
            src = hdr + f"namespace Ovni.Generated.{ns}\n" + body + f"end Ovni.Generated.{ns}\n"
            changed[ns] = write_if_changed(os.path.join(OUT, ns + ".lean"), src)
            imports.append(f"import OvniModel.Generated.{ns}")
        # handler facts (guards, category switches, lint channel, connect-time
        # values, probe) from clang's AST of every event.c / setup.c
        # When the extractor meets a construct it does not understand (a harmless rewrite of a handler
        # is enough), the committed Handlers.lean is kept: the handler facts are then tied to the code by
        # the differential correspondence alone (ovniemu vs the reference emulator + independent oracles),
        # which is what finds a concrete input if the rewrite was not harmless.
        global HANDLERS_FALLBACK
        HANDLERS_FALLBACK = []
        hsrc = None
        try:
            facts, hsrc = handlers_facts(bdir)
            HANDLERS_FALLBACK = [f"{name}: {u}" for name, f in sorted(facts.items()) for u in f.get("unresolved", [])]
        except BuildError as e:
            HANDLERS_FALLBACK = ["extractor failed: " + str(e)[-400:]]
        if HANDLERS_FALLBACK or hsrc is None:
            changed["Handlers"] = False
        else:
            changed["Handlers"] = write_if_changed(os.path.join(OUT, "Handlers.lean"), hsrc)
        imports.append("import OvniModel.Generated.Handlers")
        allsrc = hdr + "\n".join(imports) + "\n"
        changed["All"] = write_if_changed(os.path.join(OUT, "All.lean"), allsrc)
    return changed


HANDLERS_FALLBACK = []


def handlers_facts(bdir):
    """(facts, Lean source) of tools/gen/gen_handlers.py on /repo's current
    sources (cached inside the content-hashed build directory)."""
    cargs = ["-std=gnu11", f"-D{GUARD}", "-D_POSIX_C_SOURCE=200809L"] + repo_includes(bdir)
    try:
        return gen_handlers.generate(REPO, cargs, os.path.join(bdir, "gen"), clang=CLANG)
    except gen_handlers.GenError as e:
        raise BuildError(str(e))


def ovnievents_list(bdir):
    """Parse what the freshly built ovnievents prints: {model: [(sig, desc)]}"""
    exe = os.path.join(bdir, "src/emu/ovnievents")
    r = subprocess.run([exe], stdout=subprocess.PIPE, stderr=subprocess.PIPE, text=True)
    out = {}
    cur = None
    sig = None
    for line in r.stdout.split("\n"):
        m = re.match(r"## Model (\S+)", line)
        if m:
            cur = m.group(1)
            out[cur] = []
            continue
        m = re.match(r'<dt><a id="[^"]*" href="[^"]*"><pre>(.*)</pre></a></dt>', line)
        if m:
            sig = html.unescape(m.group(1))
            continue
        m = re.match(r"<dd>(.*)</dd>", line)
        if m and cur is not None and sig is not None:
            out[cur].append((sig, html.unescape(m.group(1))))
            sig = None
    return out


def generated_evlist(ns):
    """Read back the evlist from the generated Lean file (for cross-checking
    the translator against ovnievents)."""
    src = open(os.path.join(OUT, ns + ".lean")).read()
    m = re.search(r"def evlist : List \(String × String\) := \[\n(.*?)\n\]\n", src, re.S)
    items = []
    if not m:
        return items
    for line in m.group(1).split("\n"):
        mm = re.match(r'\s*\("((?:[^"\\]|\\.)*)", "((?:[^"\\]|\\.)*)"\),?$', line)
        if mm:
            un = lambda s: s.replace('\\"', '"').replace("\\\\", "\\")
            items.append((un(mm.group(1)), un(mm.group(2))))
    return items


def translator_selfcheck(bdir, consistency=True):
    """The generated evlists must equal what ovnievents prints, and the
    handler-facts extractor must have understood every construct.  Returns
    list of discrepancies (strings).  With `consistency` also the facts that
    are about the CODE UNDER TEST rather than about the translator (a listed
    event the dispatch does not recognise, a table row whose category is not
    routed, a category case without listed events): those are the subject of
    C18 and must not alarm the checks of other properties."""
    bad = []
    ev = ovnievents_list(bdir)
    for mdir, ns, *_ in MODELS:
        g = generated_evlist(ns)
        o = ev.get(mdir, None)
        if o is None:
            bad.append(f"model {mdir} missing in ovnievents output")
            continue
        if sorted(g) != sorted(o):
            d = set(g) ^ set(o)
            bad.append(f"model {mdir}: generated evlist differs from ovnievents: {sorted(d)[:4]}")
    bad += handlers_selfcheck(bdir, ev, consistency)
    return bad


def handlers_selfcheck(bdir, ev=None, consistency=True):
    """The generated handler facts (Generated/Handlers.lean) against the
    generated tables and against what `ovnievents` prints:
      * nothing unresolved; the model character tested by model_<m>_event is
        the model's; a model with an event table has a function indexing it;
      * every table row's category is a `case` routed to a function that
        indexes the table, or the handler has no category switch;
      * every event `ovnievents` lists is recognised by the generated
        dispatch (category case -> table row / value switch / value test /
        no inspection), and every `case` of a category switch has at least
        one listed event."""
    bad = []
    if HANDLERS_FALLBACK:
        return bad        # the committed facts are in use; nothing was regenerated to be checked
    if ev is None:
        ev = ovnievents_list(bdir)
    facts, _src = handlers_facts(bdir)
    tabs = load_tables()
    names = {mdir: lname for mdir, lname, _t in gen_handlers.MODELS}
    for mdir, ns, table, _hs, _spec in MODELS:
        f = facts[names[mdir]]
        t = tabs[mdir]
        who = f"handlers {mdir}"
        for u in f["unresolved"]:
            bad.append(f"{who}: unresolved: {u}")
        if f["evChar"] != t["char"]:
            bad.append(f"{who}: model_{mdir}_event tests model character {f['evChar']}, model_spec says {t['char']}")
        if (table or "") != f["table"]:
            bad.append(f"{who}: table symbol {f['table']!r} differs from the table translator's {table!r}")
        if table and not f["tableFns"]:
            bad.append(f"{who}: no function indexes {table}")
        cat = [s for s in f["switches"] if s["on"] == "c" and s["fn"] == f["handler"]]
        if not cat and not f["directTable"]:
            bad.append(f"{who}: neither a category switch nor a direct table lookup")
        cases = {c["label"]: c for c in (cat[0]["cases"] if cat else [])}
        vsw = {s["fn"]: [c["label"] for c in s["cases"]] for s in f["switches"] if s["on"] == "v"}
        vts = {n: vs for n, vs in f["valueTests"]}
        rows = {(r[0], r[1]) for r in t["table"] if r[3] != 0}
        # table rows are reachable
        for (c, v) in sorted(rows):
            if f["directTable"] or not consistency:
                continue
            k = cases.get(c)
            if k is None or k["callee"] not in f["tableFns"]:
                bad.append(f"{who}: table row {chr(c)}{chr(v)} but category {chr(c)!r} is not routed to "
                           f"{'/'.join(f['tableFns']) or 'a table function'}")
                break

        def accepts(c, v):
            if f["directTable"]:
                return (c, v) in rows
            k = cases.get(c)
            if k is None:
                return False
            if k["callee"] in f["tableFns"]:
                return (c, v) in rows
            if k["callee"] in vsw:
                return v in vsw[k["callee"]]
            if k["callee"] in vts:
                return v in vts[k["callee"]]
            return True
        listed = [(ord(s[1]), ord(s[2])) for s, _d in ev.get(mdir, []) if len(s) >= 3]
        miss = [chr(c) + chr(v) for (c, v) in listed if not accepts(c, v)]
        if miss and consistency:
            bad.append(f"{who}: ovnievents lists {miss[:6]} which the generated dispatch does not recognise")
        lc = {c for c, _v in listed}
        dead = [chr(c) for c in cases if c not in lc]
        if dead and consistency:
            bad.append(f"{who}: category cases {dead} have no event in ovnievents' list")
    return bad


def load_tables():
    """Parse the generated Lean files back: {model_dir: {"char":int,"version":str,
    "table":[(c,v,chan,act,val)], "evlist":[(sig,desc)]}} (used by the
    generators of the correspondence checks)."""
    out = {}
    for mdir, ns, *_ in MODELS:
        src = open(os.path.join(OUT, ns + ".lean")).read()
        ch = int(re.search(r"def modelChar : Nat := (\d+)", src).group(1))
        ver = re.search(r'def versionStr : String := "([^"]*)"', src).group(1)
        rows = []
        m = re.search(r"def table : List \(Nat × Nat × Nat × Nat × Int\) := \[(.*?)\]", src, re.S)
        if m:
            for mm in re.finditer(r"\((\d+), (\d+), (\d+), (\d+), \(?(-?\d+)\)?\)", m.group(1)):
                rows.append(tuple(int(x) for x in mm.groups()))
        def lst(name):
            mm = re.search(r"def %s : List \w+ := \[(.*?)\]\n" % name, src, re.S)
            return mm.group(1) if mm else ""
        out[mdir] = {
            "char": ch, "version": ver, "table": rows, "evlist": generated_evlist(ns), "ns": ns,
            "nch": int(re.search(r"def nch : Nat := (\d+)", src).group(1)),
            "chanStack": [x.strip() == "true" for x in lst("chanStack").split(",") if x.strip()],
            "chanDup": [x.strip() == "true" for x in lst("chanDup").split(",") if x.strip()],
            "pvtType": [int(x) for x in lst("pvtType").split(",") if x.strip()],
            "thTrack": [int(x) for x in lst("thTrack").split(",") if x.strip()],
            "cpuTrack": [int(x) for x in lst("cpuTrack").split(",") if x.strip()],
            "prvFlags": [int(x) for x in lst("prvFlags").split(",") if x.strip()],
        }
    return out
