"""C16 — ovnisort yields a stable sorted permutation and touches only what it must."""
import itertools
import os
import struct
from concurrent.futures import ThreadPoolExecutor

import engine
import vcommon
from ovnitrace import Scratch, Stream, ev_bytes, i32, u64, run_emu, run_tool, verdict, write_trace

PID = "C16"
HDR = b"ovni" + struct.pack("<I", 1)
DEFAULT_N = 1000000
BIG = 2 ** 63


# --------------------------------------------------------------------------
# independent decoder and oracles (never share code with the Lean model)
# --------------------------------------------------------------------------

def decode(body):
    """-> (events, truncated). event = (clock, kind, bytes); kind in '[', ']', '.'"""
    p, out = 0, []
    while p < len(body):
        if p + 12 > len(body):
            return out, True
        fl = body[p]
        if fl & 0x10:
            if p + 16 > len(body):
                return out, True
            sz = 16 + struct.unpack_from("<I", body, p + 12)[0]
        else:
            k = fl & 0x0f
            sz = 12 + (0 if k == 0 else k + 1)
        if p + sz > len(body):
            return out, True
        mcv = body[p + 1:p + 4]
        kind = "[" if mcv == b"OU[" else "]" if mcv == b"OU]" else "."
        out.append((struct.unpack_from("<Q", body, p + 4)[0], kind, body[p:p + sz]))
        p += sz
    return out, False


def regions(evs):
    """Marker pairing as ovnisort reads it: list of (open_idx, close_idx or None)."""
    out, op = [], None
    for i, (c, k, b) in enumerate(evs):
        if op is None:
            if k == "[":
                op = i
        elif k == "]":
            out.append((op, i))
            op = None
    if op is not None:
        out.append((op, None))
    return out


def preconditions(evs, n):
    """(only_regions_unsorted, within_window, clocks_signed), written from the
    property statement, index based.  within_window: every closed non-empty
    region whose events are not already in place (non-decreasing from the OU[
    marker on) has its destination inside the look-back: fewer than n-1 events
    precede its OU], or fewer than n-1 of them (and not all) have a clock >=
    the minimum clock of the region."""
    regs = regions(evs)
    closed = all(c is not None for (_, c) in regs)
    inside = set()
    for (o, c) in regs:
        for i in range(o + 1, c if c is not None else len(evs)):
            inside.add(i)
    only = closed
    for i in range(len(evs)):
        if i not in inside and any(evs[j][0] > evs[i][0] for j in range(i)):
            only = False
    win = True
    for (o, c) in regs:
        if c is None or c == o + 1:
            continue
        if all(evs[j][0] <= evs[j + 1][0] for j in range(o, c - 1)):
            continue            # already in place after its OU[ marker: nothing to move, no window needed
        m = min(evs[j][0] for j in range(o + 1, c))
        g = sum(1 for j in range(c) if evs[j][0] >= m)
        if not (c + 1 < n or (g + 1 < n and g < c)):
            win = False
    clocks = all(e[0] < BIG for e in evs)
    return only, win, clocks


def is_sorted(evs):
    return all(evs[i][0] <= evs[i + 1][0] for i in range(len(evs) - 1))


# --------------------------------------------------------------------------
# generator
# --------------------------------------------------------------------------

def B(clock, r=None, jumbo_ok=True, tag=0):
    """an `OB.` event (accepted by ovniemu with any payload)"""
    if r is None:
        return ev_bytes(clock, "OB.")
    k = r.random()
    if k < 0.4:
        return ev_bytes(clock, "OB.")
    if k < 0.85 or not jumbo_ok:
        n = r.choice([2, 3, 4, 8, 12, 15, 16])
        return ev_bytes(clock, "OB.", bytes((tag + i) & 0xff for i in range(n)))
    n = r.choice([0, 1, 5, 17, 40, 300])
    return ev_bytes(clock, "OB.", jumbo=bytes((tag * 7 + i) & 0xff for i in range(n)))


def OHX(clock):
    return ev_bytes(clock, "OHx", i32(0, -1) + u64(0))


def gen_case(r, res):
    """One structured stream. Returns (n, body bytes, tags)."""
    tags = set()
    win = r.choice([1, 2, 2, 3, 3, 4, 4, 5, 6, 7, 8, 9, 11, 15, 23])   # provisional window, n is fixed below
    small = r.random() < 0.5          # short streams: small sufficient look-backs
    clk = r.randrange(0, 4)
    evs = [OHX(clk)]
    clocks = [clk]                 # clocks of everything so far, as emitted
    tag = 0
    for seg in range(r.randrange(1, 5)):
        for _ in range(r.choice([0, 0, 1, 1, 2] if small else [0, 0, 1, 2, 3, 5, 8])):
            clk += r.choice([0, 0, 1, 1, 2, 5])
            tag += 1
            evs.append(B(clk, r, tag=tag))
            clocks.append(clk)
        clk += r.choice([0, 1, 2, 10])
        evs.append(ev_bytes(clk, "OU[", b"" if r.random() < 0.9 else b"mk"))
        clocks.append(clk)
        cnt = r.choice([0, 1, 1, 1, 2, 3] if small else [0, 1, 1, 2, 2, 3, 4, 6, 9])
        if cnt:
            srt = sorted(clocks)
            # how far back (in events of the sorted prefix) the region reaches:
            # concentrated where window - region size lies
            room = max(0, win - cnt)
            d = r.choice([0, 1, 2, room - 2, room - 1, room, room + 1, room + 2, r.randrange(0, len(srt) + 1)])
            d = min(max(d, 0), len(srt))
            base = srt[len(srt) - d] if d > 0 else srt[-1]
            if d > 0 and r.random() < 0.5 and base > clocks[0]:
                base -= 0 if r.random() < 0.5 else 1
            base = max(base, clocks[0])
            rc = []
            c = base
            for _ in range(cnt):
                rc.append(c)
                c += r.choice([0, 0, 1, 1, 2, 3])
            if r.random() < 0.4:
                r.shuffle(rc)
                if rc != sorted(rc):
                    tags.add("region-internally-unordered")
            for c in rc:
                tag += 1
                e = B(c, r, tag=tag)
                if e[0] & 0x10:
                    tags.add("jumbo-in-region")
                evs.append(e)
                clocks.append(c)
            clk = max(clk, max(rc))
            if d > 0:
                tags.add("region-goes-back")
        else:
            tags.add("empty-region")
        clk += r.choice([0, 0, 1, 3])
        evs.append(ev_bytes(clk, "OU]"))
        clocks.append(clk)
    for _ in range(r.choice([0, 0, 1, 3])):
        clk += r.choice([0, 1, 2])
        evs.append(B(clk, r))
        clocks.append(clk)
    evs.append(ev_bytes(clk + 1, "OHe"))
    if len(set(clocks)) < len(clocks):
        tags.add("equal-clocks")
    # ---- malformed variants (a controlled minority) ----
    k = r.random()
    body = None
    if k < 0.05:
        idx = [i for i, e in enumerate(evs) if e[1:4] == b"OU]"]
        if idx:
            del evs[r.choice(idx)]
            tags.add("mal:unterminated-or-merged-region")
    elif k < 0.10:
        i = r.randrange(1, len(evs))
        c = struct.unpack_from("<Q", evs[i], 4)[0]
        evs[i] = evs[i][:4] + struct.pack("<Q", max(0, c - r.choice([1, 2, 5, 50]))) + evs[i][12:]
        tags.add("mal:clock-lowered-somewhere")
    elif k < 0.13:
        i = r.randrange(1, len(evs))
        evs[i] = evs[i][:4] + struct.pack("<Q", BIG + r.randrange(0, 1000)) + evs[i][12:]
        tags.add("mal:clock-above-2^63")
    elif k < 0.16:
        extra = ev_bytes(clk + 2, "OB.", b"12345678")
        body = b"".join(evs) + extra[:-r.randrange(1, 8)]
        tags.add("mal:truncated-last-event")
    elif k < 0.19:
        i = r.randrange(1, len(evs))
        c = struct.unpack_from("<Q", evs[i], 4)[0]
        evs.insert(i, ev_bytes(c, r.choice(["OU[", "OU]"])))
        tags.add("mal:stray-marker")
    elif k < 0.195:
        evs = []
        tags.add("mal:no-events")
    if body is None:
        body = b"".join(evs)
    # look-back: concentrated at the smallest sufficient value (found with the
    # independent precondition oracle), so that both sides of the boundary and
    # the "ring not yet full" path are exercised
    dec, _ = decode(body)
    nmin = next((x for x in range(1, len(dec) + 3) if preconditions(dec, x)[1]), len(dec) + 2)
    n = r.choice([nmin - 2, nmin - 1, nmin - 1, nmin, nmin, nmin, nmin, nmin + 1, nmin + 1, nmin + 2, nmin + 5,
                  win + 1, 2 * nmin, None, None])
    if n is not None and n < 1:
        n = 1
    return n, body, tags


def exhaustive_cases(maxlen, clocks, ns):
    alpha = [(k, c) for k in ("OB.", "OU[", "OU]") for c in clocks]
    for L in range(1, maxlen + 1):
        for t in itertools.product(alpha, repeat=L):
            body = OHX(clocks[0]) + b"".join(ev_bytes(c, k) for (k, c) in t) + ev_bytes(clocks[-1] + 1, "OHe")
            for n in ns:
                yield n, body, {"exhaustive"}


# --------------------------------------------------------------------------
# running the real tools
# --------------------------------------------------------------------------

def status_class(rc, err):
    if rc == 0:
        return "ok"
    if rc == 1:
        return "err"
    if rc == -6:
        return "die"
    return f"other:{rc}"


MODEL_CLASS = {"ok": "ok", "err-nodest": "err", "err-stream": "err", "err-ringcheck": "err"}


def model_class(st):
    return MODEL_CLASS.get(st, "die")


def run_impl(bdir, d, n, body):
    """ovnisort [-n N]; ovnisort -c; ovnisort again, and a third time; ovniemu -l. Returns dict."""
    s = Stream(tid=1, pid=1, cpus=[(0, 0)])
    s.raw_obs = HDR + body
    write_trace(d, [s])
    obs = os.path.join(d, s.relpath, "stream.obs")
    tool = os.path.join(bdir, "src/emu/ovnisort")
    nargs = [] if n is None else ["-n", str(n)]
    out = {}
    rc, _, err = run_tool(tool, nargs + [d], timeout=30)
    out["rc1"], out["err1"] = rc, err
    with open(obs, "rb") as f:
        out["obs1"] = f.read()
    rc, _, err = run_tool(tool, ["-c", d], timeout=30)
    out["rcc"], out["errc"] = rc, err
    rc, _, err = run_tool(tool, nargs + [d], timeout=30)
    out["rc2"], out["err2"] = rc, err
    with open(obs, "rb") as f:
        out["obs2"] = f.read()
    rc, _, err = run_tool(tool, nargs + [d], timeout=30)
    out["rc3"], out["err3"] = rc, err
    with open(obs, "rb") as f:
        out["obs3"] = f.read()
    if out["rc1"] == 0:
        rc, err = run_emu(bdir, d, ["-l"], timeout=30)
        out["emu"] = verdict(rc, err)
    else:
        out["emu"] = None
    # everything needed is in `out`: do not let tens of thousands of trace directories pile up in the scratch area
    import shutil
    shutil.rmtree(d, ignore_errors=True)
    return out


def build_shim():
    """LD_PRELOAD library that makes every pwrite() short (harness/shortpwrite.c)."""
    src = os.path.join(vcommon.HARNESS, "shortpwrite.c")
    out = os.path.join(vcommon.CACHE, "shortpwrite.so")
    if not os.path.exists(out) or os.path.getmtime(out) < os.path.getmtime(src):
        os.makedirs(vcommon.CACHE, exist_ok=True)
        r = vcommon.run(["gcc", "-shared", "-fPIC", "-O1", "-o", out + ".tmp", src, "-ldl"])
        if r.returncode != 0:
            return None
        os.replace(out + ".tmp", out)
    return out


def run_short_pwrite(bdir, d, n, body, shim, limit):
    """The first ovnisort run again, every pwrite() cut to `limit` bytes."""
    s = Stream(tid=1, pid=1, cpus=[(0, 0)])
    s.raw_obs = HDR + body
    write_trace(d, [s])
    obs = os.path.join(d, s.relpath, "stream.obs")
    tool = os.path.join(bdir, "src/emu/ovnisort")
    rc, _, err = run_tool(tool, ([] if n is None else ["-n", str(n)]) + [d], timeout=30,
                          env_extra={"LD_PRELOAD": shim, "SHORT_PWRITE": str(limit)})
    with open(obs, "rb") as f:
        data = f.read()
    import shutil
    shutil.rmtree(d, ignore_errors=True)
    return rc, data, err


def run_multi(bdir, d, n, bodies):
    """Several streams in one trace: a first stream with low clocks, then the given bodies as further
    threads.  ovnisort treats every stream on its own."""
    streams = []
    first = Stream(tid=1, pid=1, cpus=[(0, 0)])
    first.raw_obs = HDR + OHX(0) + ev_bytes(1, "OB.") + ev_bytes(2, "OHe")
    streams.append(first)
    for k, body in enumerate(bodies):
        s = Stream(tid=2 + k, pid=1)
        s.raw_obs = HDR + body
        streams.append(s)
    write_trace(d, streams)
    tool = os.path.join(bdir, "src/emu/ovnisort")
    rc, _, err = run_tool(tool, ([] if n is None else ["-n", str(n)]) + [d], timeout=60)
    outs = []
    for s in streams[1:]:
        with open(os.path.join(d, s.relpath, "stream.obs"), "rb") as f:
            outs.append(f.read())
    import shutil
    shutil.rmtree(d, ignore_errors=True)
    return rc, outs, err


def run_big_offset(bdir, d):
    """A stream larger than 4 GiB (two maximal jumbo events, written as holes of a sparse file) with an
    unsorted region behind offset 2^32: the region must be sorted in place and nothing else touched."""
    s = Stream(tid=1, pid=1, cpus=[(0, 0)])
    s.raw_obs = HDR
    write_trace(d, [s])
    obs = os.path.join(d, s.relpath, "stream.obs")
    jsizes = [2**31 - 17, 2**31 - 17, 2**20]      # the largest jumbo size stream_step accepts, twice, and 1 MiB more
    region = [ev_bytes(100, "OU["), ev_bytes(130, "OB."), ev_bytes(110, "OB."), ev_bytes(120, "OB."), ev_bytes(140, "OU]"),
              ev_bytes(200, "OHe")]
    with open(obs, "wb") as f:
        f.write(HDR + OHX(1))
        for k, jsize in enumerate(jsizes):
            f.write(struct.pack("<B3sQI", 0x13, b"OB.", 10 + k, jsize))      # jumbo header + size, data = hole
            f.seek(jsize, 1)
        tail_at = f.tell()
        f.write(b"".join(region))
        end = f.tell()
    tool = os.path.join(bdir, "src/emu/ovnisort")
    rc, _, err = run_tool(tool, [d], timeout=120)
    with open(obs, "rb") as f:
        head = f.read(8 + 28 + 16)
        f.seek(tail_at)
        tail = f.read(end - tail_at)
        f.seek((tail_at + 12) % 2**32)
        wrapped = f.read(36)
        size = os.fstat(f.fileno()).st_size
    import shutil
    shutil.rmtree(d, ignore_errors=True)
    want = b"".join([region[0], region[2], region[3], region[1], region[4], region[5]])
    probs = []
    if rc != 0:
        probs.append(f"ovnisort exits {rc} on a sortable stream of {end} bytes")
    if tail != want:
        probs.append("the region behind offset 2^32 is not sorted in place")
    if wrapped.strip(b"\0"):
        probs.append("bytes at the offset modulo 2^32 (inside the first jumbo event) were overwritten")
    if size != end:
        probs.append(f"size changed {end} -> {size}")
    return probs, tail_at, err


def hx(b):
    return b.hex() if b else "-"


def unhx(s):
    return b"" if s == "-" else bytes.fromhex(s)


def check(res, tier, replay=None):
    res.cov["rule"] = ("single-stream traces written by the independent Python writer (OHx … OHe, OB. events with "
                       "0..16-byte and jumbo payloads, 1–4 OU[ OU] regions reaching back around the look-back n, equal "
                       "clocks, internally unordered regions; minority malformed: unterminated region, clock lowered "
                       "outside a region, clock >= 2^63, truncated last event, stray markers, no events) through the "
                       "real `ovnisort [-n N]`, `ovnisort -c`, `ovnisort` a second and a third time, `ovniemu -l`; "
                       "stream.obs byte-compared with the Lean model (drv_ovnisort) after each run, exit class compared; "
                       "Python oracle: stable sort, permutation, untouched prefix, -c verdict, loud failure, and as hard "
                       "requirements: a sorted input is left byte-identical with exit 0, and whenever a run leaves a "
                       "sorted stream the next two runs exit 0 and change no byte. The corpus starts with the witness "
                       "on which the second run used to fail. thorough adds all "
                       "streams of <=4 events over {OB.,OU[,OU]}x{1,2,3} (<=5 over 2 clocks) for n in 2..5. "
                       "non-trivial = at least one sort plan executed or a destination search failed")
    res.assumptions = ["qsort of glibc is stable for these sizes (merge sort); the correspondence compares bytes, so a "
                       "platform where it is not would be reported",
                       "MAP_PRIVATE mapping of stream.obs observes ovnisort's own pwrite (Linux page cache)",
                       "event sizes below 2^31 (corrupted jumbo sizes belong to C19)"]
    prep = engine.prepare(res, drivers=("drv_ovnisort",))
    proved = vcommon.prove(res, "C16")
    found = False
    if prep.bdir and prep.driver_ok:
        drv = engine.exe("drv_ovnisort")
        r = vcommon.rng("c16")
        cases = []
        if replay:
            for l in open(replay):
                if l.startswith("case "):
                    kv = dict(t.split("=", 1) for t in l.split()[1:])
                    cases.append((None if kv["n"] == "default" else int(kv["n"]), unhx(kv["body"]), {"replay"}))
        else:
            # fixed corpus, run first: the witness on which a second run with the same -n failed before
            # region_in_place (events moved in front of the first OU] enlarge that region beyond the window),
            # the same with equal clocks at the junction, and sorted streams whose regions have no event with
            # a strictly smaller clock within the look-back (the first run failed on them)
            def corpus(n, w):
                cases.append((n, b"".join(OHX(c) if m == "OHx" else ev_bytes(c, m) for (c, m) in w), {"corpus"}))
            corpus(7, [(0, "OHx"), (1, "OU["), (2, "OB."), (3, "OB."), (4, "OB."), (20, "OU]"), (21, "OU["),
                       (10, "OB."), (11, "OB."), (12, "OB."), (22, "OU]"), (30, "OHe")])
            corpus(7, [(0, "OHx"), (1, "OU["), (2, "OB."), (3, "OB."), (4, "OB."), (20, "OU]"), (21, "OU["),
                       (4, "OB."), (4, "OB."), (20, "OB."), (22, "OU]"), (30, "OHe")])
            corpus(3, [(5, "OHx"), (5, "OB."), (5, "OB."), (5, "OU["), (5, "OB."), (5, "OU]"), (6, "OHe")])
            corpus(2, [(0, "OHx"), (1, "OB."), (2, "OB."), (3, "OB."), (4, "OU["), (5, "OB."), (6, "OB."),
                       (7, "OU]"), (8, "OHe")])
            corpus(1, [(0, "OHx"), (1, "OU["), (1, "OB."), (1, "OU]"), (2, "OHe")])
            for _ in range(2500 if tier == "quick" else 20000):
                cases.append(gen_case(r, res))
            if tier == "thorough":
                cases += list(exhaustive_cases(4, (1, 2, 3), (2, 3, 4, 5)))
                cases += list(exhaustive_cases(5, (1, 2), (2, 3, 4, 5)))
        nn = [DEFAULT_N if n is None else n for (n, _, _) in cases]
        # ---- model, first pass
        lines = [f"ws {nn[i]} {hx(cases[i][1])}" for i in range(len(cases))]
        _, m1, merr = engine.run_lines(drv, lines, timeout=3000)
        if len(m1) != len(lines):
            prep.problems.append("drv_ovnisort stopped early: " + merr[-500:])
            m1 += ["ws die-driver - plans=- empty=0 pre=000"] * (len(lines) - len(m1))
        # ---- model: second pass and check mode on the model's own result
        lines2 = [f"ws {nn[i]} {m1[i].split()[2]}" for i in range(len(cases))]
        _, m2, _ = engine.run_lines(drv, lines2, timeout=3000)
        if len(m2) != len(lines2):
            prep.problems.append("drv_ovnisort stopped early in the second pass")
            m2 += ["ws die-driver - plans=- empty=0 pre=000"] * (len(lines2) - len(m2))
        _, m3, _ = engine.run_lines(drv, [f"ws {nn[i]} {m2[i].split()[2]}" for i in range(len(cases))], timeout=3000)
        if len(m3) != len(lines2):
            prep.problems.append("drv_ovnisort stopped early in the third pass")
            m3 += ["ws die-driver - plans=- empty=0 pre=000"] * (len(lines2) - len(m3))
        _, mc, _ = engine.run_lines(drv, [f"chk {m1[i].split()[2]}" for i in range(len(cases))], timeout=3000)
        # ---- implementation
        with Scratch("c16") as d:
            def job(i):
                return run_impl(prep.bdir, os.path.join(d, f"t{i % (4 * vcommon.NCPU)}-{i}"), cases[i][0], cases[i][1])
            with ThreadPoolExecutor(max_workers=vcommon.NCPU) as ex:
                impl = list(ex.map(job, range(len(cases))))
        # ---- compare + oracles
        for i, (n, body, tags) in enumerate(cases):
            mo = m1[i].split()
            mstat, mout, mplans, mpre = mo[1], unhx(mo[2]), mo[3][6:], mo[5][4:]
            im = impl[i]
            canon = f"case n={'default' if n is None else n} body={hx(body)}"
            nontriv = mplans != "-" or mstat != "ok"
            res.case(canon, nontrivial=nontriv)
            res.dist("n:" + ("default" if n is None else str(n) if n < 8 else "8+"))
            res.dist("model-status:" + mstat)
            res.dist("pre(regions,window,clocks):" + mpre)
            for t in tags:
                res.dist("gen:" + t)
            if mplans != "-":
                res.dist("plans:%d" % min(len(mplans.split(",")), 4))
            if i < 3 or (mstat != "ok" and len(res.cov["samples"]) < 5):
                res.sample({"case": canon[:300], "model": " ".join(mo[:2] + mo[3:]), "ovnisort_rc": im["rc1"],
                            "ovnisort_c_rc": im["rcc"], "second_rc": im["rc2"], "third_rc": im["rc3"], "ovniemu": im["emu"]})

            def viol(key, text):
                nonlocal found
                found = res.violation(key, text, canon + f"\n# model: {' '.join(mo[:2] + mo[3:])}\n# impl: rc={im['rc1']} "
                              f"rc-c={im['rcc']} rc2={im['rc2']} rc3={im['rc3']} emu={im['emu']}\n"
                              f"# stderr: {im['err1'][-600:]!r}\n# stderr of the second run: {im['err2'][-400:]!r}\n"
                              f"# impl stream.obs body after: {hx(im['obs1'][8:])}\n"
                              f"# replay: checks/check.py C16 --replay <this file>") or found

            evs, trunc = decode(body)
            nv = DEFAULT_N if n is None else n
            only, win, clk = preconditions(evs, nv)
            cls1 = status_class(im["rc1"], im["err1"])
            out1 = im["obs1"][8:]
            # -- correspondence: model vs implementation
            if cls1 != model_class(mstat):
                viol("corr:status", f"ovnisort exit class {cls1}, model {mstat}")
            if out1 != mout:
                viol("corr:bytes", "stream.obs after ovnisort differs from the model's result")
            if (mpre[0] == "1", mpre[1] == "1", mpre[2] == "1") != (only, win, clk) and not trunc:
                viol("corr:preconditions", f"Lean preconditions {mpre} vs Python {(only, win, clk)}")
            if status_class(im["rc2"], im["err2"]) != model_class(m2[i].split()[1]) or im["obs2"][8:] != unhx(m2[i].split()[2]):
                viol("corr:second-run", f"second run rc={im['rc2']} vs model {m2[i].split()[1]}, or bytes differ")
            if status_class(im["rc3"], im["err3"]) != model_class(m3[i].split()[1]) or im["obs3"][8:] != unhx(m3[i].split()[2]):
                viol("corr:third-run", f"third run rc={im['rc3']} vs model {m3[i].split()[1]}, or bytes differ")
            oevs, otrunc = decode(out1)
            # -- hard requirements (sorted_input_noop, second_run_noop): a sorted stream is left alone with
            #    exit 0, whatever its regions and the look-back; so the run after a run that left a sorted
            #    stream (in particular after every successful sort) exits 0 and changes no byte, and so does
            #    the one after that
            if evs and not trunc and is_sorted(evs):
                res.dist("input-already-sorted")
                if im["rc1"] != 0:
                    viol("oracle:sorted-input-status", f"input already sorted but ovnisort exits {im['rc1']}")
                if out1 != body:
                    viol("oracle:sorted-input-bytes", "input already sorted but ovnisort changed the stream")
            if oevs and not otrunc and is_sorted(oevs):
                if im["rc2"] != 0 or im["rc3"] != 0:
                    res.dist("second-run-fails")
                    viol("oracle:second-run-status",
                         f"ovnisort run again with the same -n on a sorted stream (left by the previous run, "
                         f"rc={im['rc1']}) fails: second rc={im['rc2']}, third rc={im['rc3']}")
                if im["obs2"] != im["obs1"] or im["obs3"] != im["obs1"]:
                    viol("oracle:second-run-bytes", "sorting again changed a sorted stream")
            want_c = (not otrunc) and len(oevs) > 0 and is_sorted(oevs)
            if (im["rcc"] == 0) != want_c:
                viol("oracle:check-mode", f"ovnisort -c rc={im['rcc']} but stream sorted={want_c}")
            if (mc[i] == "chk pass") != want_c:
                viol("corr:check-mode", f"model {mc[i]} but stream sorted={want_c}")
            # -- property oracles on the implementation's output
            if len(out1) != len(body):
                viol("oracle:size", "stream size changed")
            if sorted(e[2] for e in oevs) != sorted(e[2] for e in evs) or otrunc != trunc:
                viol("oracle:permutation", "events after sorting are not the original events")
            if im["rc1"] != 0 and "ERROR" not in im["err1"] and "FATAL" not in im["err1"]:
                viol("oracle:no-message", "non-zero exit without an error message")
            if mplans != "-":
                first = min(int(p.split(":")[0]) for p in mplans.split(","))
                pre_len = sum(len(e[2]) for e in evs[:first])
                if out1[:pre_len] != body[:pre_len]:
                    viol("oracle:prefix", f"bytes before event {first} changed")
            elif out1 != body:
                viol("oracle:prefix", "no plan in the model but the stream changed")
            if only and clk and evs and not trunc:
                if win:
                    res.dist("class:sortable")
                    stable = sorted(evs, key=lambda e: e[0])
                    if im["rc1"] != 0:
                        viol("oracle:must-succeed", "preconditions hold but ovnisort failed")
                    elif [e[2] for e in oevs] != [e[2] for e in stable]:
                        viol("oracle:stable-sort", "result is not the stable sort of the input")
                    else:
                        if im["rcc"] != 0:
                            viol("oracle:check-after-sort", "ovnisort -c fails after a successful sort")
                        if im["rc2"] != 0 or im["rc3"] != 0 or im["obs2"] != im["obs1"] or im["obs3"] != im["obs1"]:
                            # (also reported above with the generic keys; this one is the finding
                            # recorded in KNOWN_FINDINGS before region_in_place)
                            viol("second-run-fails-same-lookback",
                                 f"after a successful sort the second / third ovnisort with the same -n: "
                                 f"rc={im['rc2']}/{im['rc3']}, bytes changed={im['obs2'] != im['obs1'] or im['obs3'] != im['obs1']}")
                        if "exhaustive" not in tags and "mal:stray-marker" not in tags and im["emu"] != "ok":
                            viol("oracle:emu", f"ovniemu -l verdict {im['emu']} after a successful sort")
                else:
                    res.dist("class:beyond-window")
                    if im["rc1"] == 0:
                        viol("oracle:silent-success", "no destination inside the window but ovnisort exits 0")
            else:
                res.dist("class:outside-precondition")
                if im["rc1"] == 0 and im["rcc"] == 0 and not is_sorted(oevs):
                    viol("oracle:check-mode", "-c passes on an unsorted stream")
        # ---- extra passes on the cases the first run sorted successfully with at least one plan executed
        rtext = open(replay).read() if replay else ""
        if True:     # also when replaying: the extra passes run on the replayed cases
            sortable = [i for i in range(len(cases)) if impl[i]["rc1"] == 0 and impl[i]["obs1"][8:] != cases[i][1]]
            pick = sortable[: (60 if tier == "quick" else 600)]
            shim = build_shim()
            with Scratch("c16x") as d:
                # (a) the OS may cut every pwrite() short: the write loop must still place every byte
                if shim:
                    for i in pick:
                        for limit in (40, 7):
                            rc, data, err = run_short_pwrite(prep.bdir, os.path.join(d, f"sp{i}-{limit}"), cases[i][0], cases[i][1], shim, limit)
                            res.case(f"short-pwrite {limit} n={cases[i][0]} body={hx(cases[i][1])}")
                            res.dist("pass:short-pwrite")
                            if rc != 0 or data != impl[i]["obs1"]:
                                found = res.violation("oracle:short-pwrite", f"with every pwrite() cut to {limit} bytes ovnisort "
                                                      f"exits {rc} / leaves a different stream than with full writes",
                                                      f"case n={'default' if cases[i][0] is None else cases[i][0]} body={hx(cases[i][1])}\n"
                                                      f"# SHORT_PWRITE={limit} LD_PRELOAD=harness/shortpwrite.c\n# stderr: {err[-500:]!r}\n"
                                                      f"# stream body with short writes: {hx(data[8:])}\n# with full writes: {hx(impl[i]['obs1'][8:])}") or found
                else:
                    prep.problems.append("shortpwrite shim does not build")
                # (c) file offsets beyond 4 GiB (when replaying: only if the replay file is about it)
                probs, tail_at, err = ([], 0, "")
                if not replay or "offset-beyond-4GiB" in rtext:
                    probs, tail_at, err = run_big_offset(prep.bdir, os.path.join(d, "big"))
                    res.case("big-offset stream")
                    res.dist("pass:offset-beyond-4GiB")
                if probs:
                    found = res.violation("oracle:offset-beyond-4GiB", "; ".join(probs),
                                          f"# stream.obs: header, OHx@1, jumbo OB. events of 2^31-17, 2^31-17 and 2^20 data bytes (holes), then at offset "
                                          f"{tail_at}: OU[@100 OB.@130 OB.@110 OB.@120 OU]@140 OHe@200; run: ovnisort <trace>\n"
                                          f"# {'; '.join(probs)}\n# stderr: {err[-500:]!r}") or found
                # (b) several streams in one trace: every stream is sorted on its own, the result of each equals
                #     its single-stream result whatever the neighbours hold (the look-back ring is per stream)
                byn = {}
                for i in pick:
                    byn.setdefault(cases[i][0], []).append(i)
                for n, idx in byn.items():
                    for a in range(0, len(idx) - 1, 2):
                        grp = idx[a:a + 3]
                        rc, outs, err = run_multi(prep.bdir, os.path.join(d, f"mu{grp[0]}"), n, [cases[i][1] for i in grp])
                        res.case("multi " + " ".join(hx(cases[i][1]) for i in grp))
                        res.dist("pass:multi-stream")
                        bad = [k for k, i in enumerate(grp) if outs[k] != impl[i]["obs1"]]
                        if rc != 0 or bad:
                            found = res.violation("oracle:multi-stream", f"{len(grp) + 1} streams in one trace: ovnisort exits {rc}, "
                                                  f"streams {bad} differ from their single-stream result",
                                                  "\n".join(f"case n={'default' if n is None else n} body={hx(cases[i][1])}" for i in grp)
                                                  + f"\n# multi-stream trace: thread 1 = OHx@0 OB.@1 OHe@2, then these bodies as threads 2..\n"
                                                  f"# stderr: {err[-600:]!r}") or found
    for pr in prep.problems:
        res.failed_obligations = getattr(res, "failed_obligations", []) + [pr]
        proved = False
    if not proved:
        vcommon.obligations_failed(res, found)
