"""C20 helpers: structure-aware generator of nOS-V / Nanos6 breakdown traces,
the bookkeeping that turns a generated history into the per-CPU channel
changes (input of the Lean model), and the independent oracle that recomputes
the breakdown rows from cpu.prv."""
import os
import re

import gen
from ovnitrace import Prv, Stream, i32, read_pcf, read_rows, u32, u64

MODELS = {
    "nosv": dict(char="V", ns="Nosv", dir="nosv", bfile="nosv-breakdown"),
    "nanos6": dict(char="6", ns="Nanos6", dir="nanos6", bfile="nanos6-breakdown"),
}


def chan_info(ns):
    """channel names and the PRV type of each CPU channel, from Generated."""
    src = open(os.path.join(gen.OUT, ns + ".lean")).read()
    names = re.search(r"def chanNames : List String := \[(.*?)\]\n", src).group(1)
    names = [x.strip().strip('"') for x in names.split(",")]
    types = re.search(r"def cpuPvtType : List Nat := \[(.*?)\]\n", src).group(1)
    types = [int(x) for x in types.split(",")]
    return names, types


def model_tables(model, tabs):
    """push/pop pairs on the subsystem channel and the idle SET events."""
    t = tabs[MODELS[model]["dir"]]
    names, types = chan_info(MODELS[model]["ns"])
    ssi, tti, idi = names.index("subsystem"), names.index("task_type"), names.index("idle")
    ch = chr(t["char"])
    pushes = {}
    for (c, v, chan, act, val) in t["table"]:
        if chan == ssi and act == 1:
            pushes[val] = ch + chr(c) + chr(v)
    pairs = []
    for (c, v, chan, act, val) in t["table"]:
        if chan == ssi and act == 2 and val in pushes:
            pairs.append((val, pushes[val], ch + chr(c) + chr(v)))
    idle = {}
    for (c, v, chan, act, val) in t["table"]:
        if chan == idi and act == 3:
            idle[val] = ch + chr(c) + chr(v)
    return dict(pairs=sorted(set(pairs)), idle=idle, ss_type=types[ssi], tt_type=types[tti],
                idle_type=types[idi], version=t["version"], ch=ch)


class Th:
    def __init__(self, idx, tid, proc):
        self.idx, self.tid, self.proc = idx, tid, proc
        self.state = "new"
        self.cpu = None
        self.ss = []          # subsystem stack (values)
        self.tt = None        # typeid of the running task or None
        self.idle = None      # set from consts (PROGRESSING) at creation
        self.tasks = []       # stack of [taskid, typeid, 'run'|'paused']
        self.stream = None
        self.nev = 0


class Gen:
    """Random legal history. `stale` in {'none','A','B','AB'} controls whether
    task pause/resume may happen while the subsystem on top is "task body"
    (the only way the mux0 selection can go out of date)."""

    def __init__(self, r, model, mt, consts, ncpus, nthreads, nprocs, steps, stale, res=None, split=0):
        # split > 0: two looms; CPUs 0..split-1 belong to loom "node0" (processes with an even number), CPUs
        # split..ncpus-1 to loom "node1" (odd processes).  CPU numbers in the model lines stay global (the order
        # of the physical CPUs in the breakdown); OHx / OAs carry the loom-local index.
        if not (0 < split < ncpus and nprocs >= 2):
            split = 0
        self.split = split
        self.r, self.model, self.mt = r, model, mt
        self.BODY, self.UNK, self.PROG = consts
        self.REST = self.PROG + 1
        self.ncpus, self.stale, self.steps = ncpus, stale, steps
        self.res = res
        self.clk = 100
        self.threads = []
        for i in range(nthreads):
            th = Th(i, 1000 + i, i % nprocs)
            th.idle = self.PROG
            req = {"ovni": "1.1.0", model: mt["version"]}
            lo, hi = self.loom_range(th.proc)
            th.stream = Stream(loom="node%d" % self.loom_of(th.proc), tid=th.tid, pid=10 + th.proc,
                               cpus=[(c, c) for c in range(hi - lo)],
                               require=req, app_id=1 + th.proc)
            if model == "nosv":
                th.stream.meta["nosv"] = {"can_breakdown": True}
            self.threads.append(th)
        self.types = [[] for _ in range(nprocs)]      # typeids per proc
        self.tasks = [dict() for _ in range(nprocs)]  # taskid -> [typeid, state new|on|dead]
        self.next_task = [1] * nprocs
        self.running = [None] * ncpus                 # thread idx running on cpu
        self.lines = []      # (clock, "bd set ...") model input
        self.hist = []       # (clock, tid, mcv)
        self.evlog = []      # replayable event lines
        self.kinds = {}

    def loom_of(self, proc):
        return proc % 2 if self.split else 0

    def loom_range(self, proc):
        if not self.split:
            return 0, self.ncpus
        return (0, self.split) if proc % 2 == 0 else (self.split, self.ncpus)

    # ---- emission -----------------------------------------------------
    def tick(self):
        self.clk += self.r.choice([1, 1, 2, 3, 5, 10, 40])
        return self.clk

    def ev(self, th, mcv, payload=b"", jumbo=None):
        c = self.tick()
        th.stream.ev(c, mcv, payload, jumbo)
        th.nev += 1
        self.hist.append((c, th.tid, mcv))
        self.evlog.append("ev %d %d %s %s %s" % (th.tid, c, mcv.encode("latin1").hex(), payload.hex() or "-",
                                                 jumbo.hex() if jumbo is not None else "-"))
        self.kinds[mcv[:2]] = self.kinds.get(mcv[:2], 0) + 1
        return c

    def val(self, v):
        return "N" if v is None else str(v)

    def cpu_vals(self, th):
        """(tt, ss, idle) tokens seen by the CPU while `th` runs on it."""
        tt = "N" if th.tt is None else "T%d" % th.tt
        ss = self.val(th.ss[-1] if th.ss else None)
        return tt, ss, str(th.idle)

    def sel_change(self, clk, cpus):
        """th_running of these CPUs changed: the CPU track muxes re-select, in
        channel-index order task_type < subsystem < idle."""
        toks = []
        for c in cpus:
            ti = self.running[c]
            if ti is None:
                tt, ss, idle = "N", "N", str(self.REST)
            else:
                tt, ss, idle = self.cpu_vals(self.threads[ti])
            toks += [f"{c} tt {tt}", f"{c} ss {ss}", f"{c} idle {idle}"]
        self.lines.append((clk, "bd set " + " ".join(toks)))

    def chan_change(self, clk, th, chans):
        """channels of a thread changed (in this order); they reach the CPU only
        if the thread is the one running there."""
        if th.cpu is None or self.running[th.cpu] != th.idx:
            return
        tt, ss, idle = self.cpu_vals(th)
        m = {"tt": tt, "ss": ss, "idle": idle}
        self.lines.append((clk, "bd set " + " ".join(f"{th.cpu} {c} {m[c]}" for c in chans)))

    # ---- thread life cycle ----------------------------------------------
    def free_cpus(self, th=None):
        lo, hi = self.loom_range(th.proc) if th is not None else (0, self.ncpus)
        return [c for c in range(lo, hi) if self.running[c] is None]

    def act_thread(self, th):
        r = self.r
        st = th.state
        if st == "new":
            fc = self.free_cpus(th)
            if not fc:
                return False
            c = r.choice(fc)
            th.cpu = c
            clk = self.ev(th, "OHx", i32(c - self.loom_range(th.proc)[0], -1) + u64(0))
            th.state = "run"
            self.running[c] = th.idx
            self.sel_change(clk, [c])
            return True
        if st == "run":
            k = r.random()
            if k < 0.05:
                clk = self.ev(th, "OHp")
                th.state = "paused"
                self.running[th.cpu] = None
                self.sel_change(clk, [th.cpu])
                return True
            if k < 0.08:
                clk = self.ev(th, "OHc")
                th.state = "cool"
                self.running[th.cpu] = None
                self.sel_change(clk, [th.cpu])
                return True
            if k < 0.11:
                fc = self.free_cpus(th)
                if fc:
                    c = r.choice(fc)
                    old = th.cpu
                    clk = self.ev(th, "OAs", i32(c - self.loom_range(th.proc)[0]))
                    self.running[old] = None
                    self.running[c] = th.idx
                    th.cpu = c
                    self.sel_change(clk, [old, c])
                    return True
            return self.act_model(th)
        if st == "paused":
            if self.running[th.cpu] is None and r.random() < 0.7:
                clk = self.ev(th, "OHr")
                th.state = "run"
                self.running[th.cpu] = th.idx
                self.sel_change(clk, [th.cpu])
                return True
            if r.random() < 0.3:
                self.ev(th, "OHw")
                th.state = "warm"
                return True
            return False
        if st == "cool":
            if r.random() < 0.3:
                self.ev(th, "OHp")
                th.state = "paused"
                return True
            return self.act_model(th)
        if st == "warm":
            if self.running[th.cpu] is None and r.random() < 0.5:
                clk = self.ev(th, "OHr")
                th.state = "run"
                self.running[th.cpu] = th.idx
                self.sel_change(clk, [th.cpu])
                return True
            return self.act_model(th)
        return False

    # ---- model events ---------------------------------------------------
    def task_payload(self, taskid):
        return u32(taskid, 0) if self.model == "nosv" else u32(taskid)

    def act_model(self, th):
        r = self.r
        ch = self.mt["ch"]
        p = th.proc
        top = th.tasks[-1] if th.tasks else None
        sstop = th.ss[-1] if th.ss else None
        acts = []
        acts.append(("push", 3))
        if th.ss and sstop != self.BODY:
            acts.append(("pop", 4))
        acts.append(("idle", 1.5))
        if len(self.types[p]) < 4:
            acts.append(("type", 1 if self.types[p] else 6))
        if self.types[p]:
            acts.append(("create", 2))
        newt = [t for t, v in self.tasks[p].items() if v[1] == "new"]
        if newt and (top is None or top[2] == "paused") and len(th.tasks) < 4:
            if self.model == "nosv" or sstop != self.BODY:
                acts.append(("exec", 5))
        if top is not None and top[2] == "run":
            at_body = sstop == self.BODY
            if at_body:
                acts.append(("end", 3))
            if (not at_body) or "B" in self.stale:
                acts.append(("pause", 3 if not at_body else 2))
        if top is not None and top[2] == "paused":
            at_body = sstop == self.BODY
            if (not at_body) or "A" in self.stale:
                acts.append(("resume", 5))
        tot = sum(w for _, w in acts)
        x = r.random() * tot
        for a, w in acts:
            x -= w
            if x <= 0:
                break
        if a == "push":
            if len(th.ss) >= 8:
                return False
            val, pu, po = r.choice(self.mt["pairs"])
            if val == self.BODY:
                return False
            if th.ss and th.ss[-1] == val and self.model == "nanos6":
                return False      # no duplicate push on a non-dup channel
            clk = self.ev(th, pu)
            th.ss.append(val)
            self.chan_change(clk, th, ["ss"])
        elif a == "pop":
            val = th.ss[-1]
            po = [x for x in self.mt["pairs"] if x[0] == val][0][2]
            clk = self.ev(th, po)
            th.ss.pop()
            self.chan_change(clk, th, ["ss"])
        elif a == "idle":
            v = r.choice([x for x in self.mt["idle"] if x != th.idle])
            clk = self.ev(th, self.mt["idle"][v])
            th.idle = v
            self.chan_change(clk, th, ["idle"])
        elif a == "type":
            tid = len(self.types[p]) + 1
            self.ev(th, ch + "Yc", b"", u32(tid) + b"type%d\0" % tid)
            self.types[p].append(tid)
        elif a == "create":
            t = self.next_task[p]
            self.next_task[p] += 1
            ty = r.choice(self.types[p])
            self.ev(th, ch + "Tc", u32(t, ty))
            self.tasks[p][t] = [ty, "new"]
        elif a == "exec":
            t = r.choice(newt)
            ty = self.tasks[p][t][0]
            clk = self.ev(th, ch + "Tx", self.task_payload(t))
            self.tasks[p][t][1] = "on"
            th.tasks.append([t, ty, "run"])
            th.ss.append(self.BODY)
            th.tt = ty
            self.chan_change(clk, th, ["ss", "tt"])
        elif a == "end":
            clk = self.ev(th, ch + "Te", self.task_payload(top[0]))
            th.tasks.pop()
            self.tasks[p][top[0]][1] = "dead"
            th.ss.pop()
            th.tt = None
            self.chan_change(clk, th, ["ss", "tt"])
        elif a == "pause":
            clk = self.ev(th, ch + "Tp", self.task_payload(top[0]))
            top[2] = "paused"
            th.tt = None
            self.chan_change(clk, th, ["tt"])
        elif a == "resume":
            clk = self.ev(th, ch + "Tr", self.task_payload(top[0]))
            top[2] = "run"
            th.tt = top[1]
            self.chan_change(clk, th, ["tt"])
        return True

    # ---- drive to completion -------------------------------------------
    def finish_thread(self, th):
        if th.state == "new":
            return
        guard = 0
        while th.state != "dead" and guard < 200:
            guard += 1
            if th.state in ("paused", "warm"):
                if self.running[th.cpu] is not None:
                    other = self.threads[self.running[th.cpu]]
                    self.finish_thread(other)
                clk = self.ev(th, "OHr")
                th.state = "run"
                self.running[th.cpu] = th.idx
                self.sel_change(clk, [th.cpu])
                continue
            ch = self.mt["ch"]
            top = th.tasks[-1] if th.tasks else None
            sstop = th.ss[-1] if th.ss else None
            if top is not None and top[2] == "paused":
                if sstop == self.BODY and "A" not in self.stale:
                    # resume inside a region so that the selection stays fresh
                    val, pu, po = [x for x in self.mt["pairs"] if x[0] != self.BODY][0]
                    clk = self.ev(th, pu)
                    th.ss.append(val)
                    self.chan_change(clk, th, ["ss"])
                clk = self.ev(th, ch + "Tr", self.task_payload(top[0]))
                top[2] = "run"
                th.tt = top[1]
                self.chan_change(clk, th, ["tt"])
                continue
            if th.ss and sstop != self.BODY:
                po = [x for x in self.mt["pairs"] if x[0] == sstop][0][2]
                clk = self.ev(th, po)
                th.ss.pop()
                self.chan_change(clk, th, ["ss"])
                continue
            if top is not None:
                clk = self.ev(th, ch + "Te", self.task_payload(top[0]))
                th.tasks.pop()
                self.tasks[th.proc][top[0]][1] = "dead"
                th.ss.pop()
                th.tt = None
                self.chan_change(clk, th, ["ss", "tt"])
                continue
            clk = self.ev(th, "OHe")
            was_running = th.state == "run"
            th.state = "dead"
            if was_running:
                self.running[th.cpu] = None
                self.sel_change(clk, [th.cpu])

    def run(self):
        r = self.r
        for _ in range(self.steps):
            th = r.choice(self.threads)
            self.act_thread(th)
        for th in self.threads:
            self.finish_thread(th)
        # a thread that never started still needs a valid (empty-bodied) stream
        for th in self.threads:
            if th.state == "new":
                fc = self.free_cpus(th)
                c = fc[0] if fc else 0
                if not fc:
                    continue
                th.cpu = c
                clk = self.ev(th, "OHx", i32(c - self.loom_range(th.proc)[0], -1) + u64(0))
                self.running[c] = th.idx
                self.sel_change(clk, [c])
                clk = self.ev(th, "OHe")
                self.running[c] = None
                self.sel_change(clk, [c])
                th.state = "dead"
        return [th.stream for th in self.threads if th.nev > 0]


class Case:
    """A generated (or replayed) trace plus the model input derived from it."""

    def __init__(self, model, ncpus, threads, evlog, lines, label="", split=0):
        self.model, self.ncpus, self.split = model, ncpus, split
        self.threads = threads      # [(tid, pid, app_id, can_breakdown or None)]
        self.evlog = evlog          # "ev tid clock mcvhex payloadhex jumbohex"
        self.lines = lines          # [(clock, "bd set ...")]
        self.label = label

    @staticmethod
    def of_gen(g, only=None, label=""):
        ths = []
        for th in g.threads:
            if th.nev == 0 or (only is not None and th.idx not in only):
                continue
            cb = th.stream.meta.get("nosv", {}).get("can_breakdown") if g.model == "nosv" else None
            ths.append((th.tid, 10 + th.proc, 1 + th.proc, cb))
        return Case(g.model, g.ncpus, ths, list(g.evlog), list(g.lines), label, split=g.split)

    def text(self):
        out = ["e2e %s %d" % (self.model, self.ncpus) + (" %d" % self.split if self.split else "")]
        for (tid, pid, app, cb) in self.threads:
            out.append("th %d %d %d %s" % (tid, pid, app, "-" if cb is None else int(cb)))
        out += self.evlog
        out += ["md %d %s" % (c, l) for (c, l) in self.lines]
        return "\n".join(out) + "\n"

    @staticmethod
    def parse(txt):
        model, ncpus, ths, evs, lines = None, 0, [], [], []
        split = 0
        for ln in txt.split("\n"):
            t = ln.split()
            if not t or t[0].startswith("#"):
                continue
            if t[0] == "e2e":
                model, ncpus = t[1], int(t[2])
                split = int(t[3]) if len(t) > 3 else 0
            elif t[0] == "th":
                ths.append((int(t[1]), int(t[2]), int(t[3]), None if t[4] == "-" else bool(int(t[4]))))
            elif t[0] == "ev":
                evs.append(ln.strip())
            elif t[0] == "md":
                lines.append((int(t[1]), " ".join(t[2:])))
        if model is None:
            return None
        return Case(model, ncpus, ths, evs, lines, "replay", split=split)

    def streams(self, version):
        ss = {}
        for (tid, pid, app, cb) in self.threads:
            # processes are numbered 10 + proc; with a split, even processes live in node0, odd ones in node1
            odd = self.split and (pid - 10) % 2 == 1
            nloc = (self.ncpus - self.split if odd else self.split) if self.split else self.ncpus
            s = Stream(loom="node1" if odd else "node0", tid=tid, pid=pid, cpus=[(c, c) for c in range(nloc)],
                       require={"ovni": "1.1.0", self.model: version}, app_id=app)
            if cb is not None:
                s.meta["nosv"] = {"can_breakdown": cb}
            ss[tid] = s
        for ln in self.evlog:
            t = ln.split()
            tid, clk, mcv = int(t[1]), int(t[2]), bytes.fromhex(t[3]).decode("latin1")
            pl = b"" if t[4] == "-" else bytes.fromhex(t[4])
            jb = None if t[5] == "-" else bytes.fromhex(t[5])
            ss[tid].ev(clk, mcv, pl, jb)
        return [s for s in ss.values() if s.events]

    def t0(self):
        return min(int(l.split()[2]) for l in self.evlog)

    def pretty(self):
        return "\n".join("# %s %s %s" % (l.split()[2], l.split()[1], bytes.fromhex(l.split()[3]).decode("latin1"))
                         for l in self.evlog)


# --------------------------------------------------------------------------
# reading the emulator's output
# --------------------------------------------------------------------------

def step_fn(tl, key):
    return tl.get(key, [])


def value_at(steps, t):
    v = 0
    for (tt, vv) in steps:
        if tt <= t:
            v = vv
        else:
            break
    return v


def spec_value(consts, ss, tt, idle):
    """Independent statement of the property: task type while in a task body
    (with a task), else the subsystem (`Unknown subsystem` if none), replaced
    by the idle state when not progressing.  0 is NULL."""
    body, unk, prog = consts
    tr = tt if (ss == body and tt != 0) else (unk if ss == 0 else ss)
    return tr if idle == prog else idle


def read_outputs(td, model, mt):
    """Returns (times, actual(t)->rows, oracle(t)->rows, nphys)."""
    cpu = Prv(os.path.join(td, "cpu.prv"))
    names, _ = read_rows(os.path.join(td, "cpu.row"))
    phys = [i + 1 for i, n in enumerate(names) if not n.strip().startswith("vCPU")]
    bd = Prv(os.path.join(td, MODELS[model]["bfile"] + ".prv"))
    ctl = cpu.timeline()
    btl = bd.timeline()
    btypes = sorted({k[1] for k in btl})
    times = sorted({t for (t, _, _, _) in cpu.records} | {t for (t, _, _, _) in bd.records})
    return dict(cpu=ctl, bd=btl, phys=phys, btypes=btypes, times=times, nrows=bd.nrows,
                bad=cpu.bad_lines + bd.bad_lines)


def rows_actual(o, t):
    bt = o["btypes"][0] if o["btypes"] else 0
    return [value_at(step_fn(o["bd"], (row, bt)), t) for row in range(1, len(o["phys"]) + 1)]


def rows_oracle(o, t, mt, consts):
    vals = []
    for row in o["phys"]:
        ss = value_at(step_fn(o["cpu"], (row, mt["ss_type"])), t)
        tt = value_at(step_fn(o["cpu"], (row, mt["tt_type"])), t)
        idle = value_at(step_fn(o["cpu"], (row, mt["idle_type"])), t)
        vals.append(spec_value(consts, ss, tt, idle))
    return sorted(vals)


def type_gids(td, mt):
    """label -> gid from cpu.pcf (so that the check never re-implements the hash)."""
    pcf = read_pcf(os.path.join(td, "cpu.pcf"))
    ent = pcf.get(mt["tt_type"])
    out = {}
    if ent:
        for v, label in ent[1].items():
            out[label] = v
    return out
