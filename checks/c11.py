"""C11 — concurrent tracing threads are isolated; process init/fini happen exactly once."""
import os
import shutil

import c01
import c11_lib
import engine
import rt_lib
import vcommon
from ovnitrace import Scratch

PID = "C11"

META_OPS = ["cpu 0 0", "cpu 1 3", "cpu 2 17", "require nosv 2.4.0", "require nanos6 1.1.0", "require tampi 1.0.0",
            "rank 0 4", "rank 3 4", "attr test.a 35", "attr test.b 7b2278223a317d", "attr x.y.z 22737472696e6722",
            "attr test.a 5b312c322c335d", "attrflush", "marktype 7 1 6d61726b", "marktype 3 0 74797065"]
# illegal steps the stream model (Rt/Buffer) knows about: payload of 1 byte, mark value 0,
# jumbo with a payload, jumbo larger than the buffer
BAD_OPS = ["ev 414243 now 01", "mark 91 1 0", "jumbo 414243 now 10 0 - 0102", "jumbo 414243 now 2097136 0 -"]


def small_script(r, res):
    ops = ["init"]
    for _ in range(r.randrange(1, 9)):
        k = r.random()
        if k < 0.6:
            op, _ = c01.ev_op(r)
            res.dist("op:ev")
        elif k < 0.75:
            op, _ = c01.jumbo_op(r, r.choice([0, 1, 17, 600, 601, 5000]))
            res.dist("op:jumbo-small")
        elif k < 0.85:
            op = "flush"
            res.dist("op:flush")
        elif k < 0.95:
            op = "mark %d %d %d" % (r.choice([91, 93, 61]), r.randrange(0, 100), r.choice([1, 2, -1, 2**40]))
            res.dist("op:mark")
        else:
            op = "tick %d" % r.choice([0, 1, 5, 1000])
            res.dist("op:tick")
        ops.append(op)
    ops += ["flush", "free"] if r.random() < 0.8 else ["free"]
    return ops


def thread_script(r, res, big):
    if big:
        ops = c01.gen_script(r, res, conformant=True).split(" ; ")
    else:
        ops = small_script(r, res)
    used_types = set()
    for _ in range(r.choice([0, 0, 1, 2, 3, 5])):
        op = r.choice(META_OPS)
        if op.startswith("marktype"):
            if op.split()[1] in used_types:
                continue
            used_types.add(op.split()[1])
        ops.insert(r.randrange(1, len(ops)), op)
        res.dist("op:" + op.split()[0])
    return ops


def gen_case(r, res, tier):
    """One multi-threaded case: 'seed | script0 | script1 | ...'; returns (line, scripts, die)"""
    kind = r.random()
    maxn = 8 if tier == "quick" else 24
    if kind < 0.3:
        n = r.randrange(2, 5)
        big = True
        res.dist("case:boundary-scripts")
    else:
        n = r.choice([2, 2, 3, 4, 6, maxn])
        big = False
        res.dist("case:small-scripts")
    scripts = [thread_script(r, res, big and (i < 2 or r.random() < 0.3)) for i in range(n)]
    die = None
    if r.random() < 0.12:
        i = r.randrange(n)
        pos = r.randrange(1, len(scripts[i]))
        scripts[i].insert(pos, r.choice(BAD_OPS))
        die = (i, pos)
        res.dist("case:one-thread-dies")
    res.dist("threads:%d" % n)
    scripts = [" ; ".join(s) for s in scripts]
    seed = r.randrange(1, 2**31)
    return "%d | %s" % (seed, " | ".join(scripts)), scripts, die


def gen_tmpdir_case(r, res):
    """Threads that each write a bulky stream (jumbo events, several flushes) and free it at about
    the same time: with OVNI_TMPDIR set the relocations run concurrently."""
    n = r.choice([2, 3, 4, 6])
    scripts = []
    for i in range(n):
        ops = ["init"]
        for j in range(r.randrange(2, 6)):
            ln = r.choice([40000, 150000, 600000, 1500000])
            ops.append("jumbo 4a%02x%02x now %d %d -" % (0x41 + i, 0x61 + j, ln, r.randrange(256)))
            if r.random() < 0.5:
                ops.append("ev 4f422e now")
        ops += ["flush", "free"]
        scripts.append(" ; ".join(ops))
    res.dist("case:tmpdir-bulk")
    res.dist("threads:%d" % n)
    return "%d | %s" % (r.randrange(1, 2**31), " | ".join(scripts)), scripts, None


def parse_case(line):
    parts = [p.strip() for p in line.split("|")]
    return line.strip(), parts[1:], None


def run_mt_cases(res, prep, cases, tag, tsan_cases=0, env_extra=None):
    """cases: [(line, scripts, die)]. Real multi-threaded run vs single-threaded
    reference (real library) vs drv_rt / drv_conc (Lean). Returns found."""
    found = False
    h_mt = c11_lib.build_mt(prep.bdir)
    h_st = rt_lib.build_harness(prep.bdir)
    drv_rt = engine.exe("drv_rt")
    drv_conc = engine.exe("drv_conc")
    allscripts = [s for (_, scripts, _) in cases for s in scripts]
    _, m_rt, _ = engine.run_lines(drv_rt, allscripts)
    _, m_conc, _ = engine.run_lines(drv_conc, ["mt " + c[0] for c in cases])
    gi = 0
    with Scratch(tag) as d:
        CH = 12
        for b in range(0, len(cases), CH):
            chunk = cases[b:b + CH]
            sub = os.path.join(d, "m%d" % b)
            ref = os.path.join(d, "r%d" % b)
            os.makedirs(sub)
            os.makedirs(ref)
            out, err = c11_lib.run_mt(h_mt, sub, [c[0] for c in chunk], env_extra=env_extra)
            flat = [s for c in chunk for s in c[1]]
            rout, rerr = rt_lib.run_scripts(h_st, ref, flat)
            fi = 0
            for k, (line, scripts, die) in enumerate(chunk):
                ci = b + k
                outcome = out[k] if k < len(out) else "<missing>"
                res.dist("outcome:" + outcome.split("@")[0].split(" t")[0])
                conc_lines = (m_conc[ci] if ci < len(m_conc) else "").split(" | ")
                probs, breaks = [], []
                nev = 0
                any_die = None
                for i, sc in enumerate(scripts):
                    tid = 100 + i
                    td = c11_lib.thread_dir(sub, k, tid)
                    mt_obs = c11_lib.read_file(os.path.join(td, "stream.obs")) or b""
                    mt_meta = c11_lib.read_file(os.path.join(td, "stream.json"))
                    st_obs = rt_lib.read_stream(ref, fi)
                    st_meta = c11_lib.read_file(rt_lib.meta_path(ref, fi))
                    st_out = rout[fi].split()[0] if fi < len(rout) else "<missing>"
                    ml = m_rt[gi] if gi < len(m_rt) else "<missing>"
                    if ml in ("bad-op", "<missing>"):
                        moc, mbytes = ml, b""
                    else:
                        moc, mbytes, _ = rt_lib.expand_model(ml)
                    hdr_ok, recs, trailing = rt_lib.decode_stream(mt_obs)
                    nev += len(recs)
                    # model level: interleaved model == sequential model (thread_isolation executed)
                    cl = conc_lines[i] if i < len(conc_lines) else "<missing>"
                    ml_cmp = " ".join(x for x in ml.split(" ") if not x.startswith("marks="))
                    if cl != ml_cmp:
                        breaks.append(f"thread {i}: drv_conc (interleaved model) '{cl[:90]}' != drv_rt '{ml[:90]}'")
                    # reference level: single-threaded library == Lean buffer model (C01's tie, re-checked here)
                    if st_out != moc or st_obs != mbytes:
                        breaks.append(f"thread {i}: single-threaded libovni differs from drv_rt ({st_out} vs {moc}, "
                                      f"offset {rt_lib.first_diff(mbytes, st_obs)})")
                    if st_out.startswith("die@"):
                        any_die = (i, int(st_out[4:]))
                    complete = outcome == "returned"
                    if complete:
                        # isolation on the real library: per thread, bytes and metadata as if alone
                        if mt_obs != st_obs:
                            probs.append(f"thread {i} (tid {tid}): stream.obs differs from the single-threaded run of the "
                                         f"same script at offset {rt_lib.first_diff(st_obs, mt_obs)} "
                                         f"({len(mt_obs)} vs {len(st_obs)} bytes)")
                        if c11_lib.canon_meta(mt_meta) != c11_lib.canon_meta(st_meta):
                            probs.append(f"thread {i} (tid {tid}): stream.json differs from the single-threaded run")
                        # independent oracle on the multi-threaded stream
                        o = c01.oracle_c01(sc, "returned", recs, hdr_ok, trailing)
                        if o:
                            probs.append(f"thread {i}: " + "; ".join(o))
                    else:
                        # the process aborted: every file is what the thread had written so far
                        if not st_obs.startswith(mt_obs):
                            probs.append(f"thread {i} (tid {tid}): after the abort stream.obs is not a prefix of the "
                                         f"single-threaded stream (offset {rt_lib.first_diff(st_obs, mt_obs)})")
                    fi += 1
                    gi += 1
                # outcome of the whole process
                if outcome.startswith("crash") or outcome == "<missing>" or outcome == "tsan":
                    probs.append(f"process outcome {outcome}")
                elif any_die is None and outcome != "returned":
                    probs.append(f"no script dies alone but the multi-threaded process ended with '{outcome}'")
                elif any_die is not None:
                    want = "die t%d@%d" % any_die
                    if outcome != want:
                        probs.append(f"expected '{want}' (the only illegal step), got '{outcome}'")
                res.case(line, nontrivial=nev > 0)
                if ci < 3:
                    res.sample({"case": line[:300], "outcome": outcome, "threads": len(scripts), "events_on_disk": nev})
                if probs:
                    found = True
                    res.violation(f"{tag}:isolation:" + probs[0][:50].replace(" ", "_"),
                                  "multi-threaded run on libovni differs from the per-thread expectation: " + "; ".join(probs[:4]),
                                  line + "\n# outcome: " + outcome + "\n# " + "\n# ".join(probs[:8]) + "\n# " + err[-600:].replace("\n", "\n# "))
                elif breaks:
                    res.cov.setdefault("correspondence_breaks", []).append({"case": line[:300], "what": "; ".join(breaks[:3])})
            shutil.rmtree(sub, ignore_errors=True)
            shutil.rmtree(ref, ignore_errors=True)
        # ---- ThreadSanitizer (supporting evidence)
        if tsan_cases:
            h_ts = c11_lib.build_mt(prep.bdir, tsan=True)
            tc = [c for c in cases if c[2] is None][:tsan_cases]
            sub = os.path.join(d, "tsan")
            os.makedirs(sub)
            nrep, nrun = 0, 0
            for b in range(0, len(tc), 10):
                chunk = tc[b:b + 10]
                out, err = c11_lib.run_mt(h_ts, sub, [c[0] for c in chunk], verbose=True, env_extra=env_extra)
                nrun += len(chunk)
                reps = c11_lib.tsan_reports(err)
                nrep += len(reps)
                res.dist("tsan:cases", len(chunk))
                if reps or any(o == "tsan" for o in out):
                    found = True
                    bad = [chunk[i][0] for i, o in enumerate(out) if o == "tsan"] or [chunk[0][0]]
                    where = reps[0] if reps else "unknown"
                    res.violation(f"{tag}:tsan:" + where.split(" in ")[-1][:60].replace(" ", "_"),
                                  "ThreadSanitizer reports a data race inside libovni: " + where,
                                  bad[0] + "\n# " + "\n# ".join(reps[:6]) + "\n# " + err[-2500:].replace("\n", "\n# "))
                shutil.rmtree(sub, ignore_errors=True)
                os.makedirs(sub)
            res.cov["tsan"] = {"cases_run": nrun, "reports": nrep}
    return found


def run_races(res, prep, plan, tag):
    """plan: [(which, M, iters)] on the real library. Exactly one thread may get
    past ovni_proc_init / ovni_proc_fini; with M >= 2 the process must abort."""
    found = False
    h = c11_lib.build_mt(prep.bdir)
    with Scratch(tag) as d:
        for which, m, iters in plan:
            s = c11_lib.run_race(h, which, m, iters, d)
            line = f"race {which} {m} {iters}"
            res.case(line, nontrivial=m >= 2)
            res.dist(f"race-runs:{which}", iters)
            res.dist(f"race:{which}:winner-observed", s.get("past1", 0))
            res.dist(f"race:{which}:aborted-before-winner-returned", s.get("past0", 0) if m >= 2 else 0)
            res.sample({"race": line, "result": s.get("_line", "")}, limit=10)
            probs = []
            if s.get("runs") != iters or s.get("_rc") != 0:
                probs.append("harness failed: " + s.get("_line", "")[:200])
            else:
                if s.get("past2plus", 0) > 0:
                    probs.append(f"{s['past2plus']} of {iters} runs had more than one thread get past ovni_proc_{which} "
                                 f"(up to {s.get('maxpast')})")
                if s.get("other", 0) > 0:
                    probs.append(f"{s['other']} runs ended with neither exit nor SIGABRT")
                if m >= 2 and s.get("exited", 0) > 0:
                    probs.append(f"{s['exited']} of {iters} runs did not abort although {m} threads raced (a loser must die)")
                if m == 1 and (s.get("aborted", 0) > 0 or s.get("past1", 0) != iters):
                    probs.append("a single caller did not get through")
            if probs:
                found = True
                res.violation(f"{tag}:race:{which}:" + ("two-winners" if s.get("past2plus", 0) else "outcome"),
                              f"ovni_proc_{which} raced by {m} threads: " + "; ".join(probs),
                              line + "\n# " + s.get("_line", "") + "\n# " + "\n# ".join(probs))
    return found


def model_races(res, prep, info, tag):
    """All interleavings in the Lean model, with the step lists generated from
    the C source. Returns {which: witness line} for the violated ones."""
    drv = engine.exe("drv_conc")
    lines = [f"race {w} {n} gen" for w in ("init", "fini") for n in (1, 2, 3, 4)]
    _, out, _ = engine.run_lines(drv, lines)
    wit = {}
    for l, o in zip(lines, out):
        res.case(l, nontrivial=True, validated=False)
        res.dist("model-race:" + o.split()[0])
        if not o.startswith("once"):
            wit.setdefault(l.split()[1], f"{l} -> {o}")
    res.cov["model_races"] = dict(zip(lines, out))
    # one initialiser + one thread calling ovni_thread_init: READY must not be visible early
    _, pout, _ = engine.run_lines(drv, ["publish gen"])
    res.case("publish gen", nontrivial=True, validated=False)
    res.cov["model_publication"] = pout[0] if pout else "<missing>"
    if not pout or not pout[0].startswith("safe"):
        wit["publication"] = "publish gen -> " + (pout[0] if pout else "<missing>")
    return wit


def check(res, tier, replay=None):
    res.cov["rule"] = (
        "T: gen_footprint (clang AST of src/rt/ovni.c + src/common.c) regenerated and compiled into the theorems; its API "
        "list must equal libovni.so's exported ovni_* symbols. X: random multi-threaded cases (2..8 threads quick, ..24 thorough; "
        "per-thread scripts of init/ev/jumbo/mark/flush/tick/cpu/require/rank/attr/attrflush/marktype/free, a third of the cases "
        "with jumbos aimed at the 2 MiB boundary, ~12% with one illegal step) run on the real ovni.c (ASan+UBSan) with barriers, "
        "yields, sleeps and spins from a per-thread PRNG; per thread stream.obs and stream.json must equal the single-threaded "
        "run of the same script on the real library, the bytes predicted by drv_rt, and drv_conc (the interleaved Lean model under "
        "a pseudo-random schedule) must equal drv_rt; independent C01 oracle on every multi-threaded stream; a subset re-run under "
        "ThreadSanitizer. Races: M threads released by a spinning barrier all call ovni_proc_init / ovni_proc_fini in forked "
        "children, markers in shared memory: at most one may get past, M>=2 must abort; all interleavings of 1..4 racing calls "
        "enumerated in the model. non-trivial = at least one event on disk / M>=2")
    res.assumptions = [
        "thread-local storage is private to its thread; operations on the atomic_int rproc.st are sequentially consistent single steps",
        "die() is modelled as the death of the calling thread (every real execution, where abort() stops the process, is a prefix of a modelled one)",
        "the footprint is syntactic (clang AST): aliasing through pointers is handled conservatively (address taken = write), libc/parson internals are below it",
        "ThreadSanitizer and the barrier stress runs are supporting evidence only: they see the schedules the OS happens to produce",
        "clock_gettime is replaced by a per-thread deterministic counter",
        "threads use pairwise distinct tids (what gettid() gives); the same-tid case is shown to break isolation in Props/C11",
    ]
    problems = []
    info = None
    # the footprint must be regenerated before anything in lean/ is built
    try:
        bdir0 = vcommon.repo_build("plain")
        changed, info = c11_lib.gen_footprint(bdir0)
        res.cov["footprint_changed"] = changed
        problems += c11_lib.selfcheck(bdir0, info)
        res.cov["footprint"] = {
            "api_functions": len(info["api"]), "shared_globals": info["shared_globals_all"],
            "thread_locals": info["thread_locals"],
            "proc_init_st_ops": info["functions"].get("ovni_proc_init", {}).get("st_ops"),
            "proc_fini_st_ops": info["functions"].get("ovni_proc_fini", {}).get("st_ops"),
            "writers_of_rproc": sorted(f for f, v in info["functions"].items() if v["writes"]),
        }
    except vcommon.BuildError as e:
        problems.append("gen_footprint: " + str(e)[-1500:])
    prep = engine.prepare(res, drivers=("drv_conc", "drv_rt"))
    proved = vcommon.prove(res, "C11")
    found = False
    if prep.bdir and prep.driver_ok:
        r = vcommon.rng("c11")
        quick = tier == "quick"
        if replay:
            lines = [l.strip() for l in open(replay) if l.strip() and not l.startswith("#")]
            plan = [(p[1], int(p[2]), int(p[3])) for p in (l.split() for l in lines if l.startswith("race "))]
            cases = [parse_case(l) for l in lines if "|" in l]
            if plan:
                found |= run_races(res, prep, plan, "c11")
            if cases:
                found |= run_mt_cases(res, prep, cases, "c11", tsan_cases=len(cases))
        else:
            # the model: every interleaving of the generated step lists
            wit = model_races(res, prep, info, "c11")
            # the library: barrier stress
            it = 250 if quick else 2000
            # the model found a two-winner schedule for the generated list: try harder to make that race fire
            plan = [(w, m, (it * (10 if w in wit else 1)) if m >= 2 else 20)
                    for w in ("init", "fini") for m in (1, 2, 3, 4, 8)]
            if not quick:
                plan += [(w, 16, it) for w in ("init", "fini")]
            found |= run_races(res, prep, plan, "c11")
            for w, line in wit.items():
                res.cov.setdefault("model_witness", {})[w] = line
                if w == "publication":
                    res.failed_obligations = getattr(res, "failed_obligations", []) + [
                        "model: with the generated step list of ovni_proc_init a concurrent ovni_thread_init can see READY "
                        f"before rproc is complete: {line} (no program that respects the API can show it on the library: "
                        "ovni_thread_init may only be called after ovni_proc_init has returned)"]
                    proved = False
                elif not found:
                    res.failed_obligations = getattr(res, "failed_obligations", []) + [
                        f"model: the generated step list of ovni_proc_{w} admits a schedule with != 1 winner: {line} "
                        "(replayed on the library with the barrier stress harness: the race did not fire)"]
                    proved = False
            # the library: isolation
            n = 160 if quick else 4000
            cases = [gen_case(r, res, tier) for _ in range(n)]
            found |= run_mt_cases(res, prep, cases, "c11", tsan_cases=(30 if quick else 500) * (3 if not proved else 1))
            # the same isolation requirement in relocation mode (OVNI_TMPDIR): every thread's
            # ovni_thread_free copies its stream to the final directory while the others do the
            # same; bulky streams so that the copies overlap (seeded C01-7: a function-static
            # copy buffer in move_thread_to_final)
            tcases = [gen_tmpdir_case(r, res) for _ in range(24 if quick else 400)]
            found |= run_mt_cases(res, prep, tcases, "c11-tmpdir", tsan_cases=(6 if quick else 60),
                                  env_extra={"RT_TMPDIR": "1"})
        for b in res.cov.get("correspondence_breaks", [])[:3]:
            proved = False
            res.failed_obligations = getattr(res, "failed_obligations", []) + ["correspondence: " + b["what"] + " on: " + b["case"][:200]]
    for pr in problems + prep.problems:
        res.failed_obligations = getattr(res, "failed_obligations", []) + [pr]
        proved = False
    if not proved:
        vcommon.obligations_failed(res, found)
