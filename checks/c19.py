"""C19 — tools are total: any trace bytes give a clean exit, never a crash or hang."""
import json
import os
import struct
from concurrent.futures import ThreadPoolExecutor

import c1219_lib as L
import engine
import gen
import vcommon
from ovnitrace import Scratch, ev_bytes, i32, u32, u64

PID = "C19"

JUMBO_SIZES = [0, 1, 2, 3, 4, 5, 0x7fffffef, 0x7ffffff0, 0x7ffffffb, 0x7ffffffc, 0x80000000, 0xffffffef,
               0xfffffff0, 0xfffffff1, 0xfffffffb, 0xfffffffc, 0xffffffff, 0x00010000]


class Mut:
    def __init__(self, op, label, tr, stream_level=True):
        self.op, self.label, self.tr, self.stream_level = op, label, tr, stream_level
        self.results = {}     # tool -> (rc, outcome, err)
        self.model = {}       # (sidx, unsorted) -> model line

    def replay_text(self):
        blob = {"label": self.label, "op": self.op,
                "streams": [{"relpath": s.relpath, "json": s.json_text(), "obs": s.obs().hex()}
                            for s in self.tr.materialise()]}
        return "#replay " + json.dumps(blob) + "\n" + self.tr.describe()


def raw_ev(flags, mcv, clock, rest=b""):
    return struct.pack("<B3sQ", flags & 0xff, mcv.encode("latin1"), clock) + rest


def unsorted_seed(r, tabs):
    tr = L.seed_trace(r, tabs, "one")
    evs = tr.streams[0][1]
    k = len(evs) - 1
    c = evs[k - 1].clock
    region = [L.Ev(c + 1, "OU["), L.Ev(c + 30, "OB."), L.Ev(c + 10, "OB."), L.Ev(c + 20, "OB."), L.Ev(c + 31, "OU]")]
    evs[k:k] = region
    return tr


def multi_unsorted_seed(r, tabs):
    """Three streams: the first with low clocks, the others with an unsorted region whose events belong
    before everything else of their own stream (a per-stream tool state that leaks into the next stream
    would show here)."""
    tr = L.seed_trace(r, tabs, "three")
    for sidx in (1, 2):
        evs = tr.streams[sidx][1]
        c0 = evs[0].clock
        for e in evs:
            e.clock += 500
        k = len(evs) - 1
        c = evs[k - 1].clock
        evs[k:k] = [L.Ev(c + 1, "OU["), L.Ev(c0 + 3, "OB."), L.Ev(c0 + 1, "OB."), L.Ev(c0 + 2, "OB."), L.Ev(c + 2, "OU]")]
    return tr


def stream_mutants(r, tr, tier, res):
    out = []
    thorough = tier == "thorough"
    for sidx in range(len(tr.streams)):
        evs = tr.streams[sidx][1]
        # ---- size field of jumbo events, and a normal event turned jumbo with a chosen size
        for i, e in enumerate(evs):
            sizes = JUMBO_SIZES if thorough else r.sample(JUMBO_SIZES, 3)
            if e.jumbo is not None:
                if not thorough:
                    sizes = sorted(set(sizes) | {0xfffffff0, 3, len(e.jumbo) + 1})
                for n in sizes:
                    t = tr.clone()
                    t.streams[sidx][1][i].raw = raw_ev(0x13, e.mcv, e.clock, u32(n) + e.jumbo)
                    out.append(Mut("jumbo-size", f"s{sidx} ev{i} {e.mcv} jumbo size={n:#x} (data {len(e.jumbo)})", t))
            elif thorough or r.random() < 0.25:
                for n in sizes:
                    t = tr.clone()
                    t.streams[sidx][1][i].raw = raw_ev(0x10 | (3 if r.random() < 0.7 else r.randrange(16)), e.mcv, e.clock,
                                                       u32(n) + e.payload[4:])
                    out.append(Mut("to-jumbo", f"s{sidx} ev{i} {e.mcv} made jumbo size={n:#x}", t))
        # ---- an event every model ignores, with the size that makes ovni_ev_size() == 0
        for i, e in enumerate(evs):
            if e.mcv in ("OB.", "OU[") and e.jumbo is None:
                t = tr.clone()
                t.streams[sidx][1][i].raw = raw_ev(0x13, e.mcv, e.clock, u32(0xfffffff0))
                out.append(Mut("zero-size", f"s{sidx} ev{i} {e.mcv} made jumbo size=0xfffffff0", t))
                break
        # ---- flags nibble / high bits / jumbo bit
        for i, e in enumerate(evs):
            if not thorough and r.random() < 0.5:
                continue
            b = e.bytes()
            cands = [b[0] ^ 0x10, (b[0] & 0xf0) | r.randrange(16), b[0] | r.choice([0x20, 0x40, 0x80]), r.randrange(256)]
            for f in (cands if thorough else [r.choice(cands)]):
                t = tr.clone()
                t.streams[sidx][1][i].raw = bytes([f]) + b[1:]
                out.append(Mut("flags", f"s{sidx} ev{i} {e.mcv} flags {b[0]:#04x}->{f:#04x}", t))
        # ---- payload shapes: declared events stored with no / short / long payload
        for i, e in enumerate(evs):
            if e.jumbo is not None:
                continue
            for n in ([0, 2, 3, 4, 8, 12, 16] if thorough else r.sample([0, 2, 4, 8, 16], 2)):
                if n == len(e.payload):
                    continue
                t = tr.clone()
                t.streams[sidx][1][i].payload = (e.payload + bytes(r.randrange(256) for _ in range(16)))[:n]
                out.append(Mut("payload-shape", f"s{sidx} ev{i} {e.mcv} payload {len(e.payload)}->{n}", t))
        # ---- jumbo data: unterminated label, shorter than its fixed fields
        for i, e in enumerate(evs):
            if e.jumbo is not None:
                for data in (e.jumbo.rstrip(b"\0"), e.jumbo[:2], b"", e.jumbo.rstrip(b"\0") + b"x" * 300):
                    t = tr.clone()
                    t.streams[sidx][1][i].jumbo = data
                    out.append(Mut("jumbo-data", f"s{sidx} ev{i} {e.mcv} jumbo data {data[:12]!r}({len(data)})", t))
                    # ... as the very last event of the stream (the thread still running: no OHe after it)
                    t = tr.clone()
                    ev = t.streams[sidx][1].pop(i)
                    ev.jumbo = data
                    if t.streams[sidx][1][-1].mcv == "OHe":
                        t.streams[sidx][1].pop()
                    ev.clock = t.streams[sidx][1][-1].clock
                    t.streams[sidx][1].append(ev)
                    out.append(Mut("jumbo-data-last", f"s{sidx} {e.mcv} jumbo data {data[:12]!r}({len(data)}) as last event", t))
        # ---- truncation and trailing garbage
        obs = tr.obs(sidx)
        ks = range(0, len(obs)) if thorough else sorted(r.sample(range(0, len(obs)), min(len(obs), 10)))
        # always: no file content at all, a partial header, the 8-byte header alone (a stream without events next
        # to streams that have some: seeded C19-7 read the first event of the first stream unconditionally), one
        # byte of the first event, the first event header short by one, the first event header complete
        ks = sorted(set(ks) | {k for k in (0, 4, 7, 8, 9, 19, 20) if k < len(obs)})
        for k in ks:
            t = tr.clone()
            t.streams[sidx][0].raw_obs = obs[:k]
            out.append(Mut("truncate", f"s{sidx} cut at {k}/{len(obs)}", t))
        for n in ([1, 4, 8, 11, 12, 13, 15, 16, 17, 28, 40] if thorough else r.sample([1, 11, 12, 15, 16, 28], 2)):
            for fill in (0x00, 0xff, None):
                t = tr.clone()
                tail = bytes([fill]) * n if fill is not None else bytes(r.randrange(256) for _ in range(n))
                t.streams[sidx][0].raw_obs = obs + tail
                out.append(Mut("trailing", f"s{sidx} + {n} bytes {'random' if fill is None else hex(fill)}", t))
        # ---- random byte edits
        for _ in range(40 if thorough else 6):
            k = r.randrange(8, len(obs))
            t = tr.clone()
            t.streams[sidx][0].raw_obs = obs[:k] + bytes([r.randrange(256)]) + obs[k + 1:]
            out.append(Mut("byte", f"s{sidx} byte {k} edited", t))
    return out


def json_mutants(r, tr, tier):
    out = []
    junk = ["x", "", 0, -1, 1e300, -1e300, 2**31, 2**53, 0.5, True, False, None, [], {}, [1, 2], {"a": 1}, "\u0000", "a" * 5000]
    paths = ["version", "ovni", "ovni.lib", "ovni.lib.version", "ovni.lib.commit", "ovni.part", "ovni.tid", "ovni.pid",
             "ovni.loom", "ovni.app_id", "ovni.require", "ovni.require.ovni", "ovni.finished", "ovni.loom_cpus",
             "ovni.rank", "ovni.nranks", "ovni.mark", "nosv", "ovni.require.nosv"]
    for sidx in range(len(tr.streams)):
        base = tr.streams[sidx][0].meta
        for p in paths:
            vals = junk if tier == "thorough" else r.sample(junk, 3)
            for v in vals:
                t = tr.clone()
                m = t.streams[sidx][0].meta
                ks = p.split(".")
                cur = m
                okp = True
                for k in ks[:-1]:
                    if not isinstance(cur.get(k), dict):
                        cur[k] = {}
                    cur = cur[k]
                cur[ks[-1]] = v
                out.append(Mut("json-type", f"s{sidx} {p}={json.dumps(v)[:40]}", t, stream_level=False))
        cpusets = [[(1, 1), (0, 0)], [(0, 0), (0, 5)], [(0, 0), (1, 0)], [(5, 5)], [(-1, 0)], [(0, -1)], [(2**31, 0)],
                   [(0, 0)] * 3, "x", [1, 2], [{"index": "a"}], [{}], [[]], [None]]
        for cs in cpusets:
            t = tr.clone()
            if isinstance(cs, list) and cs and isinstance(cs[0], tuple):
                val = [{"index": i, "phyid": p} for (i, p) in cs]
            else:
                val = cs
            t.streams[sidx][0].meta["ovni"]["loom_cpus"] = val
            out.append(Mut("json-cpus", f"s{sidx} loom_cpus={json.dumps(val)[:60]}", t, stream_level=False))
        text = tr.streams[sidx][0].json_text()
        raws = ["", "{", "[", "nul", "{\"version\":3", "[" * 3000 + "]" * 3000, "{\"a\":" * 3000 + "1" + "}" * 3000,
                text.replace("3", "3e999", 1), text[:len(text) // 2], "\xff\xfe" + text, text + "garbage",
                text.replace("\"thread\"", "\"thr\\u0000ead\""), "// c\n" + text, text.replace(":", ": /* c */", 2)]
        for raw in raws:
            t = tr.clone()
            t.streams[sidx][0].raw_json = raw
            out.append(Mut("json-raw", f"s{sidx} json={raw[:30]!r}({len(raw)})", t, stream_level=False))
        # mark metadata (ovni.mark.<type>)
        for mk in [{"1": {"title": "t", "chan_type": "single", "labels": {"1": "a"}}},
                   {"1": {"title": 3, "chan_type": [], "labels": "x"}}, {"x": {}}, {"1": None},
                   {"1": {"title": "t", "chan_type": "stack", "labels": {"a": 1, "2": None}}},
                   {str(2**40): {"title": "t", "chan_type": "single"}}, {"-1": {"title": "t", "chan_type": "single"}}]:
            t = tr.clone()
            t.streams[sidx][0].meta["ovni"]["mark"] = mk
            out.append(Mut("json-mark", f"s{sidx} mark={json.dumps(mk)[:60]}", t, stream_level=False))
    return out


def deep_nesting_mutants(r, tabs):
    """Semantically extreme but well-formed streams: more nested pushes on one
    channel than its stack holds (MAX_CHAN_STACK = 512).  The emulator must
    refuse with its diagnostic (exit 1), never write past the stack."""
    import struct
    out = []
    pairs = L.model_pairs(tabs)
    for depth in (511, 512, 513, 600, 1100):
        # mark stack channel
        tr = L.seed_trace(r, tabs, "one")
        s, evs = tr.streams[0]
        s.meta["ovni"]["mark"] = {"1": {"title": "deep", "chan_type": "stack"}}
        clk = evs[0].clock
        ins = []
        for k in range(depth):
            clk += 1
            ins.append(L.Ev(clk, "OM[", struct.pack("<qi", 1 + k % 7, 1)))
        for e in evs[1:]:
            e.clock += depth + 5
        evs[1:1] = ins
        out.append(Mut("deep", f"{depth} nested OM[ on a stack mark", tr, stream_level=False))
    for m in ("nosv", "nanos6", "openmp", "mpi"):
        if m not in pairs:
            continue
        for depth in (513, 700):
            tr = L.seed_trace(r, tabs, "one")
            s, evs = tr.streams[0]
            s.meta["ovni"]["require"][m] = tabs[m]["version"]
            clk = evs[0].clock
            ins = []
            for k in range(depth):
                clk += 1
                ins.append(L.Ev(clk, pairs[m][0]))
            for e in evs[1:]:
                e.clock += depth + 5
            evs[1:1] = ins
            out.append(Mut("deep", f"{depth} nested {pairs[m][0]}", tr, stream_level=False))
    return out


def open_region_mutants(r, tabs):
    """Well-formed streams whose thread ends (OHe) inside an open region of each model (enter without
    leave, one and two levels): `ovniemu -l` must refuse them in its finish path, without crashing there."""
    out = []
    pairs = L.model_pairs(tabs)
    for m in sorted(pairs):
        if m in ("ovni", "kernel"):
            continue
        for depth in (1, 2):
            tr = L.seed_trace(r, tabs, "two")
            for sidx in (0, 1):
                s, evs = tr.streams[sidx]
                s.meta["ovni"]["require"][m] = tabs[m]["version"]
            s, evs = tr.streams[0]
            k = len(evs) - 1
            c = evs[k - 1].clock
            evs[k:k] = [L.Ev(c + 1 + j, pairs[m][0]) for j in range(depth)] if depth == 1 or m in ("nosv", "nanos6") \
                else [L.Ev(c + 1, pairs[m][0])]
            for e in evs[k + depth:]:
                e.clock = max(e.clock, c + 10)
            out.append(Mut("open-region", f"{m}: thread ends inside {depth} open {pairs[m][0]}", tr, stream_level=False))
    return out


def all_mutants(r, tier, tabs, res):
    muts = deep_nesting_mutants(r, tabs) + open_region_mutants(r, tabs)
    mtr = multi_unsorted_seed(r, tabs)
    muts.append(Mut("control", "multi-stream unsorted seed", mtr))
    mm = stream_mutants(r, mtr, "quick", res)
    muts += mm[:40] + [m for m in mm[40:] if m.op == "truncate" and " cut at 8/" in m.label]
    nseeds = 2 if tier == "quick" else 6
    for i in range(nseeds):
        tr = unsorted_seed(r, tabs) if i % 3 == 1 else L.seed_trace(r, tabs, ["jumbo", "one", "models", "two"][i % 4])
        muts.append(Mut("control", f"seed {i}", tr))
        muts += stream_mutants(r, tr, tier if i < 2 else "quick", res)
        if i < (1 if tier == "quick" else 3):
            muts += json_mutants(r, tr, tier)
    return muts


def predicted_key(m):
    """Stable key from what the Lean cursor says about the mutated streams."""
    for (sidx, u), line in sorted(m.model.items()):
        t = line.split()
        if t[0] == "hang":
            return "hang"
        if t[0] == "ub":
            return "evsize-int-overflow"
        if t[0] == "oob":
            return "evsize-negative-offset" if len(t) > 2 and t[2].startswith("-") else "stream-header-overread"
    return None


def classify(m, tool, oc, err):
    pk = predicted_key(m)
    if oc == "timeout":
        return f"evsize-nonpositive-loop:{tool}" if pk == "hang" else f"timeout:{tool}:{m.op}"
    frame = L.top_repo_frame(err)
    if oc.startswith(("asan", "signal", "ubsan")):
        if frame in ("print_arg", "format_region", "ev_spec_print") or (tool == "ovnidump" and oc == "signal:11" and
                                                                         m.op in ("payload-shape", "flags", "byte", "to-jumbo")):
            return f"print-arg-short-payload:{tool}"
        if frame in ("loom_get_cpu", "load_cpus") or (m.op == "json-cpus" and oc == "signal:11"):
            return "load-cpus-null-cpus-array"
        if frame == "task_type_create":
            return "jumbo-string-unterminated"
        if frame == "pre_type" and m.op.startswith("jumbo-data"):
            return "jumbo-data-short"
        if "signed-overflow" in oc or (frame == "ovni_ev_size" and oc.startswith("ubsan")):
            return "evsize-int-overflow"
        if pk in ("evsize-negative-offset", "stream-header-overread", "evsize-int-overflow"):
            return pk
        if pk == "hang":
            return f"evsize-nonpositive-loop:{tool}"
    if oc == "abort":
        mm = [l for l in err.split("\n") if "FATAL" in l or "die" in l]
        fn = mm[0].split(":")[2].strip() if mm and len(mm[0].split(":")) > 2 else "?"
        return f"die-abort:{tool}:{fn}"
    return f"crash:{tool}:{oc}:{m.op}"


def load_replay(path):
    out = []
    from ovnitrace import Stream
    for line in open(path):
        if line.startswith("#replay "):
            blob = json.loads(line[len("#replay "):])
            tr = L.Tr()
            for sd in blob["streams"]:
                s = Stream()
                s.relpath = sd["relpath"]
                s.raw_json = sd["json"]
                s.raw_obs = bytes.fromhex(sd["obs"])
                tr.add(s, [])
            out.append(Mut(blob["op"], blob["label"], tr))
    return out


def check(res, tier, replay=None):
    hook = L.hook_present()
    res.cov["rule"] = ("structure-aware mutants of valid traces (jumbo size field incl. the int-wrap values, flags "
                       "nibble / jumbo bit / high bits, payload shapes, unterminated or too short jumbo data, truncation "
                       "at every offset class, trailing bytes, byte edits; JSON types / values / CPU lists / raw text / "
                       "mark metadata) through ovniemu, ovnidump, ovnitop, ovnisort built with ASan+UBSan, 5 s timeout: "
                       "outcome must be exit 0 or 1; every mutated stream also through the real stream.c with an "
                       "exact-size heap buffer (ASan harness) and the Lean cursor (exact diff incl. over-read / overflow / "
                       "hang predictions), and the tools' exit class is compared with the cursor's verdict. "
                       "non-trivial = the tool got to opening the trace. heap-buffer hook in the tools: "
                       + ("present (OVNI_VERIF_HEAPBUF=1 set for ovniemu/ovnidump/ovnitop)" if hook else
                          "absent (over-reads of the mmap'ed stream are only visible in the stream.c harness)"))
    res.assumptions = ["parson on arbitrary JSON, handlers behind the front end and die()->abort() are covered by the "
                       "sanitizer run only (no theorem)",
                       "memory beyond the stream file reads as zero in the model driver"]
    res.cov["heapbuf_hook"] = hook
    prep = engine.prepare(res, asan=True, drivers=("drv_stream",))
    proved = vcommon.prove(res, "C19")
    found = False
    _viol = res.violation
    seen = {}

    def violation_once(key, text, content):
        seen[key] = seen.get(key, 0) + 1
        res.dist("violation:" + key)
        if seen[key] == 1:
            return _viol(key, text, content)
        return False
    res.violation = violation_once
    if prep.bdir and prep.bdir_asan and prep.driver_ok:
        r = vcommon.rng("c19")
        tabs = gen.load_tables()
        harness = L.stream_harness(prep)
        muts = load_replay(replay) if replay else all_mutants(r, tier, tabs, res)
        with Scratch("c19") as d:
            # ---- stream layer first (cheap): real stream.c vs Lean cursor, both `unsorted` settings
            lines, owners = [], []
            for m in muts:
                if not m.stream_level:
                    continue
                for sidx in range(len(m.tr.streams)):
                    for u in (0, 1):
                        lines.append(f"cur {u} " + (m.tr.obs(sidx).hex() or "-"))
                        owners.append((m, sidx, u))
            hx = os.path.join(d, "hx")
            os.makedirs(hx, exist_ok=True)
            impl, model = L.run_stream_layer(prep, harness, lines, hx, res)
            pad = ["<missing>"] * len(lines)
            for (m, sidx, u), l, a, b in zip(owners, lines, impl + pad, model + pad):
                m.model[(sidx, u)] = b
                res.dist("stream-model:" + (L.model_class(b) if b != "<missing>" else "missing"))
                if a != L.canon_model(b):
                    found = True
                    res.violation("stream-corr:" + m.op, f"real stream.c says '{a}', Lean cursor says '{b}' ({m.label})",
                                  l + f"\n# impl: {a}\n# model: {b}\n" + m.replay_text())
                elif a.split()[0] in ("oob", "ub", "hang", "crash"):
                    t = b.split()
                    key = {"oob": "stream-header-overread", "ub": "evsize-int-overflow",
                           "hang": "evsize-nonpositive-loop:stream_step"}.get(t[0], "crash:stream_step")
                    if t[0] == "oob" and len(t) > 2 and t[2].startswith("-"):
                        key = "evsize-negative-offset"
                    found = True
                    res.violation(key, f"stream_step on the real stream.c (exact-size buffer, ASan+UBSan): {a} on {m.op}: "
                                  f"{m.label}; the Lean cursor predicts it ({b})", l + "\n" + m.replay_text())
            # ---- the four tools
            hangs = [m for m in muts if predicted_key(m) == "hang"]
            budget = 3 if tier == "quick" else 12
            skip = set(id(m) for m in hangs[budget:])     # each costs 4 x 5 s; the class is covered by the first ones
            res.cov["hang_mutants_not_run_through_tools"] = len(skip)
            todo = [m for m in muts if id(m) not in skip]

            def work(chunk):
                for j, m in chunk:
                    for tool in L.TOOLS:
                        td = os.path.join(d, "w%d" % chunk[0][0])
                        m.tr.write(td)
                        rc, out, err = L.run_one(prep.bdir_asan, tool, td, heapbuf=hook)
                        m.results[tool] = (rc, L.outcome(rc, err), err, len(out))
            idx = list(enumerate(todo))
            n = max(1, vcommon.NCPU)
            chunks = [idx[k::n] for k in range(n) if idx[k::n]]
            with ThreadPoolExecutor(n) as ex:
                list(ex.map(work, chunks))
            nsample = 0
            for m in todo:
                res.dist("op:" + m.op)
                for tool in L.TOOLS:
                    rc, oc, err, nout = m.results[tool]
                    res.case(tool + "|" + m.op + "|" + m.tr.describe(), nontrivial="loaded" in err or rc == 1 or nout > 0)
                    res.dist(f"{tool}:{oc if oc in ('clean', 'timeout', 'abort') else oc.split(':')[0]}")
                    if oc == "clean":
                        res.dist(f"{tool}:exit{rc}")
                    if oc != "clean":
                        found = True
                        key = classify(m, tool, oc, err)
                        if os.environ.get("C19_DEBUG"):
                            vcommon.log(f"DEBUG {key} | {tool} {oc} | {m.op}: {m.label}")
                        res.violation(key, f"{tool}: {oc} on {m.op}: {m.label}", m.replay_text() + "\n" + err[-2500:])
                        continue
                    # exit class vs the cursor's verdict (streams only)
                    if m.stream_level and m.model:
                        u = 0 if tool == "ovniemu" else 1
                        cls = [L.model_class(m.model[(s, u)]) for s in range(len(m.tr.streams))]
                        has_region = any(e.mcv in ("OU[", "OU]") for s, evs in m.tr.streams for e in evs) or \
                            any(b"OU[" in m.tr.obs(s) or b"OU]" in m.tr.obs(s) for s in range(len(m.tr.streams)))
                        if tool == "ovnisort":
                            # ovnisort steps every stream itself: an event-less (inactive) stream makes
                            # stream_step fail ("stream is inactive"), the player-based tools skip it
                            cls = ["reject" if len(m.tr.obs(s)) == 8 and c == "accept" else c
                                   for s, c in enumerate(cls)]
                        if all(c in ("accept", "reject") for c in cls):
                            if "reject" in cls and rc == 0:
                                found = True
                                res.violation(f"verdict:{tool}:{m.op}", f"{tool} exits 0 although the cursor rejects a stream "
                                              f"({m.label}; model {m.model})", m.replay_text() + "\n" + err[-1500:])
                            if "reject" not in cls and rc == 1 and tool in ("ovnidump", "ovnitop") or \
                                    ("reject" not in cls and rc == 1 and tool == "ovnisort" and not has_region):
                                found = True
                                res.violation(f"verdict:{tool}:{m.op}", f"{tool} exits 1 although the cursor lets every stream "
                                              f"through ({m.label}; model {m.model})", m.replay_text() + "\n" + err[-1500:])
                if nsample < 5 and m.op in ("jumbo-size", "payload-shape", "truncate", "json-cpus", "flags"):
                    nsample += 1
                    res.sample({"op": m.op, "mutant": m.label, "model": list(m.model.values())[:2],
                                "tools": {t: m.results[t][1] for t in L.TOOLS}})
    for pr in prep.problems:
        res.failed_obligations = getattr(res, "failed_obligations", []) + [pr]
        proved = False
    if not proved:
        vcommon.obligations_failed(res, found)
