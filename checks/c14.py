"""C14 — version gating follows semantic versioning (runtime + emulator)."""
import itertools
import os

import engine
import gen
import vcommon
from ovnitrace import Scratch, Stream, i32, u64, run_emu, verdict, write_trace

PID = "C14"
ALPHA = "0123456789" * 3 + "...." + "+- \t" + "abxz"


def hx(s):
    if isinstance(s, str):
        s = s.encode("latin1")
    return s.hex() if s else "-"


def num_variants(r):
    base = r.choice([0, 1, 2, 3, 7, 10, 11, 12, 99, 2**31 - 1, 2**31, 2**32 - 1, 2**32, 2**32 + 5,
                     2**63 - 1, 2**63, 2**63 + 1, 2**64, 10**20, r.randrange(0, 50)])
    s = str(base)
    k = r.random()
    if k < 0.08:
        s = "0" * r.randrange(1, 4) + s
    elif k < 0.14:
        s = r.choice([" ", "\t", "  "]) + s
    elif k < 0.20:
        s = r.choice(["+", "-"]) + s
    elif k < 0.24:
        s = s + r.choice(["x", " ", "a1", "+"])
    elif k < 0.27:
        s = ""
    elif k < 0.30:
        s = r.choice([" ", "+", "-", "- 1", "+-1", " -0", "-0"])
    return s


def structured_version(r):
    n = r.choice([0, 1, 2, 3, 3, 3, 3, 3, 4, 5])
    fields = [num_variants(r) for _ in range(n)]
    sep = lambda: r.choice([".", ".", ".", ".", "..", "-", ",", ""])
    s = ""
    if r.random() < 0.05:
        s = r.choice([".", "..", "-", ".-"])
    for i, f in enumerate(fields):
        s += f
        if i + 1 < len(fields):
            s += sep()
    if r.random() < 0.25:
        s += r.choice(["-rc1", "-", ".", "-1.2", ".4", "-beta.2", " "])
    if r.random() < 0.03:
        s += "9" * r.randrange(40, 70)
    return s


def unit_lines(r, tier):
    lines = []
    for t in itertools.product(range(4), repeat=6):
        lines.append("ver compat " + " ".join(map(str, t)))
    # numbers where a packed, narrowed or signed comparison would differ from the componentwise one
    big = [0, 1, 2, 255, 256, 32767, 32768, 65535, 65536, 65537, 131072, 2**31 - 2, 2**31 - 1]
    for wM, wm, hM, hm in itertools.product([0, 1, 2, 65536], big, [0, 1, 2, 65536], big):
        lines.append("ver compat %d %d 0 %d %d 0" % (wM, wm, hM, hm))
    fixed = ["", "1", "1.", "1.2", "1.2.", "1.2.3", "1.2.3-", "1.2.3-rc", "1.2.3.4", ".1.2.3", "1..2.3",
             "1.2.-3", "1.2.3.", "a.b.c", "1.2.c", "1.2.3c", " 1.2.3", "1. 2.3", "1.2. 3", "1.2.3 ",
             "+1.2.3", "-1.2.3", "1.-2.3", "1.2.--3", "-0.0.0", "01.02.03", "1.2.2147483647",
             "1.2.2147483648", "1.2.4294967296", "1.2.4294967297", "1.2.9223372036854775807",
             "1.2.9223372036854775808", "1.2.-9223372036854775808", "1.2.-9223372036854775809",
             "1.2.-4294967295", "1.2.-4294967296", "1-2-3", "1.2-3", "1.2.3-4-5", "\t1.\n2.\r3",
             "1.11.0", "1.12.0", "1.0.0", "0.11.0", "2.0.0", "1.11.99", "1.10.7-x",
             "9" * 63, "9" * 64, "1.2." + "0" * 59, "1.2." + "0" * 60, "1.2.3" + "-" * 58, "1.2.3" + "-" * 59,
             "١.٢.٣", "1.2.3\x7f", "1\x01.2.3", "1.2.3\xff"]
    nrand = 1500 if tier == "quick" else 40000
    strs = list(fixed)
    for _ in range(nrand):
        if r.random() < 0.7:
            strs.append(structured_version(r))
        else:
            strs.append("".join(r.choice(ALPHA) for _ in range(r.randrange(0, 12))))
    for s in strs:
        b = s.encode("utf-8") if any(ord(c) > 255 for c in s) else s.encode("latin1")
        b = bytes(x for x in b if x != 0)
        lines.append("ver parse " + hx(b))
    lines.append("ver parsenull")
    lines.append("ver checknull")
    chk = fixed + [f"1.{m}.{p}" for m in range(0, 14) for p in (0, 5)] + [f"{M}.11.0" for M in range(0, 4)]
    chk += [structured_version(r) for _ in range(60 if tier == "quick" else 600)]
    for s in chk:
        b = s.encode("utf-8") if any(ord(c) > 255 for c in s) else s.encode("latin1")
        b = bytes(x for x in b if x != 0)
        lines.append("ver check " + hx(b))
    return lines


def pick_version(r, have, res):
    """A requirement string for a provider version `have` = 'a.b.c', with its class."""
    a, b, c = map(int, have.split("."))
    k = r.random()
    if k < 0.45:
        res.dist("req:compatible")
        return f"{a}.{r.randrange(0, b + 1)}.{r.randrange(0, 9)}"
    if k < 0.60:
        res.dist("req:minor-too-new")
        return f"{a}.{b + r.randrange(1, 3)}.0"
    if k < 0.75:
        res.dist("req:major-differs")
        if r.random() < 0.3:
            # a different major hidden behind a huge or wrapping minor
            return f"{max(a - 1, 0) if a > 0 else a + 1}.{r.choice([65536, 65536 + b, 131072 + b, 2**31 - 1, 2**16 * (a + 1)])}.0"
        return f"{a + r.choice([-1, 1, 2])}.{b}.{c}" if a > 0 else f"{a + 1}.{b}.{c}"
    if k < 0.87:
        res.dist("req:malformed")
        if r.random() < 0.35:
            # the provider's own version followed by text that is not a '-' suffix: malformed although it
            # starts with a compatible version (seeded C14-9: a strncmp fast path in should_enable)
            res.dist("req:malformed-own-version-prefix")
            return have + r.choice(["rc1", "x", " beta", "a.1", "_1", ".x", "+"])
        return r.choice(["", "1", "1.0", "x.y.z", "1.0.x", "1..", "-1.0.0", "1.0.0.0.0x", "1.2.3c",
                         str(a) + "." + str(b), structured_version(r)[:40]])
    res.dist("req:odd-but-parsable")
    return r.choice([f" {a}.{b}.{c}", f"+{a}.{b}.{c}", f"{a}..{b}.{c}", f"{a}.{b}.{c}-rc1", f"{a}.{b}.{c}.7",
                     f"0{a}.0{b}.0{c}"])


def e2e_cases(r, tier, tabs, res):
    """Traces whose only interesting feature is the require sets and which
    models' events appear."""
    cases = []
    n = 120 if tier == "quick" else 1500
    # a legal enter/leave pair for each table-driven model (ovni handled apart)
    pairs = {}
    for m, t in tabs.items():
        pushes = [(c, v, ch, val) for (c, v, ch, act, val) in t["table"] if act == 1]
        for (c, v, ch, val) in pushes:
            pops = [(c2, v2) for (c2, v2, ch2, act2, val2) in t["table"] if act2 == 2 and ch2 == ch and val2 == val]
            if pops:
                pairs[m] = (chr(t["char"]) + chr(c) + chr(v), chr(t["char"]) + chr(pops[0][0]) + chr(pops[0][1]))
                break
    pairs["kernel"] = ("KCO", "KCI")
    for i in range(n):
        nth = r.choice([1, 1, 2, 3])
        all_models = r.random() < 0.25
        # which models' events appear (besides ovni)
        evm = [m for m in pairs if r.random() < 0.25]
        threads = []
        for t in range(nth):
            k = r.random()
            if k < 0.04:
                req = None        # no require object at all
                res.dist("thread:no-require-object")
            else:
                req = {}
                if r.random() < 0.93:
                    req["ovni"] = pick_version(r, tabs["ovni"]["version"], res) if r.random() < 0.3 else tabs["ovni"]["version"]
                for m in tabs:
                    if m == "ovni":
                        continue
                    p = 0.75 if m in evm else 0.15
                    if r.random() < p:
                        req[m] = pick_version(r, tabs[m]["version"], res) if r.random() < 0.45 else tabs[m]["version"]
                if r.random() < 0.05:
                    req["nonexistent"] = "1.0.0"
            threads.append(req)
        cases.append((all_models, evm, threads, pairs))
    return cases


def build_trace(case):
    all_models, evm, threads, pairs = case
    streams = []
    for t, req in enumerate(threads):
        s = Stream(tid=100 + t, pid=1, cpus=[(i, i) for i in range(len(threads))] if t == 0 else None,
                   require=req if req is not None else {})
        if req is None:
            del s.meta["ovni"]["require"]
        clk = 10 + t
        s.ev(clk, "OHx", i32(t, -1) + u64(0))
        if t == 0:
            for m in evm:
                clk += 10
                s.ev(clk, pairs[m][0])
                clk += 10
                s.ev(clk, pairs[m][1])
        s.ev(1000 + t, "OHe")
        streams.append(s)
    return streams


def gate_line(case, tabs):
    all_models, evm, threads, pairs = case
    evs = [tabs["ovni"]["char"]] + [tabs[m]["char"] for m in evm]
    reqs = []
    for req in threads:
        if req is None:
            reqs.append("N")
        elif not req:
            reqs.append("-")
        else:
            reqs.append(",".join(f"{k}:{hx(v)}" for k, v in req.items()))
    return "ver gate %d %s %s" % (1 if all_models else 0, ",".join(map(str, evs)), " ".join(reqs))


def check(res, tier, replay=None):
    res.cov["rule"] = ("unit: exhaustive {0..3}^6 compat pairs + fixed malformed corpus + structure-aware random "
                       "version strings, each through the real version.h / ovni_version_check_str (C harness) and the "
                       "Lean model; e2e: random require-sets x model subsets x -a through ovniemu vs the model's "
                       "gateVerdict. non-trivial = string reaches strtol of at least one field, or trace reaches model_probe")
    res.assumptions = ["strtol/strtok_r/isspace behave as in glibc C locale (modelled)",
                       "parson returns the require strings unchanged (ASCII)"]
    prep = engine.prepare(res)
    proved = vcommon.prove(res, "C14")
    found = False
    if prep.bdir and prep.driver_ok:
        r = vcommon.rng("c14")
        # ---------------- unit correspondence ----------------
        h = vcommon.cc_harness("version_h", [os.path.join(vcommon.HARNESS, "version_h.c")], prep.bdir,
                               libs=[os.path.join(prep.bdir, "src/rt/libovni-static.a"),
                                     os.path.join(prep.bdir, "src/libparson-static.a"),
                                     os.path.join(prep.bdir, "src/libcommon-static.a")])
        lines = unit_lines(r, tier)
        if replay:
            lines = [l.strip() for l in open(replay) if l.startswith("ver ")]
        _, impl, _ = engine.run_lines(h, lines)
        _, model, _ = engine.run_lines(prep.driver, lines)
        for i, l in enumerate(lines):
            nontriv = not l.startswith("ver parse -")
            res.case(l, nontrivial=nontriv)
            res.dist("unit:" + l.split()[1])
            if i < len(impl):
                res.dist("impl:" + " ".join(impl[i].split()[:2])[:12] if impl[i].startswith("parse none") or not impl[i].startswith("parse") else "impl:parse ok")
        for (i, l, a, b) in engine.diff_lines(res, lines, impl, model, "version")[:5]:
            # Which side breaks the property?  The model is proved to follow
            # semver; a differing implementation is the violation.
            found = True
            res.violation("version:" + l, f"implementation and proved model disagree: impl='{a}' model='{b}'",
                          l + f"\n# impl:  {a}\n# model: {b}\n# replay: checks/check.py C14 --replay <this file>")
        if len(lines) > 4100:
            res.sample({"line": lines[4100], "impl": impl[4100] if len(impl) > 4100 else None})
        res.sample({"line": lines[-1], "impl": impl[-1] if impl else None})
        # ---------------- e2e gate ----------------
        if not replay:
            tabs = gen.load_tables()
            cases = e2e_cases(r, tier, tabs, res)
            glines = [gate_line(c, tabs) for c in cases]
            _, gmodel, _ = engine.run_lines(prep.driver, glines)
            with Scratch("c14") as d:
                for i, c in enumerate(cases):
                    td = os.path.join(d, "t")
                    write_trace(td, build_trace(c))
                    rc, err = run_emu(prep.bdir, td, ["-l"] + (["-a"] if c[0] else []))
                    v = verdict(rc, err)
                    want = "ok" if gmodel[i] == "gate pass" else "reject"
                    res.case(glines[i])
                    res.dist("e2e:" + v)
                    if i < 2:
                        res.sample({"gate": glines[i], "ovniemu": v, "model": gmodel[i]})
                    if v != want:
                        found = True
                        res.violation("gate:" + glines[i][:120],
                                      f"ovniemu verdict {v}, model says {gmodel[i]}",
                                      glines[i] + f"\n# ovniemu: {v}\n# model: {gmodel[i]}\n" + err[-1500:])
    for pr in prep.problems:
        res.failed_obligations = getattr(res, "failed_obligations", []) + [pr]
        proved = False
    if not proved:
        vcommon.obligations_failed(res, found)
