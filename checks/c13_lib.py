"""C13, text level: the Lean model's text of thread/cpu .prv .pcf .row against
the files ovniemu writes, byte for byte (no canonicalisation)."""
import os

FILES = ["thread.prv", "cpu.prv", "thread.pcf", "cpu.pcf", "thread.row", "cpu.row"]


def appid_of(pid):
    """emu_lib.build_streams gives every process the application id 1 + pid % 7"""
    return 1 + pid % 7


def pv_lines(sysd, lines, appids=None, tasktypes=()):
    """Turn a drv_emu script (emu_lib.model_lines, possibly with `mark` lines)
    into its text-level form: `pvmode` after `reset`, the application id on
    every `thread` line, the physical id on every `cpu` line, the task types
    before `enable`, and `pvtext` (the six files as hex) at the end."""
    out = []
    ti = ci = 0
    for l in lines:
        if l == "reset":
            out += [l, "pvmode"]
        elif l.startswith("thread "):
            li, pid, tid = sysd.threads[ti]
            out.append(l + " %d" % (appids[ti] if appids is not None else appid_of(pid)))
            ti += 1
        elif l.startswith("cpu "):
            out.append(l + " %d" % max(sysd.cpus[ci][3], 0))
            ci += 1
        elif l.startswith("enable "):
            for (ch, proc, gid, label) in tasktypes:
                out.append("tasktype %d %d %d %s" % (ch, proc, gid, label.hex() or "-"))
            out.append(l)
        else:
            out.append(l)
    out.append("pvtext")
    return out


def model_files(pvtext_line):
    """{name: bytes} from the driver's `pvtext` answer, or None"""
    w = pvtext_line.split()
    if len(w) != 9 or w[0] != "pvtext":
        return None
    m = {n: (bytes.fromhex(h) if h != "-" else b"") for n, h in zip(FILES, w[1:7])}
    m["thread.pcf types"], m["cpu.pcf types"] = w[7], w[8]
    return m


def unhex(h):
    return bytes.fromhex(h) if h not in ("-", "") else b""


def pcf_types_diff(path, canon):
    """The event types the model's reader (`parsePcfTypes`, Lean) found in the
    MODEL's .pcf text (`canon`, from the driver) against the types the Python
    reader (tools/ovnitrace.read_pcf, which drops the blanks before a label)
    finds in the file OVNIEMU wrote.  None if equal (or not decodable)."""
    import ovnitrace
    if canon == "none":
        return "the model's reader cannot read the model's own .pcf text"
    try:
        real = [(t, lab, list(vals.items())) for t, (lab, vals) in ovnitrace.read_pcf(path).items()]
        model = [] if canon == "-" else [
            (int(t), unhex(lab).decode().lstrip(),
             [(int(x.split("=")[0]), unhex(x.split("=")[1]).decode().lstrip()) for x in vs.split(",") if x])
            for t, lab, vs in (b.split(":") for b in canon.split(";"))]
    except (UnicodeDecodeError, OSError):
        return None
    return None if real == model else "event types differ: ovniemu %r model %r" % (real[:6], model[:6])


def first_diff(a, b):
    """Human-readable first difference of two byte strings (line based)."""
    al, bl = a.split(b"\n"), b.split(b"\n")
    for j in range(max(len(al), len(bl))):
        x = al[j] if j < len(al) else None
        y = bl[j] if j < len(bl) else None
        if x != y:
            return "line %d: ovniemu %r model %r" % (j + 1, x[:120] if x is not None else None,
                                                   y[:120] if y is not None else None)
    return "equal"


def compare_files(tracedir, mfiles, only=None):
    """List of (file name, description) for every file that differs."""
    out = []
    for n in FILES:
        if only is not None and n not in only:
            continue
        try:
            with open(os.path.join(tracedir, n), "rb") as f:
                impl = f.read()
        except OSError as e:
            out.append((n, "ovniemu wrote no %s: %s" % (n, e)))
            continue
        if impl != mfiles[n]:
            out.append((n, "%s differs, %s" % (n, first_diff(impl, mfiles[n]))))
        if n.endswith(".pcf"):
            d = pcf_types_diff(os.path.join(tracedir, n), mfiles[n + " types"])
            if d is not None:
                out.append((n, "%s %s" % (n, d)))
    return out
