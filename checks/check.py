#!/usr/bin/env python3
"""Entry point: checks/check.py <ID> [--tier quick|thorough] [--replay FILE]"""
import argparse
import importlib
import os
import sys
import traceback

HERE = os.path.dirname(os.path.abspath(__file__))
sys.path.insert(0, os.path.join(HERE, "lib"))
sys.path.insert(0, os.path.join(HERE, "..", "tools"))
sys.path.insert(0, HERE)

import vcommon  # noqa: E402


def main():
    ap = argparse.ArgumentParser()
    ap.add_argument("pid")
    ap.add_argument("--tier", default=os.environ.get("VERIF_TIER", "quick"), choices=["quick", "thorough"])
    ap.add_argument("--replay", default=None)
    a = ap.parse_args()
    os.chdir(vcommon.VERIF)
    mod = importlib.import_module(a.pid.lower())
    res = vcommon.Result(a.pid, a.tier, level="proof")
    try:
        mod.check(res, a.tier, a.replay)
    except Exception:
        tb = traceback.format_exc()
        vcommon.log(tb)
        res.violation("obligation:check-crashed", "the check itself failed to run", tb)
    rc = res.finish()
    sys.exit(rc)


if __name__ == "__main__":
    main()
