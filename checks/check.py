#!/usr/bin/env python3
"""Entry point: checks/check.py <ID> [--tier quick|thorough] [--replay FILE]"""
import argparse
import importlib
import os
import sys
import traceback

HERE = os.path.dirname(os.path.abspath(__file__))
sys.path.insert(0, os.path.join(HERE, "lib"))
sys.path.insert(0, os.path.join(HERE, "..", "tools"))
sys.path.insert(0, HERE)

import vcommon  # noqa: E402


def main():
    ap = argparse.ArgumentParser()
    ap.add_argument("pid")
    ap.add_argument("--tier", default=os.environ.get("VERIF_TIER", "quick"), choices=["quick", "thorough"])
    ap.add_argument("--replay", default=None)
    a = ap.parse_args()
    os.chdir(vcommon.VERIF)
    if a.replay:
        # a replay file written for an obligation that no longer checked (no failing input was found)
        # carries no input: re-run the check itself, which re-checks the obligation
        try:
            with open(a.replay) as f:
                first = f.readline()
            if "key=obligation:" in first:
                a.replay = None
        except OSError:
            pass
    mod = importlib.import_module(a.pid.lower())
    res = vcommon.Result(a.pid, a.tier, level="proof")
    try:
        mod.check(res, a.tier, a.replay)
    except Exception:
        tb = traceback.format_exc()
        vcommon.log(tb)
        res.violation("obligation:check-crashed", "the check itself failed to run", tb)
    rc = res.finish()
    if os.environ.get("VERIF_REPO") and os.path.realpath(os.environ["VERIF_REPO"]) != "/repo":
        # a run against a private copy regenerated the tracked Generated/*.lean from that copy:
        # put the committed files (generated from /repo) back so that they are never committed by accident
        import subprocess
        subprocess.run(["git", "-C", vcommon.VERIF, "checkout", "--", "lean/OvniModel/Generated"],
                       stdout=subprocess.DEVNULL, stderr=subprocess.DEVNULL)
    sys.exit(rc)


if __name__ == "__main__":
    main()
