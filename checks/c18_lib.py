"""C18 helpers: one-event probe traces through ovniemu, their classification,
contexts in which every recognised event is legal, the ovnidump line parser,
and generators for the ev_spec unit correspondence."""
import os
import re
import shutil
import struct
import subprocess

from ovnitrace import Stream, ev_bytes, i32, i64, u32, u64, write_trace

PROBE_CLOCK = 500
TID = 100

# Error text classes of the handlers (first ERROR line after "emulation starts"):
#   unknown-event : the handler does not know the category / value
#       "unknown <model> event category", "unknown <x> event value c",
#       "unknown <model> subsystem event", "unknown mpi function event",
#       "unexpected <model> task event value", "unexpected event value c",
#       "unexpected value 'c' (expecting '[' or ']')", "unknown context switch event"
#   model         : "model not registered for event" / "model X not enabled for event"
#   other         : anything else (payload size, thread/subsystem/task state ...):
#                   the code was recognised, the event is illegal here.
UNKNOWN_RE = re.compile(r"^(unknown|unexpected) ([\w'-]+ )*?(event|category|value)\b")
MODEL_RE = re.compile(r"^model (\S+ )?not (registered|enabled) for event")


def classify(rc, err, probe_clock=PROBE_CLOCK):
    """-> 'accepted' | 'unknown' | 'model' | 'other:<func>: <msg>' | 'ctx:<...>' | 'crash:<rc>'"""
    if rc == "timeout":
        return "timeout"
    if isinstance(rc, int) and (rc < 0 or rc in (98, 99)):
        return "crash:%s" % rc
    i = err.find("emulation starts")
    if i < 0:
        return "ctx:load-failed"
    body = err[i:]
    m = re.search(r"panic:\s+rclock=(-?\d+)", body)
    if not m:
        return "accepted"
    clk = int(m.group(1))
    if clk > probe_clock:
        return "accepted"
    first = re.search(r"ERROR: (\w+): (.*)", body)
    func, msg = (first.group(1), first.group(2)) if first else ("?", "?")
    if clk < probe_clock:
        return "ctx:%s: %s" % (func, msg[:80])
    if UNKNOWN_RE.match(msg):
        return "unknown"
    if MODEL_RE.match(msg):
        return "model"
    return "other:%s: %s" % (func, msg[:80])


def canonical(v):
    """Appendix-A form of a probe verdict."""
    if v == "accepted":
        return "verdict ok"
    if v == "unknown":
        return "verdict reject unknown-event"
    if v == "model":
        return "verdict reject model"
    if v.startswith("other"):
        return "verdict reject other"
    return "verdict " + v.split(":")[0]


class Ctx:
    """Everything needed to build probe traces for the current /repo build."""

    def __init__(self, tabs):
        self.tabs = tabs
        self.char = {m: t["char"] for m, t in tabs.items()}
        self.by_char = {t["char"]: m for m, t in tabs.items()}
        self.require = {m: t["version"] for m, t in tabs.items()}
        # table rows per model: (c,v) -> (chan, act, val).  The legal context of a probe comes from the
        # DOCUMENTED mapping (the pinned Spec/EventValues.lean overrides the regenerated rows): a leave
        # event is probed after the enter event the documentation pairs it with, not after whatever the
        # table under test happens to pop
        import emu_props
        doc = emu_props.load_doc_tables(tabs)
        self.rows = {m: {(c, v): (ch, act, val) for (c, v, ch, act, val) in t["table"]} for m, t in doc.items()
                     if isinstance(t, dict) and "table" in t}

    def stream(self):
        s = Stream(tid=TID, pid=1, cpus=[(0, 0), (1, 1)], require=self.require)
        s.meta["ovni"]["mark"] = {"1": {"title": "stackmark", "chan_type": "stack"},
                                  "2": {"title": "singlemark", "chan_type": "single"}}
        return s

    def bystanders(self):
        """Two more threads of the same process that require only the ovni model and do nothing but
        run and end on the second CPU, one with a lower and one with a higher TID than the probing
        thread (whatever order the emulator walks the threads in, one comes first and one last)."""
        out = []
        for tid, clk in ((TID - 1, 3), (TID + 1, 6)):
            b = Stream(tid=tid, pid=1, cpus=None, require={"ovni": self.require["ovni"]})
            b.ev(clk, "OHx", i32(1, -1) + u64(0))
            b.ev(clk + 1, "OHe")
            out.append((b.relpath, b.json_text(), b.obs()))
        return out

    # ---- legal contexts -------------------------------------------------
    def context(self, model, c, v, alt=0):
        """Returns (start, pre, payload, jumbo): `start` = whether the thread is
        started with OHx before; pre = [(mcv, payload, jumbo)] events before the
        probe; payload/jumbo of the probe itself.  Chosen by (model, category)
        so that an *unknown* value in a known category reaches the value
        switch, and refined by value so that every recognised event is legal."""
        M = chr(self.char[model])
        C, V = chr(c), chr(v)
        start, pre, pay, jumbo = True, [], b"", None
        if model == "ovni":
            if C == "H":
                if V == "x":
                    start, pay = False, i32(0, -1) + u64(0)
                elif V == "C":
                    pay = i32(1) + u64(0xabc)
                elif V in "rw":
                    pre = [("OHp", b"", None)]
            elif C == "A":
                if V == "s":
                    pay = i32(1)
                elif V == "r":
                    pay = i32(1, TID)
            elif C == "C":
                if V == "n":
                    pay = i32(2)
            elif C == "F":
                if V == "]":
                    pre = [("OF[", b"", None)]
            elif C == "M":
                ty = 2 if V == "=" else 1
                pay = i64(5) + i32(ty)
                if V == "]":
                    pre = [("OM[", pay, None)]
        elif model == "kernel":
            if C == "C" and V == "I":
                pre = [("KCO", b"", None)]
        elif model in ("nanos6", "nosv"):
            nosv = model == "nosv"
            ytype = (M + "Yc", b"", u32(1) + b"tasktype\0")
            create = (M + "Tc", u32(1, 1), None)
            b1 = u32(1, 0) if nosv else u32(1)
            if C == "Y":
                if V == "c":
                    jumbo = u32(7) + b"label\0"
            elif C == "T":
                if V == "c":
                    pre, pay = [ytype], u32(1, 1)
                elif V == "C" and nosv:
                    pre, pay = [ytype], u32(1, 1)
                elif V == "x":
                    pre, pay = [ytype, create], b1
                elif V in "ep":
                    pre, pay = [ytype, create, (M + "Tx", b1, None)], b1
                elif V == "r":
                    pre, pay = [ytype, create, (M + "Tx", b1, None), (M + "Tp", b1, None)], b1
            else:
                pre = self._table_pre(model, c, v, alt)
        else:
            pre = self._table_pre(model, c, v, alt)
        return start, pre, pay, jumbo

    def _table_pre(self, model, c, v, alt=0):
        row = self.rows[model].get((c, v))
        M = chr(self.char[model])
        if row and row[1] == 2:     # POP: push the same value on the same channel first
            for (c2, v2), (ch2, act2, val2) in self.rows[model].items():
                if act2 == 1 and ch2 == row[0] and val2 == row[2]:
                    return [(M + chr(c2) + chr(v2), b"", None)]
        if row and row[1] == 3:
            # SET: the channel refuses the value it already has, and the
            # initial value is the model's business: alternatives are "as is"
            # and "after each other SET row of that channel".
            others = [(M + chr(c2) + chr(v2), b"", None) for (c2, v2), (ch2, act2, val2)
                      in sorted(self.rows[model].items()) if act2 == 3 and ch2 == row[0] and val2 != row[2]]
            if alt >= 1 and alt - 1 < len(others):
                return [others[alt - 1]]
        return []

    def n_alts(self, model, c, v):
        if model is None:
            return 1
        row = self.rows[model].get((c, v))
        if row and row[1] == 3:
            return 1 + sum(1 for r in self.rows[model].values() if r[1] == 3 and r[0] == row[0] and r[2] != row[2])
        return 1

    def probe_stream(self, m, c, v, model=None, alt=0, state=None):
        """The stream of a one-event probe for code (m,c,v) (bytes).  `state`: "p" / "c" = the thread
        is paused / cooling when the probe arrives."""
        s = self.stream()
        if model is None:
            model = self.by_char.get(m)
        start, pre, pay, jumbo = (True, [], b"", None)
        if model is not None:
            start, pre, pay, jumbo = self.context(model, c, v, alt)
        clk = 10
        if start:
            s.ev(clk, "OHx", i32(0, -1) + u64(0))
        for (mcv, p, j) in pre:
            clk += 10
            s.ev(clk, mcv, p, j)
        if state in ("p", "c") and start:
            clk += 10
            s.ev(clk, "OH" + state)
        s.ev(PROBE_CLOCK, bytes([m, c, v]), pay, jumbo)
        return s

    def script(self, m, c, v, alt=0):
        """Appendix-A trace script of the probe (for replay files)."""
        s = self.probe_stream(m, c, v, alt=alt)
        return "\n".join(["stream %s %s" % (s.relpath, __import__("json").dumps(s.meta, sort_keys=True))]
                         + ["raw 0 " + s.obs().hex(), "opt none", "run emu"])


def run_probe(args):
    """Worker: (emu_exe, dir, stream) -> (rc, stderr). Top-level for pickling."""
    exe, d, relpath, json_text, obs, cfg = args[:6]
    for (rp, jt, ob) in [(relpath, json_text, obs)] + list(args[6] if len(args) > 6 else []):
        td = os.path.join(d, rp)
        os.makedirs(td, exist_ok=True)
        with open(os.path.join(td, "stream.json"), "w") as f:
            f.write(jt)
        with open(os.path.join(td, "stream.obs"), "wb") as f:
            f.write(ob)
    env = dict(os.environ)
    env["OVNI_CONFIG_DIR"] = cfg
    try:
        r = subprocess.run([exe, d], stdout=subprocess.DEVNULL, stderr=subprocess.PIPE, timeout=60, env=env)
        rc, err = r.returncode, r.stderr.decode("latin1")
    except subprocess.TimeoutExpired:
        rc, err = "timeout", ""
    shutil.rmtree(d, ignore_errors=True)
    return rc, err


# --------------------------------------------------------------------------
# ovnidump
# --------------------------------------------------------------------------

DUMP_RE = re.compile(r"^\s*(-?\d+)  (...)  (\S+)  (.*)$", re.S)


def parse_dump(out):
    """ovnidump stdout -> [(clock, mcv bytes, relpath, text)].  Line format of
    ovnidump.c emit(): "%10ld  %c%c%c  %s  " + text + "\\n"."""
    res = []
    for line in out.split("\n"):
        if not line:
            continue
        m = DUMP_RE.match(line)
        if m:
            res.append((int(m.group(1)), m.group(2).encode("latin1"), m.group(3), m.group(4)))
        else:
            res.append((None, None, None, line))
    return res


# --------------------------------------------------------------------------
# declared shapes (independent little parser of the documented grammar, used
# by the generators and by the oracle — not the Lean model)
# --------------------------------------------------------------------------

TYPES = {"u8": ("<B", 1, False), "u16": ("<H", 2, False), "u32": ("<I", 4, False), "u64": ("<Q", 8, False),
         "i8": ("<b", 1, True), "i16": ("<h", 2, True), "i32": ("<i", 4, True), "i64": ("<q", 8, True)}


def parse_sig(sig):
    """'VTc(u32 a, u32 b)' -> (mcv, jumbo, [(type, name)])"""
    mcv = sig[:3]
    rest = sig[3:]
    jumbo = rest.startswith("+")
    if jumbo:
        rest = rest[1:]
    args = []
    if rest.startswith("("):
        for a in rest[1:].rstrip(")").split(","):
            t, n = a.split()
            args.append((t, n))
    return mcv, jumbo, args


def rand_value(r, t):
    if t == "str":
        n = r.choice([0, 1, 2, 5, 17, 60, 200, 511]) if r.random() < 0.3 else r.randrange(0, 24)
        return bytes(r.choice(b"abcXYZ 0123_-%{}\"\\\xe9") for _ in range(n))
    fmt, size, signed = TYPES[t]
    bits = 8 * size
    lo, hi = (-(1 << (bits - 1)), (1 << (bits - 1)) - 1) if signed else (0, (1 << bits) - 1)
    k = r.random()
    if k < 0.25:
        return r.choice([lo, hi, 0, 1, hi - 1, lo + 1, 9, 10, 99, 100, 255, 256] + ([-1, -10] if signed else [hi // 2 + 1]))
    if k < 0.6:
        return r.randrange(max(lo, -1000), min(hi, 1000) + 1)
    return r.randrange(lo, hi + 1)


def clip(t, v):
    fmt, size, signed = TYPES[t]
    bits = 8 * size
    lo, hi = (-(1 << (bits - 1)), (1 << (bits - 1)) - 1) if signed else (0, (1 << bits) - 1)
    return min(max(v, lo), hi)


def encode_args(jumbo, args, vals):
    """payload bytes ev->payload points to (jumbo: 4-byte size + data)."""
    data = b""
    for (t, n), v in zip(args, vals):
        if t == "str":
            data += v + b"\0"
        else:
            data += struct.pack(TYPES[t][0], clip(t, v))
    if jumbo:
        return struct.pack("<I", len(data)) + data
    return data


def oracle_text(desc, args, vals):
    """Independent rendering of a description: %{name} -> decimal / string,
    %#llx{name} -> C's %#llx, %% -> %.  Returns None for anything else."""
    env = {n: (t, v) for (t, n), v in zip(args, vals)}
    out, i = "", 0
    while i < len(desc):
        ch = desc[i]
        if ch != "%":
            out += ch
            i += 1
            continue
        if desc.startswith("%%", i):
            out += "%"
            i += 2
            continue
        m = re.match(r"%([^{}%]*)\{(\w+)\}", desc[i:])
        if not m or m.group(2) not in env:
            return None
        t, v = env[m.group(2)]
        f = m.group(1)
        if t == "str":
            if f != "":
                return None
            out += v.decode("latin1")
        elif f == "":
            out += str(clip(t, v))
        elif f == "#llx" and not TYPES[t][2]:
            out += ("0x%x" % v) if v != 0 else "0"
        else:
            return None
        i += m.end()
    return out
