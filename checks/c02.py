"""C02 — traces produced through correct API use are valid and accepted."""
import json
import os
import struct

import c01
import engine
import rt_lib
import vcommon
from ovnitrace import run_emu, verdict

PID = "C02"
CAP = rt_lib.CAP


def hexb(b):
    return b.hex() if b else "-"


def many_bursts():
    """More than a hundred burst events by one thread (the emulator keeps the last 100 to report their
    median latency and starts over), with gaps below and above its 100 ns warning threshold."""
    out = []
    for nb, tick in ((101, 150), (150, 1000), (250, 10**6), (205, 10), (100, 1000), (99, 1000)):
        ops = ["init", "cpu 0 0", "cpu 1 1", "ev 4f4878 now " + struct.pack("<iiQ", 0, -1, 0).hex(), "tick %d" % tick]
        ops += ["ev 4f422e now"] * nb
        ops += ["ev 4f4865 now", "flush", "free", "fini"]
        out.append(" ; ".join(ops))
    return out


def gen_conformant(r, res):
    """Protocol-conformant program whose events the emulator understands:
    init, cpu, OHx, {bursts, marks, nOS-V type definitions as jumbos of any
    size, nOS-V subsystem pairs, explicit flushes}, OHe, flush, free."""
    ops = ["init", "cpu 0 0", "cpu 1 1", "require nosv 2.4.0",
           "marktype 1 0 " + b"T".hex(), "marktype 2 1 " + b"S".hex()]
    ops.append("ev 4f4878 now " + struct.pack("<iiQ", r.randrange(2), -1, 0).hex())  # OHx
    nops = r.randrange(2, 12)
    typeid = 10
    evlen = 28
    stack = []
    mstack = []
    mode = r.random()
    for i in range(nops):
        k = r.random()
        room = CAP - evlen
        if k < (0.45 if mode < 0.7 else 0.15):
            # nOS-V task type definition: jumbo, data = u32 typeid + "t\0" + padding
            if r.random() < 0.6 and room > 200:
                target = room - r.randrange(-60, 61)
            elif r.random() < 0.5:
                target = CAP - r.randrange(1, 61)
            else:
                target = r.choice([30, 100, 700, 5000, CAP // 2])
            length = max(8, min(target - 16, CAP - 17))
            pre = struct.pack("<I", typeid) + b"t%d" % typeid + b"\0"
            typeid += 1
            ops.append("jumbo 565963 now %d %d %s" % (length, r.randrange(256), pre.hex()))  # VYc
            sz = 16 + length
            res.dist("op:jumbo-VYc")
        elif k < 0.60:
            ops.append("ev 4f422e now")            # OB. burst
            sz = 12
            res.dist("op:burst")
        elif k < 0.72:
            v = r.randrange(1, 50)
            ops.append("mark 61 1 %d" % v)
            sz = 24
            res.dist("op:mark-set")
        elif k < 0.80:
            if mstack and r.random() < 0.5:
                ops.append("mark 93 2 %d" % mstack.pop())
            else:
                v = r.randrange(1, 50)
                if mstack and mstack[-1] == v:
                    v += 1
                mstack.append(v)
                ops.append("mark 91 2 %d" % v)
            sz = 24
            res.dist("op:mark-stack")
        elif k < 0.90:
            if stack and r.random() < 0.5:
                ops.append("ev %s now" % stack.pop())
            else:
                a, b = r.choice([("565368", "565366"), ("56555b", "56555d"), ("564d61", "564d41")])
                if stack and stack[-1] == b:
                    a, b = ("564172", "564152")
                if not (stack and stack[-1] == b):
                    stack.append(b)
                    ops.append("ev %s now" % a)
            sz = 12
            res.dist("op:nosv-ss")
        elif k < 0.96:
            ops.append("flush")
            sz = 0
            res.dist("op:flush")
        else:
            ops.append("tick %d" % r.choice([0, 1, 3, 1000]))
            sz = 0
        if ops[-1] == "flush":
            evlen = 24
        elif sz:
            evlen = evlen + sz if evlen + sz < CAP else sz + 24
    while stack:
        ops.append("ev %s now" % stack.pop())
    while mstack:
        ops.append("mark 93 2 %d" % mstack.pop())
    ops += ["ev 4f4865 now", "flush", "free", "fini"]      # OHe
    return " ; ".join(ops)


def top_sweep():
    """Every jumbo size within 45 bytes of the maximum, emitted when the buffer
    is not empty (the forced flush is triggered by the jumbo itself)."""
    out = []
    for top in range(1, 46):
        pre = struct.pack("<I", 77) + b"t\0"
        out.append(" ; ".join(["init", "cpu 0 0", "require nosv 2.4.0",
                               "ev 4f4878 now " + struct.pack("<iiQ", 0, -1, 0).hex(),
                               "jumbo 565963 now %d 3 %s" % (CAP - 16 - top, pre.hex()),
                               "ev 4f422e now", "ev 4f4865 now", "flush", "free", "fini"]))
    return out


def valid_stream(recs, hdr_ok, trailing):
    probs = []
    if hdr_ok is not True:
        probs.append("missing or wrong stream header")
    if trailing:
        probs.append(f"events do not tile the file ({trailing} trailing bytes)")
    last = -1
    depth = 0
    for i, x in enumerate(recs):
        if x[3] < last:
            probs.append(f"clock goes backwards at event #{i}: {last} -> {x[3]} ({x[2]})")
            break
        last = x[3]
    for i, x in enumerate(recs):
        if x[2] == b"OF[":
            depth += 1
            if depth > 1:
                probs.append(f"nested flush markers at event #{i}")
                break
        elif x[2] == b"OF]":
            depth -= 1
            if depth < 0:
                probs.append(f"unmatched OF] at event #{i}")
                break
    if depth > 0 and not any("nested" in p for p in probs):
        probs.append("unterminated OF[ at the end of the stream")
    return probs


def oracle_c02(script, outcome, recs, hdr_ok, trailing):
    probs = []
    if outcome != "returned":
        probs.append("a protocol-conformant program aborted: " + outcome)
        return probs
    probs += valid_stream(recs, hdr_ok, trailing)
    probs += c01.oracle_c01(script, outcome, recs, hdr_ok, trailing)
    return probs


def make_extra(bdir, res):
    def extra(tracedir, sc, outcome, recs):
        probs = []
        mp = os.path.join(tracedir, "loom.node", "proc.1", "thread.7", "stream.json")
        try:
            meta = json.load(open(mp))
        except Exception as e:
            return [f"metadata unreadable: {e}"]
        o = meta.get("ovni", {})
        need = ["lib", "part", "tid", "pid", "loom", "app_id", "require", "finished"]
        miss = [k for k in need if k not in o]
        if meta.get("version") != 3 or miss:
            probs.append(f"metadata incomplete: version={meta.get('version')} missing={miss}")
        if o.get("finished") != 1:
            probs.append("finished flag not set after ovni_thread_free")
        rc, err = run_emu(bdir, tracedir, ["-l"])
        v = verdict(rc, err)
        res.dist("ovniemu:" + v)
        if v != "ok":
            tail = [l for l in err.split("\n") if "ERROR" in l][:3]
            probs.append("ovniemu does not accept the trace: " + v + " " + " | ".join(tail)[:300])
        return probs
    return extra


def key_of(probs):
    return probs


def check(res, tier, replay=None):
    res.cov["rule"] = ("protocol-conformant programs (init, cpus, OHx, bursts / marks / nOS-V jumbo type definitions of sizes "
                       "aimed at the buffer boundary and the maximum / subsystem pairs / explicit flushes, OHe, flush, free, fini) "
                       "run on the real libovni; the stream must equal the model's bytes, satisfy the independent validity "
                       "oracle (tiling, clocks, paired non-nested markers, complete metadata) and be accepted by ovniemu -l. "
                       "non-trivial = at least one event on disk; distinct by script text")
    res.assumptions = ["clock_gettime is replaced by a deterministic non-decreasing counter",
                       "write() completes (faults are C10's subject)"]
    prep = engine.prepare(res, drivers=("drv_rt", "drv_emu"))
    proved = vcommon.prove(res, ["C02", "C02Emu"])
    found = False
    if prep.bdir and prep.driver_ok:
        r = vcommon.rng("c02")
        if replay:
            scripts = [l.strip() for l in open(replay) if l.strip() and not l.startswith("#")]
        else:
            n = 150 if tier == "quick" else 4000
            scripts = [gen_conformant(r, res) for _ in range(n)] + top_sweep() + many_bursts()
        found = c01.run_engine(res, prep, scripts, oracle_c02, "c02", extra=make_extra(prep.bdir, res))
        if not replay:
            # the same conformant programs when the streams are first written to OVNI_TMPDIR and relocated by
            # ovni_thread_free (copy in 1024-byte blocks): plus programs whose stream.obs is an exact multiple
            # of 1024 bytes, the boundary of that copy loop (sizes taken from the model's own byte count)
            sub = [sc for sc in scripts if sc.endswith("free ; fini") or sc.endswith("free")][: (30 if tier == "quick" else 400)]
            drv = engine.exe("drv_rt")
            head = ("init ; cpu 0 0 ; cpu 1 1 ; require nosv 2.4.0 ; ev 4f4878 now " +
                    struct.pack("<iiQ", 0, -1, 0).hex() + " ; ")
            tail = " ; ev 4f4865 now ; flush ; free ; fini"
            probe = [head + "jumbo 565963 now %d 7 %s" % (100, (struct.pack("<I", 10) + b"t10\0").hex()) + tail]
            _, mo, _ = engine.run_lines(drv, probe)
            try:
                _oc, mbytes, _ = rt_lib.expand_model(mo[0])
                base = len(mbytes)
            except Exception:      # noqa: BLE001
                base = None
            if base:
                for k in (1, 2, 3, 8):
                    L1 = 100 + (-(base) % 1024) + 1024 * (k - 1)
                    for d in (-1, 0, 1):
                        sub.append(head + "jumbo 565963 now %d 7 %s" % (L1 + d, (struct.pack("<I", 10) + b"t10\0").hex()) + tail)
                        res.dist("pass:tmpdir-aligned" if d == 0 else "pass:tmpdir-near-aligned")
            res.dist("pass:tmpdir", len(sub))
            found = c01.run_engine(res, prep, sub, oracle_c02, "c02-tmpdir", env_extra={"RT_TMPDIR": "1"},
                                   extra=make_extra(prep.bdir, res)) or found
        if not replay:
            # conformant programs with SEVERAL threads: legal histories of the documented thread automaton over shared
            # CPUs (a cooling / warming / paused thread next to a running one, remote affinity, several processes and
            # looms), written event for event as libovni writes them (C01), must be accepted by ovniemu -l with the
            # documented timelines (the engine of C04/C05; seeded C02-7 refused a cooling thread next to a running one)
            import c04
            import c05
            r3 = vcommon.rng("c02-mt")
            mt = [c05.gen_history(r3, res, p_illegal=0.0) for _ in range(250 if tier == "quick" else 4000)]
            mt = [c for c in mt if c[2] in (None, "ok")]
            res.dist("pass:multi-thread-legal", len(mt))
            found = c04.run_cases(res, prep, mt, "c02-mt", c05.TYPES) or found
        for b in res.cov.get("correspondence_breaks", [])[:3]:
            proved = False
            res.failed_obligations = getattr(res, "failed_obligations", []) + ["correspondence rt: " + b["what"] + " on: " + b.get("script", "")]
    for pr in prep.problems:
        res.failed_obligations = getattr(res, "failed_obligations", []) + [pr]
        proved = False
    if not proved:
        vcommon.obligations_failed(res, found)
