"""Runtime engine shared by C01 C02 C09 C10 C17: build the rt harness, run
scripts on the real libovni, decode the resulting stream files independently."""
import os
import struct
import subprocess

import vcommon

CAP = 2 * 1024 * 1024


def build_harness(bdir):
    src = [os.path.join(vcommon.HARNESS, "rt.c"),
           os.path.join(vcommon.REPO, "src/rt/ovni.c"),
           os.path.join(vcommon.REPO, "src/common.c"),
           os.path.join(vcommon.REPO, "src/parson.c")]
    return vcommon.cc_harness("rt", src, bdir, extra=["-w"], libs=["-ldl"])


def run_scripts(harness, base, scripts, env_extra=None, timeout=900):
    env = dict(os.environ)
    env["ASAN_OPTIONS"] = "detect_leaks=0:exitcode=99:abort_on_error=0"
    env["UBSAN_OPTIONS"] = "halt_on_error=1:exitcode=98"
    env.pop("OVNI_TMPDIR", None)
    env.pop("OVNI_TRACEDIR", None)
    if env_extra:
        env.update(env_extra)
    data = "\n".join(scripts) + "\n"
    r = subprocess.run([harness, base], input=data.encode(), stdout=subprocess.PIPE,
                       stderr=subprocess.PIPE, env=env, timeout=timeout)
    out = r.stdout.decode("latin1").split("\n")
    if out and out[-1] == "":
        out.pop()
    return out, r.stderr.decode("latin1")


def stream_path(base, k, tid=7):
    return os.path.join(base, f"s{k}", "loom.node", "proc.1", f"thread.{tid}", "stream.obs")


def meta_path(base, k, tid=7):
    return os.path.join(base, f"s{k}", "loom.node", "proc.1", f"thread.{tid}", "stream.json")


def decode_stream(data):
    """Independent decoder (trace_spec.md). Returns (hdr_ok, records, trailing)
    records: ('E', flags, mcv, clock, payload) | ('J', flags, mcv, clock, len, fill|None)"""
    if len(data) == 0:
        return None, [], 0
    if len(data) < 8:
        return False, [], len(data)
    hdr_ok = data[:4] == b"ovni" and struct.unpack("<I", data[4:8])[0] == 1
    off = 8
    recs = []
    n = len(data)
    while off < n:
        if off + 12 > n:
            return hdr_ok, recs, n - off
        flags = data[off]
        mcv = data[off + 1:off + 4]
        clock = struct.unpack("<Q", data[off + 4:off + 12])[0]
        if flags & 0x10:
            if off + 16 > n:
                return hdr_ok, recs, n - off
            ln = struct.unpack("<I", data[off + 12:off + 16])[0]
            if off + 16 + ln > n:
                return hdr_ok, recs, n - off
            body = data[off + 16:off + 16 + ln]
            fill = None
            if ln == 0:
                fill = 0
            else:
                f = body[0]
                # expected pattern (f + i) & 0xff
                pat = bytes(((f + i) & 0xff) for i in range(256))
                reps = ln // 256 + 2
                if (pat * reps)[:ln] == body:
                    fill = f
            recs.append(("J", flags, mcv, clock, ln, fill, body))
            off += 16 + ln
        else:
            nib = flags & 0x0f
            ps = 0 if nib == 0 else nib + 1
            if off + 12 + ps > n:
                return hdr_ok, recs, n - off
            recs.append(("E", flags, mcv, clock, data[off + 12:off + 12 + ps]))
            off += 12 + ps
    return hdr_ok, recs, 0


def pattern(ln, fill, pre=b""):
    pat = bytes(((fill + i) & 0xff) for i in range(256))
    body = (pat * (ln // 256 + 2))[:ln]
    pre = pre[:ln]
    return pre + body[len(pre):]


def expand_model(line):
    """Expected stream bytes from the Lean driver's output line.
    Returns (outcome, bytes, origins list)"""
    parts = dict(p.split("=", 1) for p in line.split(" ")[1:] if "=" in p)
    oc = line.split(" ")[0]
    out = bytearray()
    if parts.get("hdr") == "1":
        out += b"ovni" + struct.pack("<I", 1)
    origins = []
    recs = parts.get("stream", "")
    for r in recs.split(",") if recs else []:
        f = r.split(":")
        origins.append(f[0][1])
        if f[0][0] == "X":
            out += bytes.fromhex(f[1]) if f[1] != "-" else b""
        else:
            out += bytes.fromhex(f[1])
            pre = bytes.fromhex(f[4]) if f[4] != "-" else b""
            out += pattern(int(f[2]), int(f[3]), pre)
    return oc, bytes(out), origins


def first_diff(a, b):
    n = min(len(a), len(b))
    for i in range(0, n, 4096):
        if a[i:i + 4096] != b[i:i + 4096]:
            for j in range(i, min(i + 4096, n)):
                if a[j] != b[j]:
                    return j
    return n if len(a) != len(b) else -1


def read_stream(base, k, tid=7):
    try:
        return open(stream_path(base, k, tid), "rb").read()
    except OSError:
        return b""


def canon(recs):
    out = []
    for r in recs:
        if r[0] == "E":
            out.append("E:%d:%s:%d:%s" % (r[1], r[2].hex(), r[3], r[4].hex() if r[4] else "-"))
        else:
            out.append("J:%d:%s:%d:%d:%s" % (r[1], r[2].hex(), r[3], r[4], "?" if r[5] is None else str(r[5])))
    return ",".join(out)
