"""Shared machinery of C09 / C10: run scripts on the real libovni under the
interposition harness (kill / fault injection, readdir order control), query
the Lean file-system model (drv_fs), normalise both to the same canonical
call list / directory listing, decode what is left on disk."""
import hashlib
import json
import os
import re
import struct

import c01
import engine
import rt_lib
import vcommon
from ovnitrace import run_emu, verdict

TID = 7
ENT = {".": ".", "..": ":", "stream.obs": "o", "stream.json": "j"}


# --------------------------------------------------------------------------
# harness side
# --------------------------------------------------------------------------

def anc_count(base):
    return len([c for c in os.path.abspath(base).split("/") if c])


def norm_path(p, base, k):
    """Logged path -> the model's canonical path string."""
    if p == "" or p.startswith("/s"):
        rel = re.sub(r"/+", "/", p).rstrip("/")
        if rel == "":
            return "^0"
        parts = rel.split("/")[1:]
        root = "T" if parts[0] == "s%d.tmp" % k else "F" if parts[0] == "s%d" % k else "?" + parts[0]
        out = root
        for c in parts[1:]:
            if c.startswith("loom."):
                out += "/l"
            elif c.startswith("proc."):
                out += "/p"
            elif c.startswith("thread."):
                out += "/t" + c[7:]
            elif c == "stream.obs":
                out += "/obs"
            elif c == "stream.json":
                out += "/json"
            else:
                out += "/?" + c
        return out
    # an ancestor of the base directory
    n = anc_count(base)
    d = len([c for c in p.split("/") if c])
    return "^%d" % (n - d)


def norm_log(log, base, k):
    out = []
    for c in log.split("|"):
        if not c:
            continue
        t = c.split(" ")
        kind = t[0]
        if kind in ("mkdir", "stat", "open", "opendir", "remove", "rmdir"):
            out.append(kind + ":" + norm_path(c[len(kind) + 1:], base, k))
        elif kind == "fopen":
            out.append("fopen:" + norm_path(t[1], base, k) + ":" + t[2])
        elif kind in ("write", "fputs", "fwrite", "fread"):
            out.append(kind + ":" + t[1])
        elif kind == "readdir":
            out.append("readdir:" + t[1])
        else:
            out.append(kind)
    return out


class Run:
    """One script executed by the harness."""
    def __init__(self, line, base, k):
        m = re.match(r"(\S+) calls=(\d+) faults=(\d+)(?: log=(.*))?$", line)
        self.raw = line
        self.outcome = m.group(1) if m else "<bad>"
        self.ncalls = int(m.group(2)) if m else -1
        self.nfaults = int(m.group(3)) if m else 0
        self.calls = norm_log(m.group(4) or "", base, k) if m else []
        self.cls = self.outcome.split("@")[0]
        self.at = int(self.outcome.split("@")[1]) if "@" in self.outcome else None

    def order(self):
        return "".join(ENT.get(c[8:], "?") for c in self.calls if c.startswith("readdir:") and c != "readdir:-")

    def jsizes(self):
        return [int(c[6:]) for c in self.calls if c.startswith("fputs:")]


def run_harness(h, base, scripts, tmp, order=None, kill=None, fault=None, log=True):
    env = {}
    if log:
        env["RT_LOG"] = "1"
    if tmp:
        env["RT_TMPDIR"] = "1"
    if order:
        env["RT_READDIR"] = order
    if kill is not None:
        env["RT_KILL"] = str(kill)
    if fault is not None:
        env["RT_FAULT"] = fault
    os.makedirs(base, exist_ok=True)
    out, err = rt_lib.run_scripts(h, base, scripts, env)
    return [Run(out[k] if k < len(out) else "<missing> calls=0 faults=0", base, k) for k in range(len(scripts))]


def snapshot(base, k):
    """Canonical listing of the two trace trees of script k:
    {path: 'd' | ('f', bytes) | ('j', size)}"""
    out = {}
    for root, sym in (("s%d.tmp" % k, "T"), ("s%d" % k, "F")):
        top = os.path.join(base, root)
        if not os.path.isdir(top):
            continue
        for d, dn, fn in os.walk(top):
            rel = os.path.relpath(d, top)
            p = norm_path("/" + root + ("" if rel == "." else "/" + rel), base, k)
            out[p] = "d"
            for f in fn:
                fp = os.path.join(d, f)
                q = norm_path("/" + root + ("" if rel == "." else "/" + rel) + "/" + f, base, k)
                if f == "stream.json":
                    out[q] = ("j", os.path.getsize(fp))
                else:
                    out[q] = ("f", open(fp, "rb").read())
    return out


def snap_hash(base, k):
    h = hashlib.sha1()
    for root in ("s%d.tmp" % k, "s%d" % k):
        top = os.path.join(base, root)
        for d, dn, fn in os.walk(top):
            dn.sort()
            h.update(os.path.relpath(d, base).encode() + b"\0")
            for f in sorted(fn):
                h.update(f.encode() + b"\0" + open(os.path.join(d, f), "rb").read() + b"\1")
    return h.hexdigest()


# --------------------------------------------------------------------------
# model side
# --------------------------------------------------------------------------

def model_line(query, tmp, nanc, order, jsizes, script):
    return "%s | %s %d %s %d %s | %s" % (query, "t" if tmp else "d", nanc, order or ".", TID,
                                         ",".join(map(str, jsizes)) if jsizes else "0", script)


def parse_fs(s):
    out = {}
    if not s:
        return out
    for e in s.split(";"):
        p, v = e.split("=", 1)
        if v == "d":
            out[p] = "d"
        elif v.startswith("j:"):
            _, a, b = v.split(":")
            out[p] = ("j", int(a), int(b))
        else:
            _, a, b = v.split(":")
            out[p] = ("f", bytes.fromhex(a) if a != "-" else b"", bytes.fromhex(b) if b != "-" else b"")
    return out


def parse_model(line):
    """'<outcome> k=v k=v …' (values without spaces)."""
    t = line.split(" ")
    kv = dict(x.split("=", 1) for x in t[1:] if "=" in x)
    return t[0], kv


def fs_matches(real, model, exact):
    """Real directory vs. the model's file system.  exact: stdio buffers are
    empty at a normal return / abort(); otherwise (kill) any prefix of the
    pending bytes may be on disk.  Returns a list of differences."""
    diffs = []
    for p in sorted(set(real) | set(model)):
        a, b = real.get(p), model.get(p)
        if a is None or b is None:
            diffs.append("%s: impl=%s model=%s" % (p, "absent" if a is None else "present", "absent" if b is None else "present"))
            continue
        if a == "d" or b == "d":
            if a != b:
                diffs.append("%s: kind differs" % p)
            continue
        if a[0] == "j":
            lo, hi = b[1], b[1] + (0 if exact else b[2])
            if not (lo <= a[1] <= hi):
                diffs.append("%s: json size impl=%d model=%d..%d" % (p, a[1], lo, hi))
        else:
            full = b[1] + b[2]
            if exact:
                if a[1] != b[1]:
                    diffs.append("%s: bytes differ (impl %d bytes, model %d)" % (p, len(a[1]), len(b[1])))
            elif not (len(b[1]) <= len(a[1]) <= len(full) and full[:len(a[1])] == a[1]):
                diffs.append("%s: impl has %d bytes, model disk=%d pend=%d or content differs" % (p, len(a[1]), len(b[1]), len(b[2])))
    return diffs


# --------------------------------------------------------------------------
# script generation and the independent oracles
# --------------------------------------------------------------------------

OHX = "ev 4f4878 now " + struct.pack("<iiQ", 0, -1, 0).hex()
OHE = "ev 4f4865 now"


def gen_prog(r, res, boundary=False):
    """Protocol-conformant single-thread program with several flushes; with
    `boundary` the stream is padded (nOS-V type definition jumbo) so that the
    bytes up to OHe end exactly on a 4096-byte stdio buffer boundary and more
    flushed events follow."""
    ops = ["init", "cpu 0 0", "require nosv 2.4.0", "marktype 1 0 " + b"T".hex(), OHX]
    size = 8 + 28
    typeid = 10
    n = r.randrange(0, 6)
    for _ in range(n):
        k = r.random()
        if k < 0.35:
            ops.append("ev 4f422e now")
            size += 12
            res.dist("op:burst")
        elif k < 0.55:
            ops.append("mark 61 1 %d" % r.randrange(1, 50))
            size += 24
            res.dist("op:mark")
        elif k < 0.75:
            ops.append("flush")
            size += 24
            res.dist("op:flush")
        elif k < 0.85:
            ops.append("attrflush")
            res.dist("op:attrflush")
        else:
            ln = r.choice([8, 30, 100, 1000, 1500, 3000])
            pre = struct.pack("<I", typeid) + b"t%d" % typeid + b"\0"
            typeid += 1
            ops.append("jumbo 565963 now %d %d %s" % (ln, r.randrange(256), pre.hex()))
            size += 16 + ln
            res.dist("op:jumbo")
    if boundary:
        # pad so that size + 16 + ln + 12 (OHe) is a multiple of 4096
        target = ((size + 16 + 8 + 12 + 4095) // 4096) * 4096
        ln = target - size - 16 - 12
        pre = struct.pack("<I", typeid) + b"t%d" % typeid + b"\0"
        ops.append("jumbo 565963 now %d %d %s" % (ln, r.randrange(256), pre.hex()))
        res.dist("op:jumbo-pad-to-4096")
    ops.append(OHE)
    tail = r.random()
    if boundary or tail < 0.5:
        ops += ["flush", "flush"]
        if r.random() < 0.3:
            ops.append("flush")
        res.dist("tail:flush-after-OHe-flush")
    else:
        ops += ["flush"]
        res.dist("tail:single-flush")
    ops += ["free", "fini"]
    return " ; ".join(ops)


def script_ops(script):
    return [o.strip() for o in script.split(";")]


def flushed_user_events(script, upto_op):
    """User events the thread had certainly flushed when op index `upto_op`
    started (None = the whole script ran): those emitted before the last
    `flush` op that completed.  From the script alone."""
    ops = script_ops(script)
    n = len(ops) if upto_op is None else max(0, upto_op)
    last = -1
    for i in range(n):
        if ops[i] == "flush":
            last = i
    return c01.user_events_of(" ; ".join(ops[:last])) if last >= 0 else []


def flush_markers_expected(script, upto_op):
    """Number of OF[ markers certainly on disk: one per completed flush except
    the last (whose markers stay in the buffer)."""
    ops = script_ops(script)
    n = len(ops) if upto_op is None else max(0, upto_op)
    return max(0, sum(1 for o in ops[:n] if o == "flush") - 1)


def matches(rec, ue):
    mcv, clk, pay, jl = ue
    if rec[2] != mcv:
        return False
    if jl is None:
        return rec[0] == "E" and rec[4] == pay
    return rec[0] == "J" and rec[4] == jl[0] and rec[6] == rt_lib.pattern(jl[0], jl[1], jl[2])


def stream_has(data, must, nmarkers):
    """Does stream.obs (bytes) contain, in order, every event of `must` and at
    least `nmarkers` flush marker pairs?  Returns a problem string or None."""
    hdr_ok, recs, trailing = rt_lib.decode_stream(data)
    if hdr_ok is not True:
        return "no stream header"
    urecs = [x for x in recs if not (x[0] == "E" and x[2] in (b"OF[", b"OF]") and len(x[4]) == 0)]
    if len(urecs) < len(must):
        return "only %d user events present, %d had been flushed" % (len(urecs), len(must))
    for i, ue in enumerate(must):
        if not matches(urecs[i], ue):
            return "flushed user event #%d differs" % i
    nm = sum(1 for x in recs if x[0] == "E" and x[2] == b"OF]")
    if nm < nmarkers:
        return "only %d of %d flushed flush-marker pairs present" % (nm, nmarkers)
    return None


def visible_streams(tracedir):
    out = []
    for d, dn, fn in os.walk(tracedir):
        if "stream.json" in fn:
            out.append(d)
    return out


def json_finished(path):
    try:
        return json.load(open(path)).get("ovni", {}).get("finished") == 1
    except Exception:
        return False


class EmuCache:
    def __init__(self, bdir, res):
        self.bdir, self.res, self.cache = bdir, res, {}
        self.runs = 0

    def verdict(self, tracedir):
        h = hashlib.sha1()
        for d, dn, fn in os.walk(tracedir):
            dn.sort()
            h.update(os.path.relpath(d, tracedir).encode() + b"\0")
            for f in sorted(fn):
                h.update(f.encode() + b"\0" + open(os.path.join(d, f), "rb").read() + b"\1")
        key = h.hexdigest()
        if key not in self.cache:
            rc, err = run_emu(self.bdir, tracedir, ["-l"])
            self.cache[key] = verdict(rc, err)
            self.runs += 1
        return self.cache[key]


def stdio_on_disk(sizes, bufsz=4096):
    """Bytes glibc's stdio has handed to the kernel after fwrite calls of the
    given sizes on a fresh fully-buffered FILE (_IO_new_file_xsputn: fill the
    buffer; when data remains, flush it, write whole blocks directly, buffer
    the rest; the buffer is allocated by the first overflow)."""
    disk, buf, allocated = 0, 0, False
    for n in sizes:
        space = (bufsz - buf) if allocated else 0
        c = min(space, n)
        buf += c
        rem = n - c
        if rem > 0:
            disk += buf
            buf = 0
            allocated = True
            dw = rem - rem % bufsz
            disk += dw
            buf = rem - dw
    return disk
