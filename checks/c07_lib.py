"""Helpers of the C07 check: label hash, an independent reference automaton of
the task life-cycle (used to steer the generators towards mostly-legal
histories and as the oracle on the implementation's own dumps), generators."""
import re

PAR, RES, PAU, RLX = 1, 2, 4, 8   # enum task_flags
PCF_RESERVED = 1000
M32 = 0xFFFFFFFF


def jenkins(key: bytes) -> int:
    """uthash HASH_JEN (the default HASH_FUNCTION), 32 bit."""
    def mix(a, b, c):
        a = (a - b - c) & M32; a ^= c >> 13
        b = (b - c - a) & M32; b ^= (a << 8) & M32
        c = (c - a - b) & M32; c ^= b >> 13
        a = (a - b - c) & M32; a ^= c >> 12
        b = (b - c - a) & M32; b ^= (a << 16) & M32
        c = (c - a - b) & M32; c ^= b >> 5
        a = (a - b - c) & M32; a ^= c >> 3
        b = (b - c - a) & M32; b ^= (a << 10) & M32
        c = (c - a - b) & M32; c ^= b >> 15
        return a, b, c
    h = 0xfeedbeef
    i = j = 0x9e3779b9
    k = len(key)
    p = 0
    w = lambda o: key[o] | key[o + 1] << 8 | key[o + 2] << 16 | key[o + 3] << 24
    while k >= 12:
        i = (i + w(p)) & M32
        j = (j + w(p + 4)) & M32
        h = (h + w(p + 8)) & M32
        i, j, h = mix(i, j, h)
        p += 12
        k -= 12
    h = (h + len(key)) & M32
    t = key[p:]
    for n in range(k, 0, -1):
        v = t[n - 1]
        if n >= 9:
            h = (h + (v << (8 * (n - 8)))) & M32
        elif n >= 5:
            j = (j + (v << (8 * (n - 5)))) & M32
        else:
            i = (i + (v << (8 * (n - 1)))) & M32
    i, j, h = mix(i, j, h)
    return h


def type_label(typeid, label: bytes) -> bytes:
    """task_type_create: an empty label gets a generated name."""
    return label if label else b"(unlabeled task type %d)" % typeid


def gid_of_label(label: bytes) -> int:
    """task_get_type_gid (independent of the Lean gidOf: written from task.c)"""
    g = (jenkins(label) + 666) & M32
    g &= 0x7FFFFFFF
    if g < PCF_RESERVED:
        g += PCF_RESERVED
    return g


# --------------------------------------------------------------------------
# Reference automaton written from the documentation (body-model.dot, nosv.md)
# --------------------------------------------------------------------------

class Ref:
    """Bodies: phase in {None(created), 'R', 'P', 'D'}; per-thread stacks."""

    def __init__(self):
        self.types = set()
        self.flags = {}      # task -> flags
        self.phase = {}      # (task, body) -> 'R' | 'P' | 'D'
        self.stack = {}      # thread -> [ (task, body) ... ] top first

    def copy(self):
        r = Ref()
        r.types = set(self.types)
        r.flags = dict(self.flags)
        r.phase = dict(self.phase)
        r.stack = {k: list(v) for k, v in self.stack.items()}
        return r

    def top(self, s):
        l = self.stack.get(s, [])
        return l[0] if l else None

    def can_start(self, s):
        t = self.top(s)
        if t is None or self.phase.get(t) != 'R':
            return True
        return bool(self.flags[t[0]] & RLX)

    def legal(self, op):
        k = op[0]
        if k == "type":
            return op[1] != 0 and op[1] not in self.types
        if k == "create":
            _, t, ty, f = op
            return t not in self.flags and ty in self.types
        _, s, t, b = op
        if t not in self.flags:
            return False
        f = self.flags[t]
        ph = self.phase.get((t, b))
        if k == "exec":
            if ph is None:
                if b == 0:
                    return False
                if not f & PAR and any(tt == t for (tt, _) in self.phase):
                    return False
            elif ph == 'D':
                if not f & RES:
                    return False
            else:
                return False
            return self.can_start(s)
        if self.top(s) != (t, b):
            return False
        if k == "pause":
            return bool(f & PAU) and ph == 'R'
        if k == "resume":
            return ph == 'P'
        if k == "end":
            return ph == 'R'
        raise ValueError(k)

    def apply(self, op):
        k = op[0]
        if k == "type":
            self.types.add(op[1])
        elif k == "create":
            self.flags[op[1]] = op[3]
        else:
            _, s, t, b = op
            if k == "exec":
                self.phase[(t, b)] = 'R'
                self.stack.setdefault(s, []).insert(0, (t, b))
            elif k == "pause":
                self.phase[(t, b)] = 'P'
            elif k == "resume":
                self.phase[(t, b)] = 'R'
            elif k == "end":
                self.phase[(t, b)] = 'D'
                self.stack[s].pop(0)

    def legal_ops(self, stacks, tasks, bodies):
        out = []
        for k in ("exec", "pause", "resume", "end"):
            for s in stacks:
                for t in tasks:
                    for b in bodies:
                        if self.legal((k, s, t, b)):
                            out.append((k, s, t, b))
        return out


def op_line(op, labels=None):
    k = op[0]
    if k == "type":
        lab = (labels or {}).get(op[1], b"t%d" % op[1])
        full = type_label(op[1], lab)
        return "task type %d %s %d" % (op[1], lab.hex() if lab else "-", jenkins(full))
    if k == "create":
        return "task create %d %d %d" % (op[1], op[2], op[3])
    return "task %s %d %d %d" % op


# --------------------------------------------------------------------------
# Parsing the canonical dump (both sides print the same form)
# --------------------------------------------------------------------------

DUMP_T = re.compile(r"T(\d+):(\d+):(\d+):(\d+):(\d+)\[([^\]]*)\]")


def parse_dump(line):
    """'ok <tasks> | <stacks>' -> (tasks, stacks) with
    tasks = {tid: dict(type, gid, nbodies, flags, bodies={bid: (state, stack, iter, bflags)})}
    stacks = {s: [(t,b)...]}"""
    assert line.startswith("ok "), line
    body = line[3:]
    tpart, spart = body.split(" | ")
    tasks = {}
    for m in DUMP_T.finditer(tpart):
        tid, ty, gid, nb, fl, bs = m.groups()
        bodies = {}
        if bs:
            for b in bs.split(","):
                f = b.split(":")
                bodies[int(f[0][1:])] = (f[1], None if f[2] == "-" else int(f[2]), int(f[3]), int(f[4]))
        tasks[int(tid)] = dict(type=int(ty), gid=int(gid), nbodies=int(nb), flags=int(fl), bodies=bodies)
    stacks = {}
    for s in spart.split(";"):
        name, l = s.split(":", 1)
        stacks[int(name[1:])] = [] if l == "-" else [tuple(map(int, x.split("."))) for x in l.split(",")]
    return tasks, stacks


def oracle_dump(prev, cur, op):
    """Property oracle on two consecutive dumps of the IMPLEMENTATION around an
    accepted state operation `op`.  Returns a list of complaints."""
    bad = []
    tasks, stacks = cur
    if "!" in str(cur):
        bad.append("accessor mismatch")
    # a body is on at most one stack, exactly when running/paused, and where its back pointer says
    seen = {}
    for s, l in stacks.items():
        for r in l:
            if r in seen:
                bad.append(f"body {r} on two stacks/twice")
            seen[r] = s
    for t, T in tasks.items():
        if not T["flags"] & PAR and len(T["bodies"]) > 1:
            bad.append(f"non-parallel task {t} has {len(T['bodies'])} bodies")
        if T["nbodies"] != len(T["bodies"]):
            bad.append(f"task {t} nbodies {T['nbodies']} != {len(T['bodies'])}")
        for b, (st, stk, it, bf) in T["bodies"].items():
            on = seen.get((t, b))
            if (st in "RP") != (on is not None):
                bad.append(f"body {t}.{b} state {st} but on stack {on}")
            if stk != on:
                bad.append(f"body {t}.{b} back pointer {stk} but listed on {on}")
            if st == "P" and not T["flags"] & PAU:
                bad.append(f"body {t}.{b} paused without pause flag")
            if st == "C":
                bad.append(f"body {t}.{b} left in Created state after an accepted operation")
    if prev is None or op[0] in ("type", "create"):
        return bad
    ptasks, pstacks = prev
    k, s, t, b = op
    # only the named body changes, and it is/was the top of stack s
    for tt, T in tasks.items():
        for bb, v in T["bodies"].items():
            old = ptasks.get(tt, {"bodies": {}})["bodies"].get(bb)
            if (tt, bb) != (t, b) and old != v:
                bad.append(f"{k} {t}.{b} changed another body {tt}.{bb}: {old} -> {v}")
    for ss in stacks:
        if ss != s and stacks[ss] != pstacks.get(ss, []):
            bad.append(f"{k} on stack {s} changed stack {ss}")
    old = ptasks.get(t, {"bodies": {}})["bodies"].get(b)
    new = tasks[t]["bodies"].get(b)
    ost = old[0] if old else "C"
    nst = new[0] if new else "C"
    want = {"exec": ("CD", "R"), "pause": ("R", "P"), "resume": ("P", "R"), "end": ("R", "D")}[k]
    if ost not in want[0] or nst != want[1]:
        bad.append(f"{k} {t}.{b}: transition {ost}->{nst} not in the body diagram")
    if k == "exec":
        if ost == "D" and not tasks[t]["flags"] & RES:
            bad.append(f"{k} {t}.{b}: ran again without resurrect flag")
        if ost == "D" and new[2] != old[2] + 1:
            bad.append(f"{k} {t}.{b}: iteration not incremented")
        if stacks[s] != [(t, b)] + pstacks.get(s, []):
            bad.append(f"{k} {t}.{b}: not pushed on top of stack {s}")
        below = pstacks.get(s, [])
        if below:
            ut, ub = below[0]
            if ptasks[ut]["bodies"][ub][0] == "R" and not ptasks[ut]["flags"] & RLX:
                bad.append(f"{k} {t}.{b}: nested over running {ut}.{ub} without relaxed nesting")
    else:
        if not pstacks.get(s) or pstacks[s][0] != (t, b):
            bad.append(f"{k} {t}.{b}: was not the top of stack {s}")
        if k == "end":
            if stacks[s] != pstacks[s][1:]:
                bad.append(f"end {t}.{b}: stack not popped")
        elif stacks[s] != pstacks[s]:
            bad.append(f"{k} {t}.{b}: stack changed")
    return bad


# --------------------------------------------------------------------------
# Unit (task.c/body.c) case generators
# --------------------------------------------------------------------------

KINDS = ("exec", "pause", "resume", "end")


def mutating_failure(ref, op):
    """A failing task_execute that leaves C state modified (a body created or
    resurrected before the nesting test refused it)."""
    if op[0] != "exec":
        return False
    _, s, t, b = op
    if t not in ref.flags:
        return False
    f = ref.flags[t]
    ph = ref.phase.get((t, b))
    if ph is None:
        if b == 0 or (not f & PAR and any(tt == t for (tt, _) in ref.phase)):
            return False
    elif ph == 'D':
        if not f & RES:
            return False
    else:
        return False
    return not ref.can_start(s)


def exhaustive_cases(f1, f2, depth, stacks=(0, 1), tasks=(1, 2), bodies=(0, 1, 2)):
    """All (state, op) pairs for the states reachable within `depth` accepted
    state operations from {type 1; task 1 flags f1; task 2 flags f2}: i.e. every
    history of <= depth+1 operations whose proper prefixes are accepted, up to
    identifying prefixes that reach the same state.  Yields lists of
    (line, op-or-None, expect_ok) forming one case each."""
    pre = [("type", 1), ("create", 1, 1, f1), ("create", 2, 1, f2)]
    r0 = Ref()
    for op in pre:
        r0.apply(op)
    allops = [(k, s, t, b) for k in KINDS for s in stacks for t in tasks + (3,) for b in bodies]

    def key(r, it):
        return (tuple(sorted(r.phase.items())),
                tuple(sorted((k, tuple(v)) for k, v in r.stack.items() if v)),
                tuple(sorted(it.items())))
    seen = {key(r0, {})}
    frontier = [(r0, {}, ())]
    head = ["task reset %d" % len(stacks)] + [op_line(o) for o in pre]
    for d in range(depth + 1):
        nf = []
        for (r, it, prefix) in frontier:
            base = [(l, None, True) for l in head] + [(op_line(o), o, True) for o in prefix]
            probes = []
            for op in allops:
                if op[2] == 3 and op[3] != 1:
                    continue        # unknown task: one body id is enough
                ok = r.legal(op)
                if ok or mutating_failure(r, op):
                    yield base + [(op_line(op), op, ok)]
                else:
                    probes.append((op_line(op).replace("task ", "task probe ", 1), op, False))
                if ok and d < depth:
                    r2 = r.copy()
                    it2 = dict(it)
                    if op[0] == "exec" and r.phase.get((op[2], op[3])) == 'D':
                        it2[(op[2], op[3])] = it2.get((op[2], op[3]), 0) + 1
                    r2.apply(op)
                    k = key(r2, it2)
                    if k not in seen:
                        seen.add(k)
                        nf.append((r2, it2, prefix + (op,)))
            yield base + probes
        frontier = nf


def random_case(r, maxlen=28):
    """A mostly-legal random history over up to 4 tasks / 3 stacks / 2 types,
    ending with (at most) one illegal operation."""
    nst = r.choice([1, 2, 2, 3])
    ref = Ref()
    labels = {}
    lines = [("task reset %d" % nst, None, True)]
    flagpool = [RES | PAU, PAR, PAU | RLX, 0, 15, PAU, RES, RLX, PAR | RLX, PAR | PAU, RES | PAU | RLX, r.randrange(16)]
    n = r.randrange(4, maxlen)
    tasks = []
    bodies = (0, 1, 2, 3)
    p_bad = r.choice([0.0, 0.03, 0.08])
    lab = lambda ty: r.choice([b"", b"a", b"main", b"x" * 30, b"Unlabeled0", b"t%d" % ty,
                               bytes([r.randrange(33, 127) for _ in range(r.randrange(1, 20))])])
    for i in range(n):
        bad = r.random() < p_bad
        k = r.random()
        if not ref.types or (k < 0.04 and len(ref.types) < 3):
            ty = r.choice([x for x in (1, 2, 3, 7) if bad or x not in ref.types]) if not (bad and r.random() < 0.3) else 0
            labels[ty] = lab(ty)
            cand = ("type", ty)
        elif len(tasks) < 2 or (k < 0.12 and len(tasks) < 5):
            pool = [1, 2, 3, 4, 0, 4000000000]
            t = r.choice(pool if bad else [x for x in pool if x not in tasks])
            ty = 9 if (bad and r.random() < 0.5) else r.choice(sorted(ref.types))
            cand = ("create", t, ty, r.choice(flagpool))
        else:
            legal = ref.legal_ops(range(nst), tasks, bodies)
            if legal and not bad:
                ends = [o for o in legal if o[0] == "end"]
                cand = r.choice(legal if r.random() < 0.8 or not ends else [o for o in legal if o[0] != "end"] or legal)
            else:
                cand = (r.choice(KINDS), r.randrange(nst), r.choice(tasks + [99]), r.choice(bodies))
        ok = ref.legal(cand)
        lines.append((op_line(cand, labels), cand, ok))
        if not ok:
            break
        ref.apply(cand)
        if cand[0] == "create":
            tasks.append(cand[1])
    return lines


# --------------------------------------------------------------------------
# End-to-end scenarios (nOS-V / Nanos6 traces)
# --------------------------------------------------------------------------

class L2Ref:
    """Reference of one process at the event level, from the documentation:
    the life-cycle automaton plus the subsystem stack discipline of a thread."""

    def __init__(self, model, ss_dup, st_body):
        self.model = model
        self.ref = Ref()
        self.ss = {}            # thread -> list, top first
        self.ss_dup = ss_dup
        self.body = st_body

    def flags_of(self, c):
        if self.model == "V":
            return PAR if c == "C" else RES | PAU
        return PAU | RLX

    def bodyid(self, t, bp):
        """internal body id or None if the payload is refused"""
        if self.model == "6":
            return 1
        f = self.ref.flags.get(t)
        if f is None:
            return None
        if f & PAR:
            return bp if bp != 0 else None
        return 1 if bp == 0 else None

    def legal(self, ev):
        k = ev[0]
        if k == "type":
            return self.ref.legal(("type", ev[2]))
        if k == "create":
            return self.ref.legal(("create", ev[3], ev[4], self.flags_of(ev[2])))
        th = ev[1]
        st = self.ss.get(th, [])
        if k == "sspush":
            return (self.ss_dup or not st or st[0] != ev[2]) and len(st) < 512
        if k == "sspop":
            return bool(st) and st[0] == ev[2]
        _, th, v, t, bp = ev
        b = self.bodyid(t, bp)
        if b is None:
            return False
        op = ({"x": "exec", "e": "end", "p": "pause", "r": "resume"}[v], th, t, b)
        if not self.ref.legal(op):
            return False
        if v == "x":
            return t != 0 and (self.ss_dup or not st or st[0] != self.body) and len(st) < 512
        if v == "e":
            return bool(st) and st[0] == self.body
        return True

    def apply(self, ev):
        k = ev[0]
        if k == "type":
            self.ref.apply(("type", ev[2]))
        elif k == "create":
            self.ref.apply(("create", ev[3], ev[4], self.flags_of(ev[2])))
        elif k == "sspush":
            self.ss.setdefault(ev[1], []).insert(0, ev[2])
        elif k == "sspop":
            self.ss[ev[1]].pop(0)
        else:
            _, th, v, t, bp = ev
            b = self.bodyid(t, bp)
            self.ref.apply(({"x": "exec", "e": "end", "p": "pause", "r": "resume"}[v], th, t, b))
            if v == "x":
                self.ss.setdefault(th, []).insert(0, self.body)
            elif v == "e":
                self.ss[th].pop(0)
