"""Helpers shared by the C04 and C05 checks: continuation of a history after its
single illegal step (so that an implementation that wrongly accepts the step
accepts the whole trace), the transition matrix of the thread automaton, and a
stricter comparison of the point of rejection."""
import struct

import emu_lib
import histories
from histories import Walk2

NATURAL = {"x": "running", "c": "cooling", "p": "paused", "w": "warming", "r": "running", "e": "dead"}


def complete_as_if(w):
    """`w` is a walk whose last event is illegal according to the specification.
    Update the specification state as an implementation that accepts the event
    would, then bring every thread to dead with legal events only.  The history
    stays illegal (`w.illegal` is kept): the expected verdict is reject, and the
    implementation must refuse it at the illegal event."""
    if not w.illegal or not w.events:
        return
    t, _clk, mcv, payload = w.events[-1][:4]
    mcv = mcv if isinstance(mcv, str) else mcv.decode("latin1")
    sysd = w.sys
    li = sysd.threads[t][0]
    if mcv.startswith("OH") and mcv[2] in NATURAL:
        op = mcv[2]
        if op == "x":
            pass        # Walk.thread_op already bound the thread when the source state was legal
        elif w.cpu[t] is not None:
            w.st[t] = NATURAL[op]
            if w.st[t] == "dead":
                w.cpu[t] = None
    elif mcv == "OAs" and w.cpu[t] is not None:
        g = sysd.cpu_gindex(li, struct.unpack("<i", payload[:4])[0])
        if g is not None:
            w.cpu[t] = g
    elif mcv == "OAr":
        idx, tid = struct.unpack("<ii", payload[:8])
        g = sysd.cpu_gindex(li, idx)
        for d, (l2, _pid, t2) in enumerate(sysd.threads):
            if l2 == li and t2 == tid and w.cpu[d] is not None and g is not None:
                w.cpu[d] = g
                break
    keep = list(w.illegal)
    for tt in range(w.n):
        guard = 0
        while w.st[tt] not in ("dead", "unknown") and guard < 6:
            guard += 1
            st = w.st[tt]
            # legal_ops refuses a resume onto a busy CPU; here any legal transition will do
            ops = [op for op in "xcpwre" if st in histories.LEGAL[op]]
            nxt = "e" if "e" in ops else ("r" if "r" in ops else ("w" if "w" in ops else None))
            if nxt is None:
                break
            w.thread_op(tt, nxt)
    for tt in range(w.n):
        if w.st[tt] == "unknown":
            w.thread_op(tt, "x", cpu=[(g, c) for g, c in w.cpus_of_loom(sysd.threads[tt][0]) if c[2] == 1][0])
            w.thread_op(tt, "e")
    w.illegal = keep + [x for x in w.illegal if x not in keep]


PREFIX = {"unknown": "", "running": "x", "cooling": "xc", "paused": "xp", "warming": "xpw", "dead": "xe"}


def transition_matrix():
    """For every state of the documented automaton and every event, one history:
    reach the state on thread 0, apply the event, then (as-if accepted) finish.
    Execute on a dead thread is outside the quantified space."""
    sysd = emu_lib.Sys([("node0", [(100, [10, 11])], [3])], {"ovni": "1.1.0"})
    out = []
    for st, pre in PREFIX.items():
        for op in "xcpwre":
            if st == "dead" and op == "x":
                continue
            w = Walk2(None, sysd, {})
            w.tick = (lambda w=w: setattr(w, "clk", w.clk + 1) or w.clk)
            c0 = (0, sysd.cpus[0])
            for o in pre:
                w.thread_op(0, o, cpu=c0 if o == "x" else None)
            w.thread_op(0, op, cpu=c0 if op == "x" else None)
            if w.illegal:
                complete_as_if(w)
            else:
                w.finish_all()
                for tt in range(w.n):
                    if w.st[tt] == "unknown":
                        w.thread_op(tt, "x", cpu=(1, sysd.cpus[1]))
                        w.thread_op(tt, "e")
            out.append((sysd, w.events, w.expected(), "; ".join(w.illegal)))
    return out


def directed_oversub():
    """Execute on / resume onto a physical CPU that has a running thread, completed as if
    accepted: both must be refused."""
    sysd = emu_lib.Sys([("node0", [(100, [10, 11])], [3])], {"ovni": "1.1.0"})
    c0 = (0, sysd.cpus[0])
    out = []
    for word in ("x0 x1", "x0 p0 x1 r0"):
        w = Walk2(None, sysd, {})
        w.tick = (lambda w=w: setattr(w, "clk", w.clk + 1) or w.clk)
        for tok in word.split():
            w.thread_op(int(tok[1]), tok[0], cpu=c0 if tok[0] == "x" else None)
        complete_as_if(w)
        out.append((sysd, w.events, w.expected(), "; ".join(w.illegal)))
    return out


def kernel_cases():
    """The kernel model's context switches (KCO / KCI) on top of the thread life-cycle: a thread that is
    switched out is still Running for the ovni model — it must end before the trace does, and its physical
    CPU stays taken.  Directed histories over two threads of one process and one physical CPU; illegal
    ones are continued as if accepted, so that an emulator that accepts them ends with exit 0."""
    req = {"ovni": "1.1.0", "kernel": "1.0.0"}
    sys2 = emu_lib.Sys([("node0", [(100, [10, 11])], [3])], req)
    sys1 = emu_lib.Sys([("node0", [(100, [10])], [3])], req)
    out = []

    def walk(tokens):
        sysd = sys2 if "1" in tokens else sys1       # single-thread words run in a one-thread trace
        c0 = (0, sysd.cpus[0])
        w = Walk2(None, sysd, {})
        w.tick = (lambda w=w: setattr(w, "clk", w.clk + 1) or w.clk)
        for tok in tokens.split():
            op, t = tok[0], int(tok[1])
            if op == "O":
                w.emit(t, "KCO")
            elif op == "I":
                w.emit(t, "KCI")
            elif op == "E":                       # raw OHe after an illegal step (as if it had been accepted)
                w.emit(t, "OHe")
                w.st[t] = "dead"
            elif op == "X":                       # execute on the taken CPU: illegal (oversubscription)
                w.thread_op(t, "x", cpu=c0)
            else:
                w.thread_op(t, op, cpu=c0 if op == "x" else None)
        return w

    # legal: switched out and back in, then the end
    for word in ("x0 O0 I0 e0", "x0 O0 I0 O0 I0 e0"):
        w = walk(word)
        out.append((w.sys, w.events, w.expected(), "; ".join(w.illegal)))
    # the trace ends while the thread is switched out (or back in) but not dead: refused at the end
    for word in ("x0 O0", "x0 O0 I0"):
        w = walk(word)
        exp = w.expected()
        out.append((w.sys, w.events, "reject" if exp == "ok" else exp, "; ".join(w.illegal) or "thread not dead at the end"))
    # a second thread executes on the physical CPU of a thread that is only switched out: oversubscription
    w = walk("x0 O0 X1")
    w.illegal = w.illegal or ["t1: execute on cpu 0 taken by the switched-out t0"]
    why = list(w.illegal)
    for t, mcv in ((1, "OHe"), (0, "KCI"), (0, "OHe")):
        w.emit(t, mcv)
    w.illegal = why
    out.append((w.sys, w.events, "reject", "; ".join(why)))
    return out


def point_mismatch(mres, ires):
    """Both reject: the model at an event, ovniemu only at the end (or the other way round)."""
    if mres[0] == "reject" and ires[0] == "reject" and (mres[1] is None) != (ires[1] is None):
        return ("rejected at different points: ovniemu %s, model %s" %
                ("at dclock=%s" % ires[1] if ires[1] is not None else "not at an event (finish)",
                 "at dclock=%s" % mres[1] if mres[1] is not None else "not at an event (finish)"))
    return None
