"""C06 — view consistency: the tracking muxes show a value exactly when the
thread state / CPU occupancy allows.

X1: random networks and write/propagate rounds through the real
    chan.c/bay.c/mux.c/track.c (harness/bay_c.c) and the Lean bay (drv_bay).
X2: mixed histories through the real ovniemu and the Lean reference emulator,
    with the independent view oracle of emu_props.
"""
import os

import c04
import emu_props
import engine
import vcommon

PID = "C06"


# --------------------------------------------------------------------------
# X1 generator
# --------------------------------------------------------------------------

class Net:
    """A random small network plus enough shadow state to keep the rounds
    mostly valid."""

    def __init__(self, r, res, wild):
        self.r = r
        self.lines = ["reset"]
        self.chans = []          # dict(kind, props)
        self.muxes = []          # dict(sel,out,kind,inputs,default)
        self.raw = []
        self.outs = []
        self.stack = {}          # shadow of stack channels
        self.wild = wild         # allow chains / shared outputs / self select / user writes to outputs
        self.res = res
        self.build()

    def add_chan(self, stack=False, props=()):
        cid = len(self.chans)
        self.chans.append({"stack": stack, "props": tuple(props)})
        self.lines.append("chan %d %s%s" % (cid, "stack" if stack else "single",
                                            "".join(" " + p for p in props)))
        if stack:
            self.stack[cid] = []
        return cid

    def build(self):
        r = self.r
        nraw = r.randrange(2, 9)
        for _ in range(nraw):
            props = []
            if r.random() < 0.3:
                props.append("dup")
            if r.random() < 0.3:
                props.append("ignoredup")
            if r.random() < 0.04:
                props.append("dirtywrite")
            self.raw.append(self.add_chan(stack=r.random() < 0.35, props=props))
        nmux = r.choice([1, 1, 2, 2, 3, 4])
        sels = []
        for m in range(nmux):
            kind = r.choice(["index", "index", "index", "running", "active"])
            nin = r.randrange(1, 7) if kind == "index" else 1
            if kind != "index" and r.random() < 0.02:
                nin = 2       # select function rejects it at propagate time
            # select channel: share with a previous mux often
            if sels and r.random() < 0.45:
                sel = r.choice(sels)
            else:
                sel = r.choice(self.raw)
            if self.wild and self.outs and r.random() < 0.2:
                sel = r.choice(self.outs)      # chained
            sels.append(sel)
            # output
            if self.wild and self.outs and r.random() < 0.1:
                out = r.choice(self.outs)       # shared output
            elif r.random() < 0.02:
                out = self.add_chan(stack=True)  # rejected by mux_init
            elif r.random() < 0.02:
                out = sel
            else:
                out = self.add_chan()
            dflt = None
            if r.random() < 0.35:
                dflt = r.choice(["null", "0", "7", "-3", str(r.randrange(100))])
            mid = len(self.muxes)
            self.lines.append("mux %d %d %d %s %d%s" % (mid, sel, out, kind, nin, "" if dflt is None else " " + dflt))
            if self.chans[out]["stack"] or out == sel:
                self.res.dist("x1:mux-init-rejected")
                continue
            if out not in self.outs:
                self.outs.append(out)
            inputs = []
            for i in range(nin):
                pool = list(self.raw)
                if self.wild and r.random() < 0.15:
                    pool = [o for o in self.outs if o != out] or pool
                if self.wild and r.random() < 0.06:
                    pool = [sel]
                c = r.choice(pool)
                if r.random() < 0.02:
                    c = out     # rejected
                    self.lines.append("input %d %d %d" % (mid, i, c))
                    c = r.choice(self.raw)
                if r.random() < 0.02:
                    self.lines.append("input %d %d %d" % (mid, i + nin, c))   # out of range (err)
                self.lines.append("input %d %d %d" % (mid, i, c))
                if r.random() < 0.02:
                    self.lines.append("input %d %d %d" % (mid, i, c))          # already set (err)
                inputs.append(c)
            self.muxes.append({"sel": sel, "out": out, "kind": kind, "inputs": inputs,
                               "default": dflt or "null", "id": mid})
        # tracks
        for _ in range(r.choice([0, 0, 1, 2])):
            mode = r.choice([0, 1, 2, 1, 2, 3])
            sel = r.choice(self.raw)
            inp = r.choice(self.raw)
            self.lines.append("track %d %d %d" % (mode, sel, inp))
            if mode == 3:
                continue
            out = len(self.chans)
            self.chans.append({"stack": False, "props": ()})
            if mode == 0:
                continue
            self.outs.append(out)
            self.muxes.append({"sel": sel, "out": out, "kind": "running" if mode == 1 else "active",
                               "inputs": [inp], "default": "null", "id": len(self.muxes)})
        # CPU tracks (connect_cpu for one channel): select + one raw channel per "thread"
        for _ in range(r.choice([0, 0, 0, 1, 2])):
            sel = r.choice(self.raw)
            rs = [r.choice(self.raw) for _ in range(r.randrange(1, 5))]
            dflt = r.choice(["null", "null", "7", "0"])
            self.lines.append("cputrack %d %s %s" % (sel, dflt, " ".join(map(str, rs))))
            out = len(self.chans)
            self.chans.append({"stack": False, "props": ()})
            self.outs.append(out)
            self.muxes.append({"sel": sel, "out": out, "kind": "index", "inputs": rs, "default": dflt,
                               "id": len(self.muxes)})
        for c in range(len(self.chans)):
            if c in self.outs or r.random() < 0.3:
                self.lines.append("emit %d" % c)
        self.res.dist("x1:muxes=%d" % len(self.muxes))

    # ---- rounds ----
    def value_for(self, c):
        r = self.r
        roles = []
        for m in self.muxes:
            if m["sel"] == c:
                roles.append(m)
        if roles and r.random() < 0.9:
            idx = [len(m["inputs"]) for m in roles if m["kind"] == "index"]
            k = r.random()
            if k < 0.1:
                return "null"
            if idx:
                if k < 0.125:
                    return str(r.choice([-1, min(idx), max(idx) + 3]))
                return str(r.randrange(min(idx)))
            if k < 0.14:
                return str(r.choice([4294967297, -4294967295, 6, -1, 4294967296 * 3 + 4]))
            return str(r.randrange(0, 6))
        return r.choice(["null"] + [str(r.randrange(0, 6)) for _ in range(6)] + [str(r.randrange(-5, 50))])

    def write(self, c):
        r = self.r
        if self.chans[c]["stack"]:
            st = self.stack.setdefault(c, [])
            k = r.random()
            if st and k < 0.45:
                v = st[-1] if r.random() < 0.93 else "99"
                self.lines.append("pop %d %s" % (c, v))
                if v == st[-1]:
                    st.pop()      # may still fail (dirty): shadow is only a heuristic
            elif k < 0.97:
                v = self.value_for(c)
                self.lines.append("push %d %s" % (c, v))
                st.append(v)
            else:
                self.lines.append("set %d 1" % c)
        else:
            if r.random() < 0.02:
                self.lines.append("push %d 1" % c)
            else:
                self.lines.append("set %d %s" % (c, self.value_for(c)))

    def rounds(self):
        r = self.r
        nr = r.randrange(3, 14)
        interesting = 0
        for _ in range(nr):
            k = r.choice([0, 1, 1, 2, 2, 3, 4, len(self.raw)])
            cs = r.sample(self.raw, min(k, len(self.raw)))
            # bias: write select and one of its inputs in the same round
            if self.muxes and r.random() < 0.5:
                m = r.choice(self.muxes)
                pair = [m["sel"], r.choice(m["inputs"])]
                r.shuffle(pair)
                cs = [c for c in cs if c not in pair] + pair
                r.shuffle(cs)
                interesting += 1
            for c in cs:
                if c in self.outs and not self.wild:
                    continue
                self.write(c)
                if r.random() < 0.04:
                    self.write(c)          # second write to a dirty channel
            if self.wild and self.outs and r.random() < 0.1:
                self.lines.append("set %d %s" % (r.choice(self.outs), r.randrange(50)))
            self.lines.append("dirty")
            self.lines.append("propagate")
            for c in range(len(self.chans)):
                self.lines.append("read %d" % c)
            for m in self.muxes:
                self.lines.append("state %d" % m["id"])
        if r.random() < 0.05:
            self.lines.append(r.choice(["bogus", "set 0", "mux 9 9", "chan 99 single", "propagate now", "read x"]))
        return interesting


class ScriptNet:
    """The network as the IMPLEMENTATION accepted it, rebuilt from a script and
    the harness' answers (used by the oracle and by --replay)."""

    def __init__(self, lines, out):
        self.muxes = []
        self.outs = []
        nchans = 0
        for l, o in zip(lines, out):
            w = l.split()
            if not w:
                continue
            if w[0] == "reset":
                self.muxes, self.outs, nchans = [], [], 0
            elif w[0] == "chan" and o == "ok":
                nchans += 1
            elif w[0] == "mux" and o == "ok":
                self.muxes.append({"id": len(self.muxes), "sel": int(w[2]), "out": int(w[3]), "kind": w[4],
                                   "inputs": [None] * int(w[5]), "default": w[6] if len(w) > 6 else "null"})
                if int(w[3]) not in self.outs:
                    self.outs.append(int(w[3]))
            elif w[0] == "input" and o == "ok":
                self.muxes[int(w[1])]["inputs"][int(w[2])] = int(w[3])
            elif w[0] == "cputrack" and o.startswith("ok"):
                self.muxes.append({"id": len(self.muxes), "sel": int(w[1]), "out": nchans, "kind": "index",
                                   "inputs": [int(x) for x in w[3:]], "default": w[2]})
                self.outs.append(nchans)
                nchans += 1
            elif w[0] == "track" and o.startswith("ok"):
                mode = int(w[1])
                if mode != 0:
                    self.muxes.append({"id": len(self.muxes), "sel": int(w[2]), "out": nchans,
                                       "kind": "running" if mode == 1 else "active", "inputs": [int(w[3])],
                                       "default": "null"})
                    self.outs.append(nchans)
                nchans += 1


def frame_ok(net, m):
    """The frame condition of theorem mux_round for mux m (no output is a
    select/input of m, m's output is private, select is not one of m's inputs)."""
    outs = [x["out"] for x in net.muxes]
    if outs.count(m["out"]) != 1:
        return False
    if m["sel"] in outs or any(i in outs for i in m["inputs"]):
        return False
    if m["sel"] in m["inputs"]:
        return False
    return True


def spec_out(m, vals):
    """out = spec(select value, input values)  (DESIGN: thView / cpuView shape)."""
    s = vals[m["sel"]]
    if s == "null":
        return m["default"], True
    s = int(s)
    if m["kind"] == "index":
        if 0 <= s < len(m["inputs"]):
            return vals[m["inputs"][s]], True
        return None, False
    if len(m["inputs"]) != 1:
        return None, False
    st = s % (1 << 32)
    hold = st == 1 if m["kind"] == "running" else st in (1, 4, 5)
    return (vals[m["inputs"][0]] if hold else m["default"]), True


def oracle_x1(net, lines, out, res):
    """Property oracle on the IMPLEMENTATION's answers: after every successful
    propagate, every mux under the frame condition whose select channel has
    been propagated at least once (or whose default is null) shows
    spec(select, inputs); `selected` and the enabled input agree with it."""
    probs = []
    vals = {}
    sel_seen = set()
    dirty_now = set()
    user_wrote_out = False
    i = 0
    n = len(lines)
    while i < n:
        l, o = lines[i], out[i] if i < len(out) else "<missing>"
        w = l.split()
        if w[0] in ("set", "push", "pop") and o == "ok" and len(w) == 3:
            if int(w[1]) in net.outs:
                user_wrote_out = True
        if l == "dirty" and o.startswith("d"):
            dirty_now = {int(x) for x in o.split()[1:]}
        if l == "propagate":
            if o.startswith("ok"):
                j = i + 1
                rd = {}
                st = {}
                while j < n and (lines[j].startswith("read ") or lines[j].startswith("state ")):
                    ww = lines[j].split()
                    if ww[0] == "read" and out[j].startswith("v="):
                        f = dict(x.split("=") for x in out[j].split())
                        rd[int(ww[1])] = f
                    elif ww[0] == "state":
                        st[int(ww[1])] = out[j]
                    j += 1
                vals = {c: f["v"] for c, f in rd.items()}
                # which channels really were dirty: value or dirty flag are not
                # visible after the flush, so use successful writes of this round
                for m in net.muxes:
                    if m["sel"] in dirty_now:
                        sel_seen.add(m["id"])
                for c, f in rd.items():
                    if f["dirty"] != "0":
                        probs.append(f"channel {c} still dirty after propagate (line {i})")
                    if f["last"] != f["v"] and c in dirty_now:
                        probs.append(f"channel {c}: last_value {f['last']} != value {f['v']} after flush (line {i})")
                if not user_wrote_out:
                    for m in net.muxes:
                        if None in m["inputs"] or not frame_ok(net, m):
                            continue
                        if m["id"] not in sel_seen and m["default"] != "null":
                            continue
                        if m["sel"] not in vals:
                            continue
                        want, ok = spec_out(m, vals)
                        if not ok:
                            continue
                        res.dist("x1:oracle-evaluated")
                        got = vals.get(m["out"])
                        if got != want:
                            probs.append(f"mux {m['id']}: output {got} but spec(select={vals[m['sel']]}, inputs) = {want} (line {i})")
                        if m["id"] in sel_seen and m["id"] in st:
                            s = vals[m["sel"]]
                            # recompute the selected index
                            if s == "null":
                                idx = -1
                            elif m["kind"] == "index":
                                idx = int(s)
                            else:
                                stt = int(s) % (1 << 32)
                                idx = 0 if (stt == 1 if m["kind"] == "running" else stt in (1, 4, 5)) else -1
                            wants = "sel=%d en=%s" % (idx, "" if idx < 0 else str(idx))
                            if st[m["id"]] != wants:
                                probs.append(f"mux {m['id']}: mechanism state '{st[m['id']]}' expected '{wants}' (line {i})")
                dirty_now = set()
            elif o != "err unset":
                break
        i += 1
    return probs


def x1_cases(r, res, n):
    cases = []
    for k in range(n):
        wild = r.random() < 0.3
        net = Net(r, res, wild)
        inter = net.rounds()
        res.dist("x1:" + ("wild-topology" if wild else "frame-topology"))
        cases.append((net, inter))
    return cases


def harness(prep):
    R = vcommon.REPO
    srcs = [os.path.join(vcommon.HARNESS, "bay_c.c")] + \
        [os.path.join(R, "src/emu", f) for f in ("chan.c", "bay.c", "mux.c", "track.c")]
    libs = [os.path.join(prep.bdir, "src/emu/libemu.a"), os.path.join(prep.bdir, "src/rt/libovni-static.a"),
            os.path.join(prep.bdir, "src/libparson-static.a"), os.path.join(prep.bdir, "src/libcommon-static.a")]
    return vcommon.cc_harness("bay_c", srcs, prep.bdir, extra=["-w", "-I" + os.path.join(R, "src")],
                              libs=libs + libs + ["-Wl,--allow-multiple-definition"])


def run_x1(res, prep, cases, tag="x1"):
    found = False
    h = harness(prep)
    drv = engine.exe("drv_bay")
    all_lines, spans = [], []
    for net, _ in cases:
        spans.append((len(all_lines), len(all_lines) + len(net.lines)))
        all_lines += net.lines
    rc, impl, ierr = engine.run_lines(h, all_lines)
    _, model, _ = engine.run_lines(drv, all_lines)
    if rc != 0 or len(impl) != len(all_lines):
        # the harness died (sanitizer): locate the case
        idx = len(impl)
        ci = next((k for k, (a, b) in enumerate(spans) if a <= idx < b), len(spans) - 1)
        a, b = spans[ci]
        res.violation(f"{tag}:harness-crash", f"bay harness exited rc={rc} in case {ci}",
                      "\n".join(all_lines[a:b]) + "\n# " + ierr[-1500:].replace("\n", "\n# "))
        return True, 0
    ndis = 0
    for ci, (net, inter) in enumerate(cases):
        a, b = spans[ci]
        ls, io, mo = all_lines[a:b], impl[a:b], model[a:b]
        text = "\n".join(ls)
        nprop = sum(1 for l, o in zip(ls, io) if l == "propagate" and o.startswith("ok"))
        res.case(text, nontrivial=nprop > 0 and len(net.muxes) > 0)
        for l, o in zip(ls, io):
            if l == "propagate":
                res.dist("x1:propagate-" + o.split()[0] + ("-unset" if o == "err unset" else ""))
            elif l.split()[0] in ("set", "push", "pop") and o in ("ok", "err"):
                res.dist("x1:write-" + o)
        if ci < 2:
            k = next((i for i, l in enumerate(ls) if l == "propagate"), 0)
            res.sample({"script": ls[:k + 1][-14:], "impl": io[:k + 1][-14:]})
        dis = [(i, l, x, y) for i, (l, x, y) in enumerate(zip(ls, io, mo)) if x != y]
        probs = oracle_x1(ScriptNet(ls, io), ls, io, res)
        if probs:
            found = True
            res.cov["x1_oracle_violations"] = res.cov.get("x1_oracle_violations", 0) + 1
            res.violation(f"{tag}:oracle:" + probs[0].split("(line")[0].strip()[:60].replace(" ", "_"),
                          "view property violated by the real bay/mux code: " + "; ".join(probs[:3]),
                          text + "\n# " + "\n# ".join(probs[:6]))
        elif dis:
            # the proved model and the real code disagree on a concrete script:
            # that script is the failing input
            ndis += 1
            found = True
            i, l, x, y = dis[0]
            res.cov.setdefault("x1_disagreements", []).append(f"line {i} '{l}': impl '{x}' model '{y}'")
            res.violation(f"{tag}:disagree:" + l.split()[0] + ":" + x.split()[0] + "-vs-" + y.split()[0],
                          f"real bay/mux code and the proved Lean bay disagree at line {i} '{l}': impl '{x}' model '{y}'",
                          "\n".join(ls[:i + 1]) + f"\n# impl:  {x}\n# model: {y}\n# replay: checks/check.py C06 --replay <this file>")
    return found, ndis


def replay_x1(res, prep, path):
    lines = [l.rstrip("\n") for l in open(path) if l.strip() and not l.startswith("#")]
    h = harness(prep)
    _, impl, _ = engine.run_lines(h, lines)
    _, model, _ = engine.run_lines(engine.exe("drv_bay"), lines)
    res.case("\n".join(lines))
    probs = oracle_x1(ScriptNet(lines, impl), lines, impl, res)
    if probs:
        res.violation("x1:replay:oracle", "view property violated by the real bay/mux code: " + "; ".join(probs[:3]),
                      "\n".join(lines) + "\n# " + "\n# ".join(probs[:6]))
        return True
    for i, (l, a, b) in enumerate(zip(lines, impl, model)):
        if a != b:
            res.violation("x1:replay:disagree", f"line {i} '{l}': impl '{a}' model '{b}'", "\n".join(lines[:i + 1]))
            return True
    return False


# --------------------------------------------------------------------------

def check(res, tier, replay=None):
    res.cov["rule"] = (
        "X1: random networks (2-8 raw channels single/stack with dup/ignoredup props, 1-4 muxes of kind index "
        "(1-6 inputs) / running / active, shared selects, defaults, track_connect_thread tracks and connect_cpu-style "
        "tracks (track_init/track_set_select/track_set_input/mux_set_default); 30% 'wild': chained, "
        "shared outputs, select used as own input, user writes to outputs), 3-13 rounds of several writes in random "
        "order (select+input in the same round half of the time, double writes, bad pops, out-of-range selects) then "
        "bay_propagate; after every round all channels (value, last_value, dirty, depth), every mux's selected index "
        "and enabled input callbacks, the dirty list order and the emit-callback order are compared between the REAL "
        "chan.c/bay.c/mux.c/track.c/thread_select_* (ASan+UBSan harness) and the Lean bay; independently the oracle "
        "recomputes out = spec(select, inputs) from the implementation's own channel values for every mux under the "
        "theorem's frame condition.  X2: mixed histories (value events of 1-3 models interleaved with "
        "pause/resume/cool/warm/affinity, <=1 illegal step) through the real ovniemu -l and the Lean reference "
        "emulator; every thread and CPU row of every model channel recomputed from the raw history "
        "(emu_props.oracle_views) and CPU rows from thread rows. non-trivial = at least one successful propagate on a "
        "network with a mux / at least one event; distinct by script")
    res.cov["modelled_not_verified"] = [
        "channel names / uthash lookup (ids are positions), bay->state, VALUE_DOUBLE are not modelled",
        "bay_chan.is_dirty is never set by bay.c, so its guards are dead code and are not modelled",
        "model_cpu.c / model_thread.c loops are modelled by Bay.trackThread / Bay.trackCpu (one step per channel); "
        "their composition over all threads/CPUs/channels is covered by theorem topology_frame (any number of steps) "
        "and, on the real code, only by X2",
    ]
    res.assumptions = [
        "utlist DL_APPEND/DL_DELETE/DL_FOREACH behave as an ordered list with deletion of non-current elements (modelled)",
        "a failed bay_propagate ends the emulation (no state is compared after it)",
        "emit callbacks only read channels; PRV output of the derived rows is covered by X2",
    ]
    prep = engine.prepare(res, drivers=("drv_bay", "drv_emu", "drv_rt"))
    proved = vcommon.prove(res, "C06")
    found = False
    if prep.bdir and prep.driver_ok:
        if replay:
            found = replay_x1(res, prep, replay)
        else:
            r = vcommon.rng("c06")
            n1 = 12000 if tier == "quick" else 60000
            cases = x1_cases(r, res, n1)
            f1, ndis = run_x1(res, prep, cases)
            found = found or f1
            res.cov.setdefault("x1_oracle_violations", 0)
            res.cov["x1_model_disagreements"] = ndis
            res.cov["x1_cases"] = n1
            # ---------------- X2: e2e views ----------------
            tables = emu_props.load_tables()
            n2 = 4000 if tier == "quick" else 15000
            r2 = vcommon.rng("c06-e2e")
            ecases = []
            for i in range(n2):
                # several models, more affinity changes and state changes than the C08 mix
                ecases.append(emu_props.gen_mixed(r2, res, tables, p_illegal=0.1, p_aff=0.25, p_model=0.4,
                                                  maxlen=45))
            types = set()
            for m, tab in tables.items():
                if isinstance(tab, dict) and "pvtType" in tab:
                    types |= set(tab["pvtType"])
            types |= {1, 2, 3, 4, 6}

            # the oracle recomputes the rows with the DOCUMENTED event values and tracking modes (pinned
            # Spec/EventValues.lean, Spec/TrackModes.lean): a changed tracking mode in a setup.c shows up as
            # a concrete timeline (seeded C08-7: the kernel channel tracked ACTIVE instead of ANY)
            doc_tables = emu_props.load_doc_tables(tables)

            def oracle(sysd, events, itl):
                p = emu_props.oracle_views(sysd, events, doc_tables, itl)
                if p is None:
                    return []
                return list(p) + list(emu_props.oracle_cpu_rows(sysd, itl))
            f2 = c04.run_cases(res, prep, ecases, "c06", types, lint=True, spec_oracle=False, oracle=oracle)
            found = found or f2
            res.cov["x2_property_violations"] = bool(f2)
            res.cov["x2_cases"] = n2
            # ---------------- X3: the run-time channel group (user marks) ----------------
            # marks are channels of the ovni model created at run time, tracked "while active" on the thread
            # row and "while running" on the CPU row like every other channel: the generator and the independent
            # oracle of C17 (value shown exactly while the mode holds) are run here as part of the view topology
            import c17
            r3 = vcommon.rng("c06-marks")
            n3 = 120 if tier == "quick" else 1500
            f3 = c17.run_emu_cases(res, prep, [c17.gen_emu_case(r3, res) for _ in range(n3)])
            found = found or f3
            res.cov["x3_mark_cases"] = n3
        for b in res.cov.get("correspondence_breaks", [])[:3]:
            proved = False
            res.failed_obligations = getattr(res, "failed_obligations", []) + ["correspondence: " + b["what"] + "\n" + b["script"]]
    for pr in prep.problems:
        res.failed_obligations = getattr(res, "failed_obligations", []) + [pr]
        proved = False
    if not proved:
        vcommon.obligations_failed(res, found)
