"""C18 — event catalogue consistency: declared, decodable and handled events coincide.

Ties (every run):
  T  translator: Generated/*.lean regenerated from /repo; the generated evlists
     must equal what the freshly built `ovnievents` prints (engine.prepare).
  X1 unit: the real ev_spec_compile / ev_spec_print (harness/evspec_h.c over
     libemu.a, ASan+UBSan) vs the Lean transcription (drv_evspec), on the
     generated declarations, structure-aware mutants and random descriptions,
     formats, payloads and buffer sizes.
  X2 dispatch: one-event probe traces through the real `ovniemu`, one per code,
     in a context where the event is legal; verdict class (accepted / unknown
     event / model / other) vs the Lean `handled`.  quick: all declared codes,
     the exceptions, their neighbours and a few thousand random codes;
     thorough: all 95 x 95 printable (c, v) of all eight models + non-printable
     and foreign-model samples.
  X3 decode: `ovnidump` lines for every declared event with random argument
     values of the declared shape vs the Lean `print`.
Oracles on the implementation alone (no Lean involved): `ovniemu` accepts a
code iff `ovnievents` lists it, except OB*, OU*, 6TC; `ovnidump` text equals
an independent Python substitution of the description."""
import os
import re
from multiprocessing import Pool

import c18_lib
import engine
import gen
import vcommon
from ovnitrace import Scratch, Stream, ev_bytes, i32, u64, run_tool, write_trace

PID = "C18"


def hx(b):
    if isinstance(b, str):
        b = b.encode("latin1")
    return b.hex() if b else "-"


def is_exception(m, c, v):
    """The property's enumerated exceptions."""
    return (m == ord("O") and c in (ord("B"), ord("U"))) or (m, c, v) == (ord("6"), ord("T"), ord("C"))


# --------------------------------------------------------------------------
# X2: probes
# --------------------------------------------------------------------------

def select_codes(r, tier, cx, tabs, res):
    """-> list of (m, c, v) to probe."""
    codes = []
    seen = set()

    def add(m, c, v, kind):
        k = (m, c, v)
        if k in seen or not (0 <= c < 256 and 0 <= v < 256):
            return
        seen.add(k)
        codes.append(k)
        res.dist("probe:" + kind)

    chars = sorted(cx.by_char)
    for model, t in tabs.items():
        m = t["char"]
        decl = [(ord(s[1]), ord(s[2])) for s, _ in t["evlist"]]
        for (c, v) in decl:
            add(m, c, v, "declared")
        for (c, v, *_r) in t["table"]:
            add(m, c, v, "table-row")
    for v in (33, 46, 91, 93, 120, 126, 0, 255):
        add(ord("O"), ord("B"), v, "exception")
        add(ord("O"), ord("U"), v, "exception")
    add(ord("6"), ord("T"), ord("C"), "exception")
    PR = range(32, 127)         # the 95 printable characters
    if tier == "thorough":
        for m in chars:
            for c in PR:
                for v in PR:
                    add(m, c, v, "exhaustive-printable")
        nnp, nfor = 6000, 600
    else:
        for model, t in tabs.items():
            m = t["char"]
            # every category the model declares or has table rows for x EVERY printable value
            cats = sorted({ord(s[1]) for s, _ in t["evlist"]} | {c for (c, *_r) in t["table"]})
            for c in cats:
                for v in PR:
                    add(m, c, v, "known-category-all-values")
            # every printable category x a few values (+ the values used anywhere in the model)
            vals = sorted({ord(s[2]) for s, _ in t["evlist"]})
            for c in PR:
                for v in r.sample(vals, min(3, len(vals))) + r.sample(list(PR), 3):
                    add(m, c, v, "any-category")
            # neighbours of every declared code: case variants, adjacent bytes, swapped
            for s, _ in t["evlist"]:
                c, v = ord(s[1]), ord(s[2])
                for (c2, v2) in ((c ^ 0x20, v), (c + 1, v), (c - 1, v), (v, c)):
                    add(m, c2, v2, "neighbour")
            for _ in range(300):
                add(m, r.choice(PR), r.choice(PR), "random-printable")
        nnp, nfor = 1500, 200
    for _ in range(nnp):
        m = r.choice(chars)
        k = r.random()
        c = r.choice(list(range(0, 32)) + list(range(127, 256))) if k < 0.6 else r.randrange(32, 127)
        v = r.choice(list(range(0, 32)) + list(range(127, 256))) if k > 0.3 else r.randrange(32, 127)
        add(m, c, v, "non-printable")
    others = [x for x in range(33, 127) if x not in chars]
    for _ in range(nfor):
        add(r.choice(others), r.randrange(33, 127), r.randrange(33, 127), "foreign-model")
    return codes


def run_probes(cx, bdir, codes, tag="c18", bystanders=False):
    """-> {code: (verdict, alt, err_tail)}"""
    exe = os.path.join(bdir, "src/emu/ovniemu")
    cfg = os.path.join(vcommon.REPO, "cfg")
    out = {}
    with Scratch(tag) as d, Pool(vcommon.NCPU) as pool:
        todo = [(k, 0) for k in codes]
        rnd = 0
        while todo:
            jobs = []
            for i, ((m, c, v), alt) in enumerate(todo):
                s = cx.probe_stream(m, c, v, alt=alt)
                jobs.append((exe, os.path.join(d, "r%d-%d" % (rnd, i)), s.relpath, s.json_text(), s.obs(), cfg,
                             cx.bystanders() if bystanders else []))
            results = pool.map(c18_lib.run_probe, jobs, chunksize=16)
            nxt = []
            for ((k, alt), (rc, err)) in zip(todo, results):
                vd = c18_lib.classify(rc, err)
                model = cx.by_char.get(k[0])
                if vd.split(":")[0] in ("other", "ctx") and alt + 1 < cx.n_alts(model, k[1], k[2]):
                    nxt.append((k, alt + 1))
                else:
                    out[k] = (vd, alt, err[-1200:])
            todo = nxt
            rnd += 1
    return out


def model_matrix(drv, tabs):
    """{model: [[digit]*256]*256} from the Lean driver (handled + 2 declared + 4 exception)."""
    lines = []
    order = []
    for model in tabs:
        for c in range(256):
            lines.append("evs codes %s %d" % (model, c))
            order.append((model, c))
    _, out, _ = engine.run_lines(drv, lines)
    mat = {m: [None] * 256 for m in tabs}
    for (model, c), o in zip(order, out):
        p = o.split()
        if len(p) == 2 and p[0] == "codes" and len(p[1]) == 256:
            mat[model][c] = [int(ch) for ch in p[1]]
    return mat


def check_dispatch(res, r, tier, prep, cx, tabs, drv, only=None):
    found = False
    codes = only if only is not None else select_codes(r, tier, cx, tabs, res)
    verdicts = run_probes(cx, prep.bdir, codes)
    impl_decl = set()
    for model, lst in gen.ovnievents_list(prep.bdir).items():
        for sig, _ in lst:
            impl_decl.add((ord(sig[0]), ord(sig[1]), ord(sig[2])))
    mat = model_matrix(drv, tabs) if drv else None
    nsample = 0
    for k in codes:
        m, c, v = k
        vd, alt, tail = verdicts[k]
        mcv = bytes(k)
        cls = vd.split(":")[0]
        res.dist("impl:" + cls)
        line = "probe %d %d %d" % k
        res.case(line + " " + c18_lib.canonical(vd), nontrivial=cls in ("accepted", "unknown", "other"))
        script = line + "\n" + cx.script(m, c, v, alt) + "\n# ovniemu: " + vd + "\n" + "\n".join(
            "# " + l for l in tail.split("\n")[-25:])
        model = cx.by_char.get(m)
        # ---- oracle on the implementation alone --------------------------
        idecl = k in impl_decl
        want = idecl or is_exception(m, c, v)
        if cls not in ("accepted", "unknown", "model"):
            found = True
            res.violation("catalogue-other:" + mcv.hex(),
                          "probe of %r in its legal context is neither accepted nor rejected as unknown: %s "
                          "(listed by ovnievents: %s)" % (mcv, vd, idecl), script)
        elif (cls == "accepted") != want:
            found = True
            res.violation("catalogue:" + mcv.hex(),
                          "ovniemu %s code %r but ovnievents %s it (exception: %s)" %
                          ("accepts" if cls == "accepted" else "rejects", mcv,
                           "lists" if idecl else "does not list", is_exception(m, c, v)), script)
        if cls == "model" and model is not None:
            found = True
            res.violation("catalogue-model:" + mcv.hex(), "model of %r not enabled/registered" % mcv, script)
        # ---- correspondence with the Lean model --------------------------
        if mat is not None:
            if model is not None and mat[model][c] is not None:
                d = mat[model][c][v]
                mh, md, mx = bool(d & 1), bool(d & 2), bool(d & 4)
            else:
                mh = md = mx = False     # no model owns this character
            if model is not None and mat[model][c] is None:
                found = True
                res.violation("driver:" + mcv.hex(), "driver gave no answer", script)
                continue
            if mh != (cls == "accepted") and cls in ("accepted", "unknown", "model"):
                found = True
                res.violation("dispatch:" + mcv.hex(),
                              "Lean handled=%s but ovniemu verdict is %s for %r" % (mh, vd, mcv), script)
            if md != idecl:
                found = True
                res.violation("declared:" + mcv.hex(),
                              "Lean declared=%s but ovnievents %s %r" % (md, "lists" if idecl else "does not list", mcv),
                              script)
            if mx != is_exception(m, c, v):
                found = True
                res.violation("exception:" + mcv.hex(), "Lean isException=%s for %r" % (mx, mcv), script)
            if nsample < 3 and cls != "model" and (nsample != 1 or cls == "unknown"):
                nsample += 1
                res.sample({"probe": mcv.decode("latin1"), "ovniemu": c18_lib.canonical(vd),
                            "lean_handled": mh, "lean_declared": md, "ovnievents_lists": idecl})
    return found


def check_bystanders(res, r, tier, prep, cx, tabs):
    """Listed codes stay handled when OTHER threads of the trace do not require the model: the probe
    thread declares every model, two bystander threads (lower and higher TID) only the ovni model.
    (Seeded C18-7: the last thread's requirements decided whether a model is enabled.)"""
    found = False
    listed = []
    for model, t in sorted(tabs.items()):
        for e in t["evlist"]:
            mcv = e[0][:3]
            listed.append((ord(mcv[0]), ord(mcv[1]), ord(mcv[2])))
    listed = sorted(set(listed))
    # one code per (model, category) in the quick tier, all of them in the thorough tier
    if tier == "quick":
        by = {}
        for k in listed:
            by.setdefault(k[:2], []).append(k)
        listed = sorted(r.choice(v) for v in by.values())
    alone = run_probes(cx, prep.bdir, listed, tag="c18-alone")
    withb = run_probes(cx, prep.bdir, listed, tag="c18-byst", bystanders=True)
    for k in listed:
        a, b = alone[k][0].split(":")[0], withb[k][0].split(":")[0]
        res.dist("bystanders:" + a + "->" + b)
        res.case("bystander %d %d %d %s" % (k + (b,)), nontrivial=True)
        if a == "accepted" and b != "accepted":
            found = True
            res.violation("catalogue-bystander:" + bytes(k).hex(),
                          "listed code %r is handled when its thread is alone but %s when two other threads that "
                          "do not require its model are in the trace" % (bytes(k), withb[k][0]),
                          "probe %d %d %d\n" % k + cx.script(k[0], k[1], k[2], withb[k][1])
                          + "\n# plus bystander threads TID-1 / TID+1 requiring only ovni (OHx on cpu 1, OHe)\n# "
                          + "\n# ".join(withb[k][2].split("\n")[-12:]))
    return found


def check_unlisted_any_state(res, r, tier, prep, cx, tabs):
    """An unlisted code is rejected whatever the state of the thread: the probes of check_dispatch run in
    the running state; here a sample of unlisted, non-exception codes of every model is sent to a paused and
    to a cooling thread.  (A handler that ignores events of a thread that is not running would accept them.)"""
    found = False
    impl_decl = set()
    for model, lst in gen.ovnievents_list(prep.bdir).items():
        for sig, _ in lst:
            impl_decl.add((ord(sig[0]), ord(sig[1]), ord(sig[2])))
    per = 6 if tier == "quick" else 40
    codes = []
    for model, t in sorted(tabs.items()):
        m = t["char"]
        cats = sorted({k[1] for k in impl_decl if k[0] == m}) or [65]
        got = 0
        while got < per:
            c = r.choice(cats) if r.random() < 0.6 else r.randrange(33, 127)
            v = r.randrange(33, 127)
            if (m, c, v) in impl_decl or is_exception(m, c, v):
                continue
            codes.append((m, c, v))
            got += 1
    exe = os.path.join(prep.bdir, "src/emu/ovniemu")
    cfg = os.path.join(vcommon.REPO, "cfg")
    with Scratch("c18st") as d, Pool(vcommon.NCPU) as pool:
        jobs, meta = [], []
        for i, (m, c, v) in enumerate(codes):
            for st in ("p", "c"):
                s = cx.probe_stream(m, c, v, state=st)
                jobs.append((exe, os.path.join(d, "s%d%s" % (i, st)), s.relpath, s.json_text(), s.obs(), cfg))
                meta.append(((m, c, v), st))
        results = pool.map(c18_lib.run_probe, jobs, chunksize=8)
    for ((k, st), (rc, err)) in zip(meta, results):
        vd = c18_lib.classify(rc, err)
        res.case("probe-state %s %d %d %d" % ((st,) + k), nontrivial=True)
        res.dist("probe-state:" + vd.split(":")[0])
        if vd == "accepted" or vd.startswith("crash") or vd == "timeout":
            found = True
            mcv = bytes(k)
            res.violation("catalogue-state:" + mcv.hex(),
                          "unlisted code %r sent to a %s thread: ovniemu verdict %s (must be rejected)" %
                          (mcv, "paused" if st == "p" else "cooling", vd),
                          "probe-state %s %d %d %d\n" % ((st,) + k) + cx.script(*k) + "\n# thread state before the probe: OH" + st
                          + "\n# " + "\n# ".join(err.split("\n")[-12:]))
    return found


# --------------------------------------------------------------------------
# X3: ovnidump
# --------------------------------------------------------------------------

def check_dump(res, r, tier, prep, cx, tabs, drv):
    found = False
    k = 12 if tier == "quick" else 150
    s = Stream(tid=c18_lib.TID, pid=1, cpus=[(0, 0)], require=cx.require)
    items = []      # (clock, mcv, payload-as-seen-by-print, desc, args, vals)
    clk = 100
    for model, t in tabs.items():
        for sig, desc in t["evlist"]:
            mcv, jumbo, args = c18_lib.parse_sig(sig)
            n = k if args else 1
            for _ in range(n):
                vals = [c18_lib.rand_value(r, ty) for ty, _ in args]
                pay = c18_lib.encode_args(jumbo, args, vals)
                clk += r.randrange(1, 50)
                if jumbo:
                    s.events.append(ev_bytes(clk, mcv, jumbo=pay[4:]))
                else:
                    s.events.append(ev_bytes(clk, mcv, pay))
                items.append((clk, mcv.encode("latin1"), pay, desc, args, vals))
                res.dist("dump:" + ("args" if args else "noargs"))
    # undeclared codes without payload: ovnidump must say UNKNOWN
    for _ in range(40 if tier == "quick" else 400):
        m = r.choice(sorted(cx.by_char) + [ord("Z"), ord("!")])
        c, v = r.randrange(33, 127), r.randrange(33, 127)
        model = cx.by_char.get(m)
        if model and any(sig[:3] == chr(m) + chr(c) + chr(v) for sig, _ in tabs[model]["evlist"]):
            continue
        clk += r.randrange(1, 50)
        s.events.append(ev_bytes(clk, bytes([m, c, v])))
        items.append((clk, bytes([m, c, v]), b"", None, [], []))
        res.dist("dump:undeclared")
    lines = ["evs dump %d %d %d %s" % (mcv[0], mcv[1], mcv[2], hx(pay)) for (_, mcv, pay, *_r) in items]
    mout = None
    if drv:
        _, mout, _ = engine.run_lines(drv, lines)
    with Scratch("c18d") as d:
        td = os.path.join(d, "t")
        write_trace(td, [s])
        rc, out, err = run_tool(os.path.join(prep.bdir, "src/emu/ovnidump"), [td])
    script = "stream %s -\nraw 0 %s\nrun dump" % (s.relpath, s.obs().hex())
    if rc != 0:
        res.violation("dump:run", "ovnidump failed rc=%s on declared events with payloads of the declared shape" % rc,
                      script + "\n" + err[-2000:])
        return True
    recs = c18_lib.parse_dump(out)
    if len(recs) != len(items):
        res.violation("dump:count", "ovnidump printed %d lines for %d events" % (len(recs), len(items)), script)
        return True
    ns = 0
    for i, ((clock, mcv, pay, desc, args, vals), (rclk, rmcv, rel, text)) in enumerate(zip(items, recs)):
        res.case(lines[i])
        key = mcv.hex()
        if rclk != clock or rmcv != mcv or rel != s.relpath:
            found = True
            res.violation("dump-line:" + key, "ovnidump line %d header mismatch: %r" % (i, recs[i]), lines[i])
            continue
        # oracle: independent substitution
        want = "UNKNOWN" if desc is None else c18_lib.oracle_text(desc, args, vals)
        if want is None or want != text:
            found = True
            res.violation("dump-oracle:" + key,
                          "ovnidump text %r differs from the description with values substituted %r" % (text, want),
                          lines[i] + "\n# desc: %s\n# vals: %r" % (desc, vals))
        if mout is not None:
            mo = mout[i] if i < len(mout) else "<missing>"
            if mo.startswith("dump ok "):
                h = mo.split()[2]
                mt = "" if h == "-" else bytes.fromhex(h).decode("latin1")
            elif mo == "dump unknown" or mo.startswith("dump err "):
                mt = "UNKNOWN"      # ovnidump prints UNKNOWN whenever model_event_print fails
            else:
                mt = None
            if mt != text:
                found = True
                res.violation("dump:" + key, "ovnidump prints %r, Lean print gives %r" % (text, mo), lines[i])
            elif ns < 2 and args:
                ns += 1
                res.sample({"dump": lines[i], "ovnidump": text})
    return found


# --------------------------------------------------------------------------
# X1: unit correspondence of ev_spec_compile / ev_spec_print
# --------------------------------------------------------------------------

TYPE_NAMES = ["u8", "u16", "u32", "u64", "i8", "i16", "i32", "i64", "str"]
BAD_TYPES = ["u128", "int", "U8", "u 8", "u32x", "", "st", "strr", "i", "8"]
FMTS = {
    "u": ["", "", "", "x", "X", "#x", "#X", "u", "hhu", "hu", "5u", "08x", "-4u", "c", "d", "#u", "lu"],
    "U": ["", "", "", "lx", "llx", "#llx", "#lx", "lu", "llu", "ju", "#llX", "x", "u", "20lu", "ld", "zu"],
    "i": ["", "", "", "d", "i", "hhd", "hd", "5d", "+d", " d", ".3d", "u", "x", "#d", "ld"],
    "I": ["", "", "", "ld", "lld", "li", "jd", "d", "lu", "llx", "#ld", "td"],
    "s": ["", "", "", "s", "10s", "-10s", ".3s", "ls"],
}


def fmt_class(t):
    return {"u8": "u", "u16": "u", "u32": "u", "u64": "U", "i8": "i", "i16": "i", "i32": "i", "i64": "I",
            "str": "s"}[t]


def rand_name(r, n=None):
    if n is None:
        n = r.choice([1, 2, 3, 5, 8])
    return "".join(r.choice("abcdefghijklmnopqrstuvwxyzABCXYZ0123456789") for _ in range(n))


def rand_sig(r, res, valid=False):
    """A signature string (bytes), mostly well formed."""
    mcv = bytes(r.randrange(33, 127) for _ in range(3))
    if not valid and r.random() < 0.06:
        mcv = bytes(r.choice([32, 127, 128, 255, 1, 9] + list(range(33, 127))) for _ in range(r.choice([0, 1, 2, 3, 3])))
    jumbo = r.random() < 0.25
    nargs = r.choice([0, 0, 1, 1, 2, 2, 3, 4, 6]) if valid or r.random() < 0.9 else r.choice([15, 16, 17, 18])
    if jumbo and nargs == 0 and (valid or r.random() < 0.8):
        nargs = 1
    args = []
    for i in range(nargs):
        t = r.choice(TYPE_NAMES[:8]) if (i + 1 < nargs or not jumbo) and r.random() < 0.93 else "str"
        if valid and t == "str" and i + 1 < nargs:
            t = "u32"
        if not valid and r.random() < 0.05:
            t = r.choice(BAD_TYPES)
        nlen = None if valid or r.random() < 0.93 else r.choice([62, 63, 64, 65, 70])
        name = rand_name(r, nlen)
        if not valid and r.random() < 0.04:
            name = r.choice(["", "a b", "a-b", "é", name + " extra"])
        sp = " " if valid or r.random() < 0.93 else r.choice(["", "  ", "\t"])
        args.append(t + sp + name)
    sig = mcv + (b"+" if jumbo else b"")
    if nargs or (not valid and r.random() < 0.05):
        sep = ", " if valid or r.random() < 0.9 else r.choice([",", " , ", ",,", ")(", ";"])
        body = sep.join(args)
        close = ")" if valid or r.random() < 0.92 else r.choice(["", "))", ") x", ")y z"])
        opn = "(" if valid or r.random() < 0.95 else r.choice(["", "[", " ("])
        sig += (opn + body + close).encode("latin1")
    return sig


def mutate(r, b):
    b = bytearray(b)
    for _ in range(r.choice([1, 1, 2, 3])):
        k = r.random()
        alpha = b"(),+ u81632i64str\x01%{}x"
        if k < 0.35 and b:
            del b[r.randrange(len(b))]
        elif k < 0.7:
            b.insert(r.randrange(len(b) + 1), r.choice(alpha))
        elif b:
            b[r.randrange(len(b))] = r.choice(alpha)
    return bytes(b)


def rand_desc(r, args):
    """A description over the argument names, mostly well formed."""
    parts = []
    names = [(t, n) for t, n in args]
    for _ in range(r.choice([1, 2, 3, 4, 6])):
        k = r.random()
        if k < 0.4:
            parts.append("".join(r.choice("abc xyz,.:()\"'#") for _ in range(r.randrange(0, 12))))
        elif k < 0.47:
            parts.append("%%")
        elif names and k < 0.93:
            t, n = r.choice(names)
            f = r.choice(FMTS[fmt_class(t)])
            parts.append("%" + f + "{" + n + "}")
        elif k < 0.96:
            parts.append("%{" + rand_name(r) + "}")
        else:
            parts.append(r.choice(["%", "%{", "%{}", "%{a-b}", "%5", "%d", "%{ab", "% {x}", "%}", "{x}",
                                   "%" + "0" * r.choice([61, 62, 63, 64]) + "u{" + (names[0][1] if names else "a") + "}",
                                   "%{" + "n" * r.choice([62, 63, 64, 65]) + "}"]))
    return "".join(parts).encode("latin1")


def unit_lines(r, tier, tabs, res):
    n = 3 if tier == "quick" else 30
    lines = []
    sigs = [s.encode("latin1") for t in tabs.values() for s, _ in t["evlist"]]
    for s in sigs:
        lines.append("evs compile " + hx(s))
        res.dist("unit:compile-generated")
    fixed = [b"", b"O", b"OH", b"OHx", b"OHx+", b"OHx(", b"OHx()", b"OHx( )", b"OHx(,)", b"OHx(u8)", b"OHx(u8 a",
             b"OHx(u8 a)", b"OHx+(str s)", b"OHx+(u32 a, str s)", b"OHx (u8 a)", b"OHxy", b"OH (u8 a)",
             b"OHx(u8 a)(u8 b)", b"OHx(u8 a) u8 b", b"OHx(u8 a, u8 a)", b"OHx(str s, u8 b)", b"OHx++(u8 a)",
             b"OHx(" + b", ".join(b"u8 a%d" % i for i in range(16)) + b")",
             b"OHx(" + b", ".join(b"u8 a%d" % i for i in range(17)) + b")",
             b"OHx(u8 " + b"n" * 63 + b")", b"OHx(u8 " + b"n" * 64 + b")"]
    for pad in (244, 245, 246, 247, 248):    # total length around 256
        fixed.append(b"OHx(" + b", ".join(b"u8 " + b"n" * 56 for _ in range(4)) + b", u8 " + b"m" * (pad - 240) + b")")
    for s in fixed:
        lines.append("evs compile " + hx(s))
        res.dist("unit:compile-fixed")
    for _ in range(1500 * n):
        k = r.random()
        if k < 0.55:
            s = rand_sig(r, res)
            res.dist("unit:compile-structured")
        elif k < 0.9:
            s = mutate(r, r.choice(sigs) if r.random() < 0.6 else rand_sig(r, res, valid=True))
            res.dist("unit:compile-mutant")
        else:
            s = bytes(r.choice(b"OHx(),+ u8i3264str") for _ in range(r.randrange(0, 30)))
            res.dist("unit:compile-random")
        s = s.split(b"\0")[0]
        lines.append("evs compile " + hx(s))
    # print lines (outlen 1024 first; boundary sizes are added after the model answered)
    plines = []
    decls = [(s, d) for t in tabs.values() for s, d in t["evlist"] if "(" in s]
    for _ in range(2500 * n):
        k = r.random()
        if k < 0.3:
            sig_s, desc_s = r.choice(decls)
            sig, desc = sig_s.encode("latin1"), desc_s.encode("latin1")
            if r.random() < 0.3:
                desc = mutate(r, desc)
            res.dist("unit:print-generated-decl")
        else:
            sig = rand_sig(r, res, valid=True)
            _, _, a0 = c18_lib.parse_sig(sig.decode("latin1")) if b"(" in sig else (None, None, [])
            desc = rand_desc(r, a0)
            res.dist("unit:print-random-decl")
        mcv, jumbo, args = c18_lib.parse_sig(sig.decode("latin1")) if b"(" in sig else (sig[:3], False, [])
        vals = [c18_lib.rand_value(r, t) for t, _ in args]
        pay = c18_lib.encode_args(jumbo, args, vals)
        k = r.random()
        if k < 0.06 and pay:
            pay = pay[:r.randrange(0, len(pay))]
            res.dist("unit:print-short-payload")
        elif k < 0.12:
            pay += bytes(r.randrange(256) for _ in range(r.randrange(1, 6)))
        outlen = 1024 if r.random() < 0.8 else r.choice([0, 1, 2, 3, 5, 8, 13, 21, 34, 55, 89])
        plines.append((sig, desc, pay, outlen))
    return lines, plines


def canon_unit(o):
    p = o.split()
    if len(p) >= 2 and p[1] in ("err", "cerr"):
        return " ".join(p[:2])
    return o


def check_unit(res, r, tier, prep, tabs, drv, replay_lines=None):
    found = False
    h = vcommon.cc_harness("evspec_h", [os.path.join(vcommon.HARNESS, "evspec_h.c")], prep.bdir,
                           libs=[os.path.join(prep.bdir, "src/emu/libemu.a"),
                                 os.path.join(prep.bdir, "src/rt/libovni-static.a"),
                                 os.path.join(prep.bdir, "src/libparson-static.a"),
                                 os.path.join(prep.bdir, "src/libcommon-static.a"), "-lm"])
    if replay_lines is not None:
        lines = replay_lines
    else:
        lines, plines = unit_lines(r, tier, tabs, res)
        first = ["evs print %s %s %s %d" % (hx(s), hx(d), hx(p), n) for (s, d, p, n) in plines]
        _, m1, _ = engine.run_lines(drv, first)
        lines += first
        # boundary buffer sizes around the exact output length
        for (s, d, p, n), o in zip(plines, m1):
            if n == 1024 and o.startswith("print ok ") and r.random() < 0.5:
                hexs = o.split()[2]
                L = 0 if hexs == "-" else len(hexs) // 2
                for ol in (L, L + 1, L + 2):
                    lines.append("evs print %s %s %s %d" % (hx(s), hx(d), hx(p), ol))
                    res.dist("unit:print-boundary-outlen")
    _, mout, _ = engine.run_lines(drv, lines)
    send, idx = [], []
    for i, (l, o) in enumerate(zip(lines, mout)):
        tag = o.split()[2] if o.startswith("print err ") and len(o.split()) > 2 else ""
        if tag in ("short-payload", "unterminated"):
            res.dist("unit:model-refuses-overread")      # C would read past the payload (C19)
            res.case(l, validated=False)
            continue
        if tag == "bad-format":
            res.dist("unit:format-outside-modelled-subset")
            res.case(l, validated=False)
            continue
        send.append(l)
        idx.append(i)
    rc, iout, ierr = engine.run_lines(h, send)
    if rc != 0 or len(iout) != len(send):
        found = True
        bad = send[len(iout)] if len(iout) < len(send) else "?"
        res.violation("unit:harness-crash", "evspec harness exited rc=%s after %d of %d lines" % (rc, len(iout), len(send)),
                      bad + "\n" + ierr[-3000:])
    ns = 0
    for j, i in enumerate(idx[:len(iout)]):
        l, a, b = lines[i], iout[j], canon_unit(mout[i])
        res.case(l, nontrivial=not l.endswith(" -"))
        res.dist("unit-impl:" + " ".join(a.split()[:2]))
        if a != b:
            found = True
            res.violation("evspec:" + l[:100], "ev_spec.c gives '%s', Lean model '%s'" % (a[:200], mout[i][:200]),
                          l + "\n# impl:  " + a + "\n# model: " + mout[i])
        elif ns < 2 and a.startswith("print ok") and len(a) > 40:
            ns += 1
            res.sample({"line": l[:160], "impl": a[:120]})
    return found


# --------------------------------------------------------------------------

def check(res, tier, replay=None):
    res.cov["rule"] = (
        "X1 unit: ev_spec_compile/ev_spec_print of libemu.a (ASan+UBSan harness) vs Lean, on all generated "
        "declarations + structure-aware random/mutated signatures, descriptions, formats, payloads and buffer sizes "
        "at the exact output length; X2 dispatch: one probe trace per code through ovniemu in a context where the "
        "event is legal (quick: all declared + table rows + exceptions + neighbours + random; thorough: all 95x95 "
        "printable (c,v) of the 8 models + non-printable + foreign-model samples), verdict class vs Lean handled; "
        "X3 decode: ovnidump lines of every declared event with random argument values vs Lean print. Oracles on the "
        "implementation alone: accepted <-> listed by ovnievents except OB*/OU*/6TC; ovnidump text = independent "
        "substitution. non-trivial = the probe reached the handler / a non-empty signature reached the parser")
    res.assumptions = [
        "printf conversions modelled: [#] [hh|h|l|ll|j] d i u x X s with the length matching the promoted type on LP64 "
        "(glibc); other formats are refused by the model (no declared event uses one: print_total)",
        "generated strings are ASCII (UTF-8 bytes = C bytes)",
        "error class of a probe is read off ovniemu's first ERROR line (regex documented in checks/c18_lib.py)",
        "task-type labels are shorter than MAX_PCF_LABEL=512 (longer ones are refused by task_type_create)",
    ]
    prep = engine.prepare(res, drivers=("drv_evspec",))
    proved = vcommon.prove(res, "C18")
    res.cov["trusted_base"] += [
        "translator tools/gen/*.c + gcc evaluate evlist/table/model character of every model; cross-checked "
        "against the freshly built ovnievents on every run",
        "Python probe-trace writer (tools/ovnitrace.py, checks/c18_lib.py) and the classification of ovniemu's error text",
    ]
    found = False
    if prep.bdir:
        drv = engine.exe("drv_evspec") if prep.driver_ok else None
        if drv is None:
            res.cov["explanation"] = "Lean driver does not build: only the oracles on the implementation run"
        tabs = gen.load_tables()
        cx = c18_lib.Ctx(tabs)
        r = vcommon.rng("c18")
        if replay:
            txt = [l.strip() for l in open(replay)]
            only = [tuple(int(x) for x in l.split()[1:4]) for l in txt if l.startswith("probe ")]
            ul = [l for l in txt if l.startswith("evs compile") or l.startswith("evs print")]
            if only:
                found |= check_dispatch(res, r, tier, prep, cx, tabs, drv, only=only)
            if ul and drv:
                found |= check_unit(res, r, tier, prep, tabs, drv, replay_lines=ul)
            if not only and not ul:
                found |= check_dump(res, r, tier, prep, cx, tabs, drv)
        else:
            if drv:
                found |= check_unit(res, r, tier, prep, tabs, drv)
            found |= check_dispatch(res, r, tier, prep, cx, tabs, drv)
            found |= check_unlisted_any_state(res, r, tier, prep, cx, tabs)
            found |= check_bystanders(res, r, tier, prep, cx, tabs)
            found |= check_dump(res, r, tier, prep, cx, tabs, drv)
    for pr in prep.problems:
        res.failed_obligations = getattr(res, "failed_obligations", []) + [pr]
        proved = False
    if not proved:
        vcommon.obligations_failed(res, found)
