"""History generators for the emulator checks (C04 C05 C06 C08): a random walk
over an independent Python re-implementation of the *documented* thread state
machine (the specification oracle), producing mostly legal histories with a
controlled rate of single illegal steps."""
import struct

from emu_lib import Sys

LEGAL = {
    "x": {"unknown": "running"},
    "c": {"running": "cooling"},
    "p": {"running": "paused", "cooling": "paused"},
    "w": {"paused": "warming"},
    "r": {"paused": "running", "warming": "running"},
    "e": {"running": "dead", "cooling": "dead"},
}


def ohx_payload(index, creator=-1, tag=0):
    return struct.pack("<iiQ", index, creator, tag)


class Walk:
    """Spec-level simulation. `illegal` collects why the history is illegal
    according to the documentation (empty = must be accepted if all dead)."""

    def __init__(self, r, sysd, tables=None):
        self.r = r
        self.sys = sysd
        self.n = len(sysd.threads)
        self.st = ["unknown"] * self.n
        self.cpu = [None] * self.n          # cpu gindex
        self.events = []
        self.illegal = []
        self.clk = 100
        self.tables = tables or {}
        self.stacks = {}                    # (thread, model, chan) -> list of values
        self.outofcpu = [False] * self.n

    def tick(self):
        self.clk += self.r.choice([1, 1, 2, 5, 17])
        return self.clk

    def running_on(self, cg):
        return [t for t in range(self.n) if self.cpu[t] == cg and self.st[t] == "running"]

    def cpus_of_loom(self, li):
        return [(g, c) for g, c in enumerate(self.sys.cpus) if c[0] == li]

    def free_cpu(self, t, allow_busy=False):
        li = self.sys.threads[t][0]
        cands = []
        for g, c in self.cpus_of_loom(li):
            busy = len(self.running_on(g)) > 0
            if c[2] == 1 or not busy or allow_busy:
                cands.append((g, c))
        return self.r.choice(cands) if cands else None

    def emit(self, t, mcv, payload=b"", jumbo=None):
        self.events.append((t, self.tick(), mcv, payload, jumbo) if jumbo is not None else (t, self.tick(), mcv, payload))

    def thread_op(self, t, op, cpu=None, why_ok=True):
        """Apply OH<op> on thread t; records legality per the spec."""
        st = self.st[t]
        new = LEGAL[op].get(st)
        if op == "x":
            li = self.sys.threads[t][0]
            if cpu is None:
                cpu = self.free_cpu(t)
            g, c = cpu
            self.emit(t, "OHx", ohx_payload(c[1]))
            if new is None:
                self.illegal.append(f"t{t}: execute in state {st}")
                return
            self.st[t] = "running"
            self.cpu[t] = g
            if c[2] == 0 and len(self.running_on(g)) > 1:
                self.illegal.append(f"t{t}: oversubscribes cpu {g}")
            return
        self.emit(t, "OH" + op)
        if new is None:
            self.illegal.append(f"t{t}: OH{op} in state {st}")
            return
        self.st[t] = new
        if new == "running":
            g = self.cpu[t]
            if self.sys.cpus[g][2] == 0 and len(self.running_on(g)) > 1:
                self.illegal.append(f"t{t}: resume oversubscribes cpu {g}")
        if new == "dead":
            self.cpu[t] = None

    def legal_ops(self, t):
        st = self.st[t]
        ops = [op for op in "xcpwre" if st in LEGAL[op]]
        # resuming onto a busy physical CPU is illegal (oversubscription)
        if "r" in ops:
            g = self.cpu[t]
            if g is not None and self.sys.cpus[g][2] == 0 and len(self.running_on(g)) > 0:
                ops.remove("r")
        return ops

    def finish_all(self):
        """Bring every started thread to dead legally (used for accepted histories)."""
        for t in range(self.n):
            guard = 0
            while self.st[t] not in ("dead", "unknown") and guard < 6:
                guard += 1
                ops = self.legal_ops(t)
                if "e" in ops:
                    self.thread_op(t, "e")
                elif "r" in ops:
                    self.thread_op(t, "r")
                elif "w" in ops:
                    self.thread_op(t, "w")
                else:
                    break

    def expected(self):
        """Spec verdict: accept iff every step legal and all threads dead
        (threads that never started stay 'unknown' = not dead => rejected)."""
        if self.illegal:
            return "reject"
        if any(s != "dead" for s in self.st):
            return "reject"
        return "ok"


WIDE_TIDS = [3, 7, 8, 9, 10, 11, 12, 19, 20, 99, 100, 101, 999, 1000, 65535, 65536, 2**31 - 1]
WIDE_LOOMS = ["node1", "node10", "node2", "n", "node1-b", "node01", "Node1", "xnode"]


def wide_sys(r, require=None):
    """A hierarchy past the single-digit sizes: 3-4 looms whose names are
    prefixes of one another (string order differs from numeric order), 9-12
    threads in one process with TIDs like 9, 10, 100, 65536, 2^31-1, up to 11
    CPUs with sparse unordered physical ids."""
    looms = []
    names = r.sample(WIDE_LOOMS, r.choice([3, 4]))
    pool = list(WIDE_TIDS)
    r.shuffle(pool)
    big = r.randrange(len(names))
    for li, name in enumerate(names):
        nprocs = r.choice([1, 2, 3])
        procs = []
        for p in range(nprocs):
            nt = r.choice([9, 10, 12]) if (li == big and p == 0) else r.choice([1, 2])
            nt = min(nt, len(pool))
            tids = [pool.pop() for _ in range(nt)]
            if not tids:
                continue
            procs.append((r.choice([1, 9, 10, 11, 100]) * 1000 + 10 * li + p, tids))
        nc = r.choice([9, 10, 11]) if li == big else r.choice([1, 2])
        phy = r.sample(range(0, 300), nc)
        if procs:
            looms.append((name, procs, phy))
    return Sys(looms, require or {"ovni": "1.1.0"})


def small_sys(r, nthreads=None, nlooms=None, ncpus=None, require=None):
    if nthreads is None and nlooms is None and ncpus is None and r.random() < 0.08:
        return wide_sys(r, require)
    nlooms = nlooms or r.choice([1, 1, 1, 2])
    looms = []
    tid = 10
    for li in range(nlooms):
        nprocs = r.choice([1, 1, 2])
        procs = []
        for p in range(nprocs):
            nt = nthreads or r.choice([1, 2, 2, 3])
            tids = list(range(tid, tid + nt))
            tid += nt + r.randrange(0, 3)
            procs.append((100 * (li + 1) + p, tids))
        nc = ncpus or r.choice([1, 2, 3])
        phy = r.sample(range(0, 16), nc)
        looms.append(("node%d" % li, procs, phy))
    return Sys(looms, require or {"ovni": "1.1.0"})


# --------------------------------------------------------------------------
# Affinity (C05) and model events (C06 C08)
# --------------------------------------------------------------------------

STATE_REQ = {"nosv": "active", "nanos6": "active", "nodes": "running", "tampi": "running",
             "mpi": "running", "openmp": "running", "kernel": "any", "ovni": "any"}
ACTIVE = ("running", "cooling", "warming")
# categories that the nOS-V / Nanos6 / NODES handlers route to their table
CATS = {"nosv": "SUMHAP", "nanos6": "CSUFOtHDBWMP", "nodes": "RUWITCSP"}


INIT_VALS = {"nosv": [(6, 100)], "nanos6": [(5, 100)]}
CPU_DEFAULT = {"nosv": {6: 101}, "nanos6": {5: 101}}


class Walk2(Walk):
    def __init__(self, r, sysd, tables):
        super().__init__(r, sysd, tables)
        self.chan = {}       # (t, model, ch) -> list (stack) ; single channels use a 0/1-element list
        self.unspecified = []
        # channels initialised at connect time (nOS-V / Nanos6 idle = Progressing)
        for m, tab in self.tables.items():
            for ch, val in INIT_VALS.get(m, []):
                for t in range(self.n):
                    self.chan[(t, m, ch)] = [val]

    def thread_op(self, t, op, cpu=None, why_ok=True):
        if self.outofcpu[t]:
            # the ovni model refuses events of a thread that is out of the CPU
            if op == "x":
                if cpu is None:
                    cpu = self.free_cpu(t)
                self.emit(t, "OHx", ohx_payload(cpu[1][1]))
            else:
                self.emit(t, "OH" + op)
            self.illegal.append(f"t{t}: ovni event while out of cpu")
            return
        super().thread_op(t, op, cpu, why_ok)

    # ---------------- affinity ----------------
    def affinity_set(self, t, target=None):
        li = self.sys.threads[t][0]
        cands = self.cpus_of_loom(li)
        g, c = target or self.r.choice(cands)
        self.emit(t, "OAs", struct.pack("<i", c[1]))
        if self.outofcpu[t]:
            self.illegal.append(f"t{t}: ovni event while out of cpu")
            return
        if self.cpu[t] is None or self.st[t] not in ACTIVE:
            self.illegal.append(f"t{t}: OAs while {self.st[t]}")
            return
        self.cpu[t] = g
        if self.st[t] == "running" and c[2] == 0 and len(self.running_on(g)) > 1:
            self.illegal.append(f"t{t}: OAs oversubscribes cpu {g}")

    def affinity_remote(self, src, dst, target=None):
        li = self.sys.threads[src][0]
        cands = self.cpus_of_loom(li)
        g, c = target or self.r.choice(cands)
        self.emit(src, "OAr", struct.pack("<ii", c[1], self.sys.threads[dst][2]))
        if self.outofcpu[src]:
            self.illegal.append(f"t{src}: ovni event while out of cpu")
            return
        if self.sys.threads[dst][0] != li:
            self.illegal.append("OAr: thread not in loom")
            return
        if self.st[dst] in ("dead", "unknown") or self.cpu[dst] is None:
            self.illegal.append(f"OAr on thread in state {self.st[dst]}")
            return
        if self.cpu[dst] == g:
            # the property does not say what a remote change to the current CPU does
            self.unspecified.append("OAr to the current CPU")
        self.cpu[dst] = g
        if self.st[dst] == "running" and c[2] == 0 and len(self.running_on(g)) > 1:
            self.illegal.append(f"OAr oversubscribes cpu {g}")

    # ---------------- model events ----------------
    def state_ok(self, t, model):
        req = STATE_REQ[model]
        if req == "running":
            return self.st[t] == "running"
        if req == "active":
            return self.st[t] in ACTIVE
        return True

    def model_event(self, t, model, row, force=False):
        """row = (c, v, ch, act, val) from the generated table"""
        tab = self.tables[model]
        c, v, ch, act, val = row
        mch = chr(tab["char"])
        self.emit(t, mch + chr(c) + chr(v))
        if model in ("nosv", "ovni") and self.outofcpu[t]:
            self.illegal.append(f"t{t}: {model} event while out of cpu")
            return
        if not self.state_ok(t, model):
            self.illegal.append(f"t{t}: {model} event while {self.st[t]}")
            return
        key = (t, model, ch)
        stk = self.chan.setdefault(key, [])
        dup = tab["chanDup"][ch] if ch < len(tab["chanDup"]) else False
        if act == 1:
            if stk and stk[-1] == val and not dup:
                self.illegal.append(f"t{t}: push of the current value {val}")
                return
            if len(stk) >= 512:
                self.illegal.append("stack depth limit")
                return
            stk.append(val)
        elif act == 2:
            if not stk or stk[-1] != val:
                self.illegal.append(f"t{t}: pop {val} does not match {stk[-1:] }")
                return
            stk.pop()
        elif act == 3:
            if stk and stk[-1] == val and not dup:
                self.illegal.append(f"t{t}: set to the current value {val}")
                return
            stk[:] = [val]
        if model == "kernel":
            self.outofcpu[t] = (v == ord("O"))

    def legal_model_rows(self, t, model):
        """table rows that are legal now for thread t"""
        tab = self.tables[model]
        if not self.state_ok(t, model) or (model in ("nosv", "ovni") and self.outofcpu[t]):
            return []
        out = []
        for row in tab["table"]:
            c, v, ch, act, val = row
            if model in CATS and chr(c) not in CATS[model]:
                continue
            stk = self.chan.get((t, model, ch), [])
            dup = tab["chanDup"][ch] if ch < len(tab["chanDup"]) else False
            if act == 1 and (not stk or stk[-1] != val or dup) and len(stk) < 8:
                out.append(row)
            elif act == 2 and stk and stk[-1] == val:
                out.append(row)
            elif act == 3 and (not stk or stk[-1] != val or dup):
                out.append(row)
            elif act == 4:
                out.append(row)
        return out

    def close_all(self, t):
        """Pop everything open on stack channels of thread t (legal order)."""
        for model, tab in self.tables.items():
            for ch in range(tab["nch"]):
                if not tab["chanStack"][ch]:
                    continue
                stk = self.chan.get((t, model, ch), [])
                guard = 0
                while stk and guard < 600:
                    guard += 1
                    val = stk[-1]
                    rows = [rw for rw in tab["table"] if rw[2] == ch and rw[3] == 2 and rw[4] == val
                            and (model not in CATS or chr(rw[0]) in CATS[model])]
                    if not rows or not self.state_ok(t, model) or (model in ("nosv",) and self.outofcpu[t]):
                        return
                    self.model_event(t, model, rows[0])

    def lint_open(self):
        """lint: channels checked by end_lint must be empty"""
        lint_ch = {"nosv": 4, "nanos6": 2, "nodes": 0, "tampi": 0, "mpi": 0, "openmp": 0}
        for (t, model, ch), stk in self.chan.items():
            if model in lint_ch and lint_ch[model] == ch and stk:
                return True
        return False

    def expected(self):
        if self.illegal:
            return "reject"
        if self.unspecified:
            return None
        if any(s != "dead" for s in self.st):
            return "reject"
        if self.lint_open():
            return "reject"
        return "ok"
