"""C01 — runtime stream fidelity; also hosts the shared script generator used
by C02 (conformant programs)."""
import os
import struct

import engine
import rt_lib
import vcommon
from ovnitrace import Scratch

PID = "C01"
CAP = rt_lib.CAP
MCVS = ["414243", "4f422e", "585958", "7a7a7a", "4f4d3d"]


def hexb(b):
    return b.hex() if b else "-"


def rand_chunks(r, total):
    """split `total` (0 or 2..16) bytes into chunks of >= 2 bytes"""
    if total == 0:
        return []
    data = bytes(r.randrange(256) for _ in range(total))
    chunks = []
    i = 0
    while i < total:
        rem = total - i
        if rem <= 3 or r.random() < 0.5:
            k = rem
        else:
            k = r.randrange(2, rem - 1)
        chunks.append(data[i:i + k])
        i += k
    return chunks


def ev_op(r, clock="now", size=None, mcv=None):
    if size is None:
        size = r.choice([0, 0, 2, 3, 4, 7, 8, 12, 15, 16, r.randrange(2, 17)])
    ch = rand_chunks(r, size)
    return "ev %s %s %s" % (mcv or r.choice(MCVS), clock, " ".join(hexb(c) for c in ch)), 12 + size


def jumbo_op(r, length, clock="now", pre=b""):
    return "jumbo %s %s %d %d %s" % (r.choice(MCVS), clock, length, r.randrange(256), hexb(pre)), 16 + length


def gen_script(r, res, conformant=False):
    """Random program around the buffer-full boundary. Returns (script, meta)"""
    ops = ["init"]
    evlen = 0          # our own bookkeeping, only to aim at the boundary
    nops = r.randrange(3, 14)
    kind = r.random()
    res.dist("script:" + ("boundary" if kind < 0.7 else "small"))
    for i in range(nops):
        k = r.random()
        room = CAP - evlen
        if kind < 0.7 and k < 0.35:
            # jumbo aimed so that the buffer ends within +-60 bytes of the capacity,
            # or a jumbo that is itself within 60 bytes of the maximum
            if r.random() < 0.5 and room > 200:
                target = room - r.randrange(-60, 61)
            else:
                target = CAP - r.randrange(1, 61)
            length = max(0, min(target - 16, CAP - 17 + (2 if not conformant and r.random() < 0.05 else 0)))
            op, sz = jumbo_op(r, length)
            res.dist("op:jumbo-boundary")
        elif k < 0.45:
            op, sz = jumbo_op(r, r.choice([0, 1, 2, 100, 599, 600, 601, 4096, CAP // 2, r.randrange(0, 2000)]))
            res.dist("op:jumbo-small")
        elif k < 0.80:
            op, sz = ev_op(r)
            res.dist("op:ev")
        elif k < 0.88:
            op, sz = "flush", 0
            res.dist("op:flush")
        elif k < 0.94:
            op, sz = "mark %d %d %d" % (r.choice([91, 93, 61]), r.randrange(0, 100),
                                        r.choice([1, 2, -1, 2**40, -2**63, 2**63 - 1])), 24
            res.dist("op:mark")
        elif k < 0.97:
            op, sz = "tick %d" % r.choice([0, 1, 1, 5, 1000, 10**9]), 0
            res.dist("op:tick")
        else:
            if conformant:
                op, sz = ev_op(r)
            else:
                # explicit (possibly non-monotone) clock, still legal for C01
                op, sz = ev_op(r, clock=str(r.choice([0, 5, 2**64 - 1, 123456789012345])))
                res.dist("op:ev-explicit-clock")
        ops.append(op)
        if op == "flush":
            evlen = 24
        elif sz:
            evlen = evlen + sz if evlen + sz < CAP else sz + 24
    # single illegal step (die) at a low rate, only for C01
    if not conformant and r.random() < 0.15:
        bad = r.choice(["ev 414243 now 01", "ev 414243 now 0102030405060708090a0b0c0d0e0f10 0102",
                        "jumbo 414243 now 10 0 - 0102", "jumbo 414243 now %d 0 -" % (CAP - 16),
                        "mark 91 1 0", "free ; ev 414243 now", "free ; flush", "free ; free"])
        pos = r.randrange(1, len(ops) + 1)
        ops.insert(pos, bad)
        res.dist("script:with-illegal-step")
    tail = r.random()
    if conformant or tail < 0.7:
        ops += ["flush", "free"]
    elif tail < 0.85:
        ops += ["flush"]
    return " ; ".join(ops)


def boundary_sweep(r, deltas, sizes):
    """Systematic: for every event kind and every distance of the fill level
    to the capacity in `deltas`."""
    out = []
    for d in deltas:
        fill = CAP - d          # evlen after the filler jumbo (must be < CAP)
        if fill - 16 < 0 or fill >= CAP:
            continue
        for s in sizes:
            ev, _ = ev_op(r, size=s)
            out.append(" ; ".join(["init", "ev 414243 now", "flush",
                                   "jumbo 585958 now %d 9 -" % (fill - 16 - 24), ev, "ev 7a7a7a now 0a0b", "flush", "free"]))
        # a jumbo as the event that crosses the boundary
        out.append(" ; ".join(["init", "ev 414243 now", "jumbo 585958 now %d 9 -" % (fill - 16 - 12),
                               "jumbo 4a4a4a now %d 1 -" % max(0, d - 20), "ev 7a7a7a now", "flush", "free"]))
    # jumbo sizes at the very top (the jumbo itself forces the flush)
    for top in range(1, 45):
        out.append(" ; ".join(["init", "ev 414243 now", "jumbo 585958 now %d 3 -" % (CAP - 16 - top), "ev 7a7a7a now",
                               "flush", "free"]))
    return out


def user_events_of(script):
    """What the program handed to the library, from the script alone
    (independent of the model): list of (mcv, clock|None, payload|None, jumbo_len|None)"""
    out = []
    died = False
    for op in script.split(";"):
        t = op.split()
        if not t:
            continue
        if t[0] == "ev":
            chunks = [bytes.fromhex(c) if c != "-" else b"" for c in t[3:]]
            out.append((bytes.fromhex(t[1]), None if t[2] == "now" else int(t[2]), b"".join(chunks), None))
        elif t[0] == "jumbo":
            pre = bytes.fromhex(t[5]) if len(t) > 5 and t[5] != "-" else b""
            out.append((bytes.fromhex(t[1]), None if t[2] == "now" else int(t[2]), None, (int(t[3]), int(t[4]), pre)))
        elif t[0] == "mark":
            k, ty, v = int(t[1]), int(t[2]), int(t[3])
            out.append((b"OM" + bytes([k]), None, struct.pack("<qi", v, ty), None))
    return out


def oracle_c01(script, outcome, recs, hdr_ok, trailing):
    """Property oracle on the implementation's bytes: header, tiling, every
    user event of the script that precedes the last successful flush exactly
    once, in order and byte-exact; everything else is an OF[/OF] marker."""
    problems = []
    if hdr_ok is not True:
        problems.append("stream does not begin with the 8-byte header")
    if trailing:
        problems.append(f"{trailing} trailing bytes do not form an event")
    ops = [o.strip() for o in script.split(";")]
    died_at = None
    if outcome.startswith("die@"):
        died_at = int(outcome[4:])
    # user events before the last flush that completed
    last_flush = -1
    for i, o in enumerate(ops):
        if died_at is not None and i >= died_at:
            break
        if o == "flush":
            last_flush = i
    before = " ; ".join(ops[:last_flush]) if last_flush >= 0 else ""
    must = user_events_of(before)
    upto = len(ops) if died_at is None else died_at + 1
    may = user_events_of(" ; ".join(ops[:upto]))
    # stream user records = those that are not payload-free OF[ / OF]
    urecs = [x for x in recs if not (x[0] == "E" and x[2] in (b"OF[", b"OF]") and len(x[4]) == 0)]

    def matches(rec, ue):
        mcv, clk, pay, jl = ue
        if rec[2] != mcv:
            return False
        if clk is not None and rec[3] != clk:
            return False
        if jl is None:
            return rec[0] == "E" and rec[4] == pay
        return rec[0] == "J" and rec[4] == jl[0] and rec[6] == rt_lib.pattern(jl[0], jl[1], jl[2])
    if len(urecs) < len(must):
        problems.append(f"only {len(urecs)} user events on disk, {len(must)} were emitted before the last flush")
    if len(urecs) > len(may):
        problems.append(f"{len(urecs)} user events on disk but only {len(may)} emitted")
    for i, rec in enumerate(urecs[:len(may)]):
        if not matches(rec, may[i]):
            problems.append(f"user event #{i} on disk differs from what was emitted: {rec[:4]} vs {may[i][:2]}")
            break
    return problems


def run_engine(res, prep, scripts, oracle, tag, env_extra=None, extra=None, fault_may_abort=False):
    """Run scripts through real libovni and the Lean model; byte-compare;
    evaluate the oracle. Returns True if a concrete violation was found."""
    found = False
    h = rt_lib.build_harness(prep.bdir)
    drv = engine.exe("drv_rt")
    _, model, merr = engine.run_lines(drv, scripts)
    sched = bool(env_extra and "RT_SHORTSCHED" in env_extra)
    wlogs = []
    with Scratch(tag) as d:
        CH = 40
        for base in range(0, len(scripts), CH):
            chunk = scripts[base:base + CH]
            sub = os.path.join(d, "c%d" % base)
            os.makedirs(sub)
            out, err = rt_lib.run_scripts(h, sub, chunk, env_extra)
            for k, sc in enumerate(chunk):
                gi = base + k
                outcome = out[k].split()[0] if k < len(out) else "<missing>"
                data = rt_lib.read_stream(sub, k)
                hdr_ok, recs, trailing = rt_lib.decode_stream(data)
                nontriv = len(recs) > 0
                res.case(sc, nontrivial=nontriv)
                res.dist("outcome:" + outcome.split("@")[0])
                if any(x[0] == "J" and x[4] > CAP - 200 for x in recs):
                    res.dist("hit:jumbo-near-capacity")
                if sum(1 for x in recs if x[2] == b"OF[") >= 2:
                    res.dist("hit:two-or-more-flushes")
                if gi < 3:
                    res.sample({"script": sc[:400], "outcome": outcome, "events_on_disk": len(recs)})
                # (1) correspondence: model's predicted bytes == file bytes, same outcome
                m = model[gi] if gi < len(model) else "<missing>"
                if m == "bad-op" or m == "<missing>":
                    moc, mbytes = m, b""
                else:
                    moc, mbytes, _ = rt_lib.expand_model(m)
                if sched and k < len(out) and " wlog=" in out[k] and not outcome.startswith("crash"):
                    wl = out[k].split(" wlog=", 1)[1].split(" ")[0].strip(",")
                    nfl = dict(p.split("=", 1) for p in m.split(" ")[1:] if "=" in p).get("nflush") if m not in ("bad-op", "<missing>") else None
                    wlogs.append((sc, wl.split(",") if wl else [], nfl, len(data), outcome))
                if outcome.startswith("crash"):
                    found = True
                    res.violation(f"{tag}:crash:" + sc[:80], f"libovni crashed ({outcome}) on script", sc + "\n# " + err[-800:])
                    continue
                dis = None
                if fault_may_abort and outcome.startswith("die"):
                    # an injected error may make the runtime abort with a diagnostic (that is C10's
                    # subject): no stream is claimed complete, nothing to compare
                    res.dist("fault:aborted")
                    continue
                if moc != outcome:
                    dis = f"outcome impl={outcome} model={moc}"
                elif mbytes != data:
                    dis = f"stream bytes differ at offset {rt_lib.first_diff(mbytes, data)} (impl {len(data)} bytes, model {len(mbytes)})"
                # (2) property oracle on the implementation
                probs = oracle(sc, outcome, recs, hdr_ok, trailing)
                if extra and not probs:
                    probs = extra(os.path.join(sub, f"s{k}"), sc, outcome, recs)
                if probs:
                    found = True
                    res.violation(f"{tag}:oracle:" + probs[0][:60].replace(" ", "_"),
                                  "property violated by libovni: " + "; ".join(probs),
                                  sc + "\n# outcome: " + outcome + "\n# " + "\n# ".join(probs)
                                  + "\n# events on disk: " + rt_lib.canon(recs)[:2000])
                elif dis:
                    # model and implementation disagree but the oracle holds:
                    # the correspondence is broken (no failing input for the property)
                    res.cov.setdefault("correspondence_breaks", []).append({"script": sc[:300], "what": dis})
                if os.path.isdir(os.path.join(sub, f"s{k}")):
                    import shutil
                    shutil.rmtree(os.path.join(sub, f"s{k}"), ignore_errors=True)
    if wlogs:
        # the call log of the real write_evbuf loops through the model's `WriteLoop.replay`
        # (Props/C01Write.replay_accepts): each request is what the loop still owes, the
        # number of loops is the model's number of flush_evbuf calls, the bytes are the file's
        _, verd, _ = engine.run_lines(drv, ["wlog " + " ".join(w[1]) for w in wlogs])
        for (sc, pairs, nfl, nbytes, outcome), v in zip(wlogs, verd + ["<missing>"] * len(wlogs)):
            ncalls = len(pairs)
            short = sum(1 for p in pairs if ">" in p and p.split(">")[1] not in ("-", p.split(">")[0]))
            res.dist("wloop:calls:%s" % ("0" if ncalls == 0 else "1-3" if ncalls <= 3 else "4-15" if ncalls <= 15 else "16+"))
            res.dist("wloop:short-answers:%s" % ("0" if short == 0 else "1-3" if short <= 3 else "4+"))
            if outcome.startswith("returned"):
                want = "ok loops=%s bytes=%d" % (nfl, nbytes)
                if v != want:
                    res.cov.setdefault("correspondence_breaks", []).append(
                        {"script": sc[:300], "what": "write loop: call log replays as '%s', expected '%s' (log %s)"
                         % (v, want, " ".join(pairs)[:300])})
            res.dist("wloop:verdict:" + v.split(" ")[0])
    return found


def scripts_for(r, res, tier, conformant=False):
    n = 250 if tier == "quick" else 6000
    scripts = [gen_script(r, res, conformant) for _ in range(n)]
    if tier == "quick":
        sweep = boundary_sweep(r, [1, 2, 11, 12, 13, 23, 24, 25, 28, 29, 36, 37, 48, 49], [0, 2, 16])
    else:
        sweep = boundary_sweep(r, list(range(1, 80)), [0, 2, 3, 8, 15, 16])
    for s in sweep:
        res.dist("script:boundary-sweep")
    return scripts + sweep


def check(res, tier, replay=None):
    res.cov["rule"] = ("random API programs (emit/jumbo/flush/mark/tick, payload 0,2..16 split in chunks, jumbo sizes aimed "
                       "at +-60 bytes around the 2 MiB boundary and at the maximum) plus a systematic sweep of the fill level; "
                       "each runs on the real libovni (ASan+UBSan, interposed clock) and on the Lean model; the stream file "
                       "must equal the model's predicted bytes and satisfy the independent C01 oracle. non-trivial = at "
                       "least one event reached the disk; distinct by script text")
    res.assumptions = ["clock_gettime is replaced by a deterministic counter", "in Props/C01 a flushed buffer reaches the file whole; Props/C01Write and the short-write passes cover every split of it (errors are C10's subject)"]
    prep = engine.prepare(res, drivers=("drv_rt", "drv_conc"))
    proved = vcommon.prove(res, ["C01", "C01Write"])
    found = False
    if prep.bdir and prep.driver_ok:
        r = vcommon.rng("c01")
        scripts = [l.strip() for l in open(replay) if l.strip() and not l.startswith("#")] if replay else scripts_for(r, res, tier)
        found = run_engine(res, prep, scripts, oracle_c01, "c01")
        if not replay:
            # the same programs when the N-th write() on the stream is short (the OS may
            # always do that): write_evbuf must loop, the file must be byte-identical
            sub = [s for s in scripts if "flush" in s][: (40 if tier == "quick" else 400)]
            for n in ((1, 2, 3, 5) if tier == "quick" else range(1, 12)):
                res.dist("pass:short-write-%d" % n)
                found = run_engine(res, prep, sub, oracle_c01, "c01-short%d" % n,
                                   env_extra={"RT_FAULT": "write:%d:short" % n}) or found
            # ... and under whole short-write SCHEDULES: every write() on the stream transfers a
            # pseudo-random part (1 .. n bytes) of what it was asked; file byte-identical, and the
            # call log must replay through the model of the loop (Props/C01Write)
            for sd in ((1, 2) if tier == "quick" else range(1, 9)):
                seed = vcommon.rng("c01-sched%d" % sd).randrange(1, 2 ** 31)
                res.dist("pass:short-schedule")
                found = run_engine(res, prep, sub, oracle_c01, "c01-sched%d" % sd,
                                   env_extra={"RT_SHORTSCHED": str(seed)}) or found
            # ... and when the N-th write() is interrupted (EINTR): the runtime may abort with a diagnostic,
            # but if it returns the file must be byte-identical
            for n in ((1, 2, 3) if tier == "quick" else range(1, 8)):
                res.dist("pass:eintr-write-%d" % n)
                found = run_engine(res, prep, sub[: (20 if tier == "quick" else 200)], oracle_c01, "c01-eintr%d" % n,
                                   env_extra={"RT_FAULT": "write:%d:EINTR" % n}, fault_may_abort=True) or found
        if not replay:
            # ... and when several threads of the process flush and free bulky streams at the same time in
            # relocation mode (OVNI_TMPDIR): each thread's file must still be what that thread emitted
            # (the engine of C11; seeded C01-7: a function-static copy buffer in move_thread_to_final)
            import c11
            r2 = vcommon.rng("c01-mt-tmpdir")
            tc = [c11.gen_tmpdir_case(r2, res) for _ in range(10 if tier == "quick" else 150)]
            res.dist("pass:mt-tmpdir")
            found = c11.run_mt_cases(res, prep, tc, "c01-mt-tmpdir", env_extra={"RT_TMPDIR": "1"}) or found
        for b in res.cov.get("correspondence_breaks", [])[:3]:
            proved = False
            res.failed_obligations = getattr(res, "failed_obligations", []) + ["correspondence rt: " + b["what"] + " on: " + b.get("script", b.get("case", ""))]
    for pr in prep.problems:
        res.failed_obligations = getattr(res, "failed_obligations", []) + [pr]
        proved = False
    if not proved:
        vcommon.obligations_failed(res, found)
