"""Mixed history generator and independent property oracles for C05 C06 C08
(Python re-statements of the properties, evaluated on ovniemu's output)."""
import struct

import emu_lib
import histories
from histories import ACTIVE, LEGAL, Walk2

TRACK_ANY, TRACK_RUN, TRACK_ACT = 0, 1, 2


def gen_mixed(r, res, tables, models=None, p_illegal=0.2, p_aff=0.15, p_model=0.45, maxlen=40, deep=False):
    allm = [m for m in tables if m not in ("ovni", "kernel_rows")]
    if models is None:
        k = r.choice([1, 1, 2, 3])
        models = r.sample(allm, k)
    require = {"ovni": tables["ovni"]["version"]}
    for m in models:
        require[m] = tables[m]["version"]
    sysd = histories.small_sys(r, require=require)
    if r.random() < 0.25:
        # the models are required by the first stream only (that enables them for every thread)
        sysd.require_first_only = True
        res.dist("hist:require-first-stream-only")
    w = Walk2(r, sysd, {m: tables[m] for m in models})
    bad = 1 if r.random() < p_illegal else 0
    res.dist("hist:" + ("with-illegal-step" if bad else "legal-walk"))
    n = r.randrange(3, maxlen)
    for _ in range(n):
        if w.illegal:
            break
        t = r.randrange(w.n)
        k = r.random()
        if bad and r.random() < 0.08:
            bad = 0
            kind = r.choice(["thread", "aff", "model", "model"])
            res.dist("illegal:" + kind)
            if kind == "thread" and w.st[t] != "dead":
                op = r.choice("cpwre")
                w.thread_op(t, op)
            elif kind == "aff":
                if r.random() < 0.5:
                    w.affinity_set(t)
                else:
                    w.affinity_remote(t, r.randrange(w.n))
            else:
                m = r.choice(models)
                rows = [rw for rw in tables[m]["table"] if m not in histories.CATS or chr(rw[0]) in histories.CATS[m]]
                if rows:
                    w.model_event(t, m, r.choice(rows))
            continue
        if k < p_model and models:
            m = r.choice(models)
            rows = w.legal_model_rows(t, m)
            if rows:
                # prefer pushes early, pops late
                w.model_event(t, m, r.choice(rows))
                res.dist("op:model-" + m)
                continue
        if k < p_model + p_aff:
            if w.st[t] in ACTIVE and not w.outofcpu[t]:
                li = sysd.threads[t][0]
                cands = [(g, c) for g, c in w.cpus_of_loom(li)
                         if c[2] == 1 or w.st[t] != "running" or not [x for x in w.running_on(g) if x != t]]
                if cands and r.random() < 0.6:
                    w.affinity_set(t, r.choice(cands))
                    res.dist("op:OAs")
                    continue
            # remote
            src = r.randrange(w.n)
            li = sysd.threads[src][0]
            dsts = [d for d in range(w.n) if sysd.threads[d][0] == li and w.st[d] not in ("dead", "unknown")]
            if dsts and not w.outofcpu[src]:
                d = r.choice(dsts)
                cands = [(g, c) for g, c in w.cpus_of_loom(li)
                         if g != w.cpu[d] and (c[2] == 1 or w.st[d] != "running" or not w.running_on(g))]
                if cands:
                    w.affinity_remote(src, d, r.choice(cands))
                    res.dist("op:OAr")
                    continue
        if w.st[t] == "dead" or w.outofcpu[t]:
            continue
        ops = w.legal_ops(t)
        if ops:
            # do not end a thread with open regions in legal mode: close them first
            op = r.choice(ops)
            if op == "e":
                w.close_all(t)
                if w.outofcpu[t]:
                    continue
            w.thread_op(t, op)
            res.dist("op:OH" + op)
    if not w.illegal and r.random() < 0.85:
        for t in range(w.n):
            if w.st[t] in ("unknown", "dead"):
                continue
            # bring to a state where models accept pops, close, end
            guard = 0
            while w.st[t] not in ("running",) and guard < 4:
                guard += 1
                ops = w.legal_ops(t)
                nxt = "r" if "r" in ops else ("w" if "w" in ops else None)
                if nxt is None:
                    break
                w.thread_op(t, nxt)
            if w.outofcpu[t] and "kernel" in w.tables:
                w.model_event(t, "kernel", [rw for rw in tables["kernel_rows"] if rw[1] == ord("I")][0])
            w.close_all(t)
            if "e" in w.legal_ops(t):
                w.thread_op(t, "e")
        for t in range(w.n):
            if w.st[t] == "unknown" and r.random() < 0.9:
                if w.outofcpu[t] and "kernel" in w.tables:
                    w.model_event(t, "kernel", [rw for rw in tables["kernel_rows"] if rw[1] == ord("I")][0])
                w.thread_op(t, "x")
                w.thread_op(t, "e")
    exp = w.expected()
    res.dist("spec:" + str(exp))
    return sysd, w.events, exp, "; ".join(w.illegal + w.unspecified)


def deep_nesting(r, tables, model, depth):
    """A properly nested word of the given depth on one channel (alternating two
    regions so that the innermost is never re-entered), then fully closed."""
    tab = tables[model]
    require = {"ovni": tables["ovni"]["version"], model: tab["version"]}
    sysd = emu_lib.Sys([("node0", [(100, [10])], [0])], require)
    w = Walk2(r, sysd, {model: tab})
    w.thread_op(0, "x")
    pushes = [rw for rw in tab["table"] if rw[3] == 1 and (model not in histories.CATS or chr(rw[0]) in histories.CATS[model])]
    by_ch = {}
    for rw in pushes:
        by_ch.setdefault(rw[2], []).append(rw)
    ch, rows = max(by_ch.items(), key=lambda kv: len(kv[1]))
    a, b = rows[0], rows[1 % len(rows)]
    for i in range(depth):
        w.model_event(0, model, a if i % 2 == 0 else b)
    w.close_all(0)
    if "e" in w.legal_ops(0):
        w.thread_op(0, "e")
    return sysd, w.events, w.expected(), "; ".join(w.illegal)


# --------------------------------------------------------------------------
# Oracles evaluated on ovniemu's timelines
# --------------------------------------------------------------------------

def step_value(lst, t):
    v = 0
    for (tt, vv) in lst:
        if tt <= t:
            v = vv
        else:
            break
    return v


def oracle_cpu_rows(sysd, itl):
    """C05: CPU rows (types 1 pid, 2 tid, 3 nrun) recomputed from the thread
    rows (type 4 state, type 6 cpu gindex+1) at every instant."""
    times = sorted({t for lst in itl.values() for (t, _) in lst})
    probs = []
    exp = {}
    for t in times:
        for cg in range(len(sysd.cpus)):
            running = []
            for g, (li, pid, tid) in enumerate(sysd.threads):
                st = step_value(itl.get(("T", g + 1, 4), []), t)
                cpu = step_value(itl.get(("T", g + 1, 6), []), t)
                if st == 1 and cpu == cg + 1:
                    running.append((pid, tid))
            n = len(running)
            if n > 1 and sysd.cpus[cg][2] == 0:
                probs.append(f"physical cpu row {cg + 1} has {n} running threads at t={t}")
            exp.setdefault(("C", cg + 1, 3), []).append((t, n))
            exp.setdefault(("C", cg + 1, 2), []).append((t, running[0][1] if n == 1 else 0))
            exp.setdefault(("C", cg + 1, 1), []).append((t, running[0][0] if n == 1 else 0))
    exp = emu_lib.canon_tl(exp)
    for k in set(exp) | {k for k in itl if k[0] == "C" and k[2] in (1, 2, 3)}:
        if exp.get(k, []) != itl.get(k, []):
            probs.append(f"cpu row {k}: ovniemu {itl.get(k, [])[:6]} recomputed from thread rows {exp.get(k, [])[:6]}")
            if len(probs) > 3:
                break
    return probs


def oracle_views(sysd, events, tables, itl):
    """C06/C08: every model row of every thread and CPU recomputed from the raw
    history: thread row = top of the channel while the tracking mode holds;
    CPU row = value of the unique running thread bound to it, else nothing."""
    n = len(sysd.threads)
    st = ["unknown"] * n
    cpu = [None] * n
    chans = {}
    for m_ in sysd.require:
        for ch_, v_ in histories.INIT_VALS.get(m_, []):
            for g_ in range(n):
                chans[(g_, m_, ch_)] = [v_]
    t0 = min([e[1] for e in events], default=0)
    exp = {}
    char2model = {tab["char"]: m for m, tab in tables.items() if isinstance(tab, dict) and "char" in tab}
    models = [m for m in sysd.require if m in tables and m != "ovni"]

    def snapshot(t):
        for m in models:
            tab = tables[m]
            for ch in range(tab["nch"]):
                ty = tab["pvtType"][ch]
                for g in range(n):
                    stk = chans.get((g, m, ch), [])
                    top = stk[-1] if stk else 0
                    mode = tab["thTrack"][ch]
                    holds = mode == TRACK_ANY or (mode == TRACK_RUN and st[g] == "running") or \
                        (mode == TRACK_ACT and st[g] in ACTIVE)
                    exp.setdefault(("T", g + 1, ty), []).append((t, top if holds else 0))
                for cg in range(len(sysd.cpus)):
                    run = [g for g in range(n) if cpu[g] == cg and st[g] == "running"]
                    val = histories.CPU_DEFAULT.get(m, {}).get(ch, 0)
                    if len(run) == 1:
                        stk = chans.get((run[0], m, ch), [])
                        val = stk[-1] if stk else 0
                    exp.setdefault(("C", cg + 1, ty), []).append((t, val))

    for ev in events:
        g, clk, mcv = ev[0], ev[1], ev[2]
        mcv = mcv if isinstance(mcv, str) else mcv.decode("latin1")
        payload = ev[3]
        li = sysd.threads[g][0]
        if mcv.startswith("OH") and mcv[2] in LEGAL:
            new = LEGAL[mcv[2]].get(st[g])
            if new is None:
                return None
            st[g] = new
            if mcv[2] == "x":
                cpu[g] = sysd.cpu_gindex(li, struct.unpack("<i", payload[:4])[0])
            if new == "dead":
                cpu[g] = None
        elif mcv == "OAs":
            cpu[g] = sysd.cpu_gindex(li, struct.unpack("<i", payload[:4])[0])
        elif mcv == "OAr":
            idx, tid = struct.unpack("<ii", payload[:8])
            for d, (l2, pid, t2) in enumerate(sysd.threads):
                if l2 == li and t2 == tid:
                    cpu[d] = sysd.cpu_gindex(li, idx)
                    break
        else:
            m = char2model.get(ord(mcv[0]))
            if m in models:
                for (c, v, ch, act, val) in tables[m]["table"]:
                    if c == ord(mcv[1]) and v == ord(mcv[2]):
                        stk = chans.setdefault((g, m, ch), [])
                        if act == 1:
                            stk.append(val)
                        elif act == 2 and stk:
                            stk.pop()
                        elif act == 3:
                            stk[:] = [val]
                        break
        snapshot(clk - t0)
    exp = emu_lib.strip_base(emu_lib.canon_tl(exp))
    itl = emu_lib.strip_base(itl)
    types = {tables[m]["pvtType"][ch] for m in models for ch in range(tables[m]["nch"])}
    probs = []
    for k in set(exp) | {k for k in itl if k[2] in types}:
        if k[2] not in types:
            continue
        if exp.get(k, []) != itl.get(k, []):
            probs.append(f"row {k}: ovniemu {itl.get(k, [])[:6]} expected from the history {exp.get(k, [])[:6]}")
            if len(probs) > 3:
                break
    return probs


def load_tables():
    import gen
    tabs = gen.load_tables()
    # the kernel handler is a switch, not a table: KCO push / KCI pop of the labelled value
    ktab = tabs["kernel"]
    ktab["table"] = [(67, 79, 0, 1, 3), (67, 73, 0, 2, 3)]
    tabs["kernel_rows"] = ktab["table"]
    return tabs


def load_doc_tables(tabs):
    """Tables for the ORACLES: the committed documented mapping
    (lean/OvniModel/Spec/EventValues.lean) overrides the regenerated rows, so a
    table edit in /repo shows up as a concrete timeline violation; events that
    are not in the committed mapping fall back to the regenerated rows."""
    import copy
    import os
    import re
    import vcommon
    src = open(os.path.join(vcommon.LEAN, "OvniModel", "Spec", "EventValues.lean")).read()
    pinned = {}
    for m in re.finditer(r'\((\d+), (\d+), (\d+), (\d+), (\d+), \(?(-?\d+)\)?, "((?:[^"\\]|\\.)*)"\)', src):
        mc, c, v, ch, act, val = (int(x) for x in m.groups()[:6])
        pinned.setdefault(mc, {})[(c, v)] = (c, v, ch, act, val)
    out = copy.deepcopy(tabs)
    for name, tab in out.items():
        if not isinstance(tab, dict) or "char" not in tab:
            continue
        pm = pinned.get(tab["char"], {})
        rows = []
        seen = set()
        for row in tab["table"]:
            key = (row[0], row[1])
            rows.append(pm.get(key, row))
            seen.add(key)
        for key, row in pm.items():
            if key not in seen:
                rows.append(row)        # documented event that disappeared from the code
        tab["table"] = rows
    # ... and the documented tracking modes (Spec/TrackModes.lean) override the regenerated ones
    tsrc = open(os.path.join(vcommon.LEAN, "OvniModel", "Spec", "TrackModes.lean")).read()
    for m in re.finditer(r"\((\d+), \[([\d, ]*)\], \[([\d, ]*)\]\)", tsrc):
        mc = int(m.group(1))
        th = [int(x) for x in m.group(2).split(",") if x.strip()]
        cp = [int(x) for x in m.group(3).split(",") if x.strip()]
        for name, tab in out.items():
            if isinstance(tab, dict) and tab.get("char") == mc:
                if len(th) == len(tab.get("thTrack", [])):
                    tab["thTrack"] = th
                if len(cp) == len(tab.get("cpuTrack", [])):
                    tab["cpuTrack"] = cp
    return out
