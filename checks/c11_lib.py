"""C11 helpers: the footprint translator driver (gen_footprint), the
multi-threaded harness (ASan+UBSan build and ThreadSanitizer build) and the
single-threaded references."""
import json
import os
import re
import subprocess
import sys

import rt_lib
import vcommon
from vcommon import BuildError, LEAN, REPO, VERIF, flock, repo_includes, run, write_if_changed

GEN_SCRIPT = os.path.join(VERIF, "tools", "gen", "gen_footprint.py")
FOOT_LEAN = os.path.join(LEAN, "OvniModel", "Generated", "Footprint.lean")
CLANG = os.environ.get("VERIF_CLANG", "clang-14")

K_LOAD, K_STORE, K_CAS, K_UNKNOWN = 0, 1, 2, 3


def gen_footprint(bdir):
    """Regenerate lean/OvniModel/Generated/Footprint.lean from /repo's CURRENT
    src/rt/ovni.c + src/common.c (clang AST). Returns (changed, info dict)."""
    gdir = os.path.join(bdir, "gen")
    os.makedirs(gdir, exist_ok=True)
    out = os.path.join(gdir, "Footprint.lean")
    js = os.path.join(gdir, "footprint.json")
    cmd = [sys.executable, GEN_SCRIPT, "--clang", CLANG, "--out", out, "--json", js, "--",
           "-std=gnu11", f"-D{vcommon.GUARD}", "-D_POSIX_C_SOURCE=200809L"] + repo_includes(bdir) + [
        os.path.join(REPO, "src/rt/ovni.c"), os.path.join(REPO, "src/common.c")]
    with flock("gen-footprint"):
        r = run(cmd)
        if r.returncode != 0:
            raise BuildError("gen_footprint failed:\n" + r.stdout[-3000:])
        changed = write_if_changed(FOOT_LEAN, open(out).read())
        info = json.load(open(js))
    return changed, info


def exported_functions(bdir):
    """Function symbols the freshly built libovni.so exports (translator
    self-check: must be exactly the functions of the generated table)."""
    so = None
    for d, dn, fn in os.walk(os.path.join(bdir, "src", "rt")):
        for f in fn:
            if f.startswith("libovni.so"):
                so = os.path.join(d, f)
                break
        if so:
            break
    if so is None:
        return None
    r = run(["nm", "-D", "--defined-only", so])
    if r.returncode != 0:
        return None
    out = set()
    for line in r.stdout.split("\n"):
        p = line.split()
        if len(p) == 3 and p[1] in ("T", "t", "W"):
            out.add(p[2])
    return out


def selfcheck(bdir, info):
    bad = []
    ex = exported_functions(bdir)
    if ex is not None:
        api = set(info["api"])
        ex = {e for e in ex if not e.startswith("_")}
        # parson / common symbols are linked into the .so: only ovni_* is the API
        exo = {e for e in ex if e.startswith("ovni_")}
        if exo != {a for a in api if a.startswith("ovni_")}:
            bad.append("gen_footprint: API functions %s differ from the exported symbols of libovni.so %s"
                       % (sorted(api - exo)[:5], sorted(exo - api)[:5]))
    for c in ("ST_UNINIT", "ST_INIT", "ST_READY", "ST_GONE"):
        if info["enum"].get(c) is None:
            bad.append(f"gen_footprint: enum constant {c} not found in ovni.c")
    if "rproc" not in info["shared_globals"]:
        bad.append("gen_footprint: global rproc not found in ovni.c")
    return bad


def raw_ops(info, fname):
    return [tuple(x) for x in info["functions"].get(fname, {}).get("st_ops", [])]


def _sources():
    return [os.path.join(vcommon.HARNESS, "rt_mt.c"),
            os.path.join(REPO, "src/rt/ovni.c"),
            os.path.join(REPO, "src/common.c"),
            os.path.join(REPO, "src/parson.c")]


def build_mt(bdir, tsan=False):
    if tsan:
        return vcommon.cc_harness("rt_mt_tsan", _sources(), bdir,
                                  extra=["-w", "-fsanitize=thread", "-fno-omit-frame-pointer"],
                                  sanitize=False, libs=["-pthread"])
    return vcommon.cc_harness("rt_mt", _sources(), bdir, extra=["-w"], libs=["-pthread"])


def _env(extra=None):
    env = dict(os.environ)
    env["ASAN_OPTIONS"] = "detect_leaks=0:exitcode=99:abort_on_error=0"
    env["UBSAN_OPTIONS"] = "halt_on_error=1:exitcode=98"
    env["TSAN_OPTIONS"] = "exitcode=66:halt_on_error=0:report_signal_unsafe=0"
    env.pop("OVNI_TMPDIR", None)
    env.pop("OVNI_TRACEDIR", None)
    if extra:
        env.update(extra)
    return env


def run_mt(harness, base, cases, verbose=False, timeout=1800, env_extra=None):
    """cases: list of 'seed | s0 | s1 ...'. Returns (outcome lines, stderr)"""
    data = "\n".join(cases) + "\n"
    ex = dict(env_extra or {})
    if verbose:
        ex["HX_VERBOSE"] = "1"
    env = _env(ex or None)
    r = subprocess.run([harness, "mt", base], input=data.encode(), stdout=subprocess.PIPE,
                       stderr=subprocess.PIPE, env=env, timeout=timeout)
    out = r.stdout.decode("latin1").split("\n")
    if out and out[-1] == "":
        out.pop()
    return out, r.stderr.decode("latin1")


def run_race(harness, which, m, iters, base, timeout=1800):
    r = subprocess.run([harness, "race", which, str(m), str(iters), base], stdout=subprocess.PIPE,
                       stderr=subprocess.PIPE, env=_env(), timeout=timeout)
    line = r.stdout.decode("latin1").strip().split("\n")[-1] if r.stdout else ""
    d = {}
    for p in line.split():
        if "=" in p:
            k, v = p.split("=", 1)
            try:
                d[k] = int(v)
            except ValueError:
                pass
    d["_line"] = line
    d["_rc"] = r.returncode
    return d


def thread_dir(base, k, tid):
    return os.path.join(base, f"s{k}", "loom.node", "proc.1", f"thread.{tid}")


def read_file(path):
    try:
        with open(path, "rb") as f:
            return f.read()
    except OSError:
        return None


def canon_meta(data, tid_to=0):
    """stream.json with the tid normalised (the only field that legitimately
    differs between the multi-threaded run and the single-threaded reference)."""
    if data is None:
        return None
    try:
        j = json.loads(data)
    except ValueError:
        return "unparsable:" + data[:80].decode("latin1")
    if isinstance(j, dict) and isinstance(j.get("ovni"), dict) and "tid" in j["ovni"]:
        j["ovni"]["tid"] = tid_to
    return json.dumps(j, sort_keys=True)


def tsan_reports(stderr):
    """[(summary line)] of ThreadSanitizer warnings"""
    return re.findall(r"SUMMARY: ThreadSanitizer: ([^\n]*)", stderr)
