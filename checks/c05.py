"""C05 — CPU occupancy: one running thread per physical CPU; CPU rows mirror threads."""
import itertools
import struct

import c04
import c0405_lib
import emu_lib
import emu_props
import engine
import histories
import vcommon
from histories import ACTIVE, Walk2

PID = "C05"
TYPES = {1, 2, 3, 4, 6}     # cpu.prv: pid, tid, nrun (types 1 2 3); thread.prv: tid (2), state (4), cpu (6)


def _aff_candidates(w, t, sysd, allow_busy):
    li = sysd.threads[t][0]
    out = []
    for g, c in w.cpus_of_loom(li):
        busy = [x for x in w.running_on(g) if x != t]
        if c[2] == 1 or w.st[t] != "running" or not busy or allow_busy:
            out.append((g, c))
    return out


def gen_history(r, res, p_illegal=0.25, maxlen=36):
    """Thread and affinity events of several threads over several CPUs and looms:
    a walk over the documented behaviour with at most one step that is illegal
    (wrong state, oversubscription by execute / resume / OAs / OAr)."""
    sysd = histories.small_sys(r)
    w = Walk2(r, sysd, {})
    bad = 1 if r.random() < p_illegal else 0
    res.dist("hist:" + ("with-illegal-step" if bad else "legal-walk"))
    n = r.randrange(3, maxlen)
    for _ in range(n):
        if w.illegal:
            break
        t = r.randrange(w.n)
        k = r.random()
        if bad and r.random() < 0.1:
            bad = 0
            kind = r.choice(["thread", "x-busy", "OAs-busy", "OAr-busy", "OAs-state", "OAr-state"])
            res.dist("illegal-attempt:" + kind)
            if kind == "thread" and w.st[t] != "dead":
                w.thread_op(t, r.choice("cpwre"))
            elif kind == "x-busy" and w.st[t] == "unknown":
                w.thread_op(t, "x", cpu=w.free_cpu(t, allow_busy=True))
            elif kind == "OAs-busy" and w.st[t] in ACTIVE:
                w.affinity_set(t, r.choice(_aff_candidates(w, t, sysd, True)))
            elif kind == "OAr-busy":
                li = sysd.threads[t][0]
                dsts = [d for d in range(w.n) if sysd.threads[d][0] == li and w.st[d] not in ("dead", "unknown")]
                if dsts:
                    d = r.choice(dsts)
                    cands = [(g, c) for g, c in w.cpus_of_loom(li) if g != w.cpu[d]]
                    if cands:
                        w.affinity_remote(t, d, r.choice(cands))
            elif kind == "OAs-state":
                w.affinity_set(t)
            else:
                w.affinity_remote(t, r.randrange(w.n))
            continue
        if k < 0.25:
            if w.st[t] in ACTIVE:
                cands = _aff_candidates(w, t, sysd, False)
                if cands:
                    w.affinity_set(t, r.choice(cands))
                    res.dist("op:OAs-" + w.st[t])
                    continue
        if k < 0.5:
            src = r.randrange(w.n)
            li = sysd.threads[src][0]
            dsts = [d for d in range(w.n) if sysd.threads[d][0] == li and w.st[d] not in ("dead", "unknown")]
            if dsts:
                d = r.choice(dsts)
                cands = [(g, c) for g, c in w.cpus_of_loom(li)
                         if g != w.cpu[d] and (c[2] == 1 or w.st[d] != "running" or not w.running_on(g))]
                if cands:
                    w.affinity_remote(src, d, r.choice(cands))
                    res.dist("op:OAr-" + w.st[d])
                    continue
        if w.st[t] == "dead":
            continue
        ops = w.legal_ops(t)
        if ops:
            op = r.choice(ops)
            if op == "x":
                # prefer sharing: sometimes the virtual CPU, so that it gets oversubscribed
                li = sysd.threads[t][0]
                if r.random() < 0.35:
                    v = [(g, c) for g, c in w.cpus_of_loom(li) if c[2] == 1]
                    w.thread_op(t, "x", cpu=v[0])
                else:
                    cpu = w.free_cpu(t)
                    w.thread_op(t, "x", cpu=cpu)
            else:
                w.thread_op(t, op)
            res.dist("op:OH" + op)
    if w.illegal and r.random() < 0.75:
        # continue as an implementation accepting the illegal step would: it must not be accepted
        c0405_lib.complete_as_if(w)
    if not w.illegal and r.random() < 0.85:
        w.finish_all()
        for t in range(w.n):
            if w.st[t] == "unknown" and r.random() < 0.9:
                w.thread_op(t, "x")
                w.thread_op(t, "e")
    exp = w.expected()
    res.dist("spec:" + str(exp))
    nv = max([len(w.running_on(g)) for g, c in enumerate(sysd.cpus) if c[2] == 1] or [0])
    return sysd, w.events, exp, "; ".join(w.illegal + w.unspecified)


def directed():
    """Hand-picked histories: the witnesses of the theorems."""
    out = []
    sysd = emu_lib.Sys([("node0", [(100, [10, 11])], [3, 5])], {"ovni": "1.1.0"})

    def walk():
        w = Walk2(None, sysd, {})
        w.tick = (lambda w=w: setattr(w, "clk", w.clk + 1) or w.clk)
        return w
    c0, c1, cv = (0, sysd.cpus[0]), (1, sysd.cpus[1]), (2, sysd.cpus[2])
    # two running threads on a physical CPU: rejected
    w = walk(); w.thread_op(0, "x", cpu=c0); w.thread_op(1, "x", cpu=c0)
    out.append(w)
    # two running threads on the virtual CPU: accepted
    w = walk(); w.thread_op(0, "x", cpu=cv); w.thread_op(1, "x", cpu=cv); w.thread_op(0, "e"); w.thread_op(1, "e")
    out.append(w)
    # resume onto a CPU that became busy while paused: rejected
    w = walk(); w.thread_op(0, "x", cpu=c0); w.thread_op(0, "p"); w.thread_op(1, "x", cpu=c0); w.thread_op(0, "r")
    out.append(w)
    # OAs of a running thread onto a busy physical CPU: rejected
    w = walk(); w.thread_op(0, "x", cpu=c0); w.thread_op(1, "x", cpu=c1); w.affinity_set(0, c1)
    out.append(w)
    # OAr of a running thread onto a busy physical CPU: rejected
    w = walk(); w.thread_op(0, "x", cpu=c0); w.thread_op(1, "x", cpu=c1); w.affinity_remote(0, 1, c0)
    out.append(w)
    # OAs / OAr of running, paused and cooling threads, accepted
    w = walk(); w.thread_op(0, "x", cpu=c0); w.thread_op(1, "x", cpu=cv); w.affinity_set(0, c1)
    w.affinity_remote(0, 1, c0); w.thread_op(1, "p"); w.affinity_remote(0, 1, c1); w.thread_op(0, "c")
    w.affinity_set(0, c0); w.thread_op(1, "r") if "r" in w.legal_ops(1) else None
    w.finish_all()
    out.append(w)
    # OAs to the CPU the thread already has: a no-op, accepted
    w = walk(); w.thread_op(0, "x", cpu=c0); w.affinity_set(0, c0); w.thread_op(0, "e"); w.thread_op(1, "x", cpu=c1); w.thread_op(1, "e")
    out.append(w)
    # OAr to the CPU the thread already has: unspecified by the property (the code rejects it)
    w = walk(); w.thread_op(0, "x", cpu=c0); w.thread_op(1, "x", cpu=c1); w.affinity_remote(0, 1, c1)
    out.append(w)
    for w in out:
        if w.illegal:
            c0405_lib.complete_as_if(w)
    return [(sysd, w.events, w.expected(), "; ".join(w.illegal + w.unspecified)) for w in out]


def exhaustive(maxlen):
    """Every history up to `maxlen` events over two threads, two physical CPUs and
    the virtual CPU, alphabet: execute on cpu0 / vcpu, pause, resume, end,
    OAs to cpu0 / cpu1, OAr of the other thread to cpu1 / vcpu."""
    sysd = emu_lib.Sys([("node0", [(100, [10, 11])], [3, 5])], {"ovni": "1.1.0"})
    c0, c1, cv = (0, sysd.cpus[0]), (1, sysd.cpus[1]), (2, sysd.cpus[2])
    alphabet = [(t, a) for t in range(2) for a in ("x0", "xv", "p", "r", "e", "s0", "s1", "r1", "rv")]
    out = []
    for n in range(1, maxlen + 1):
        for word in itertools.product(alphabet, repeat=n):
            w = Walk2(None, sysd, {})
            w.tick = (lambda w=w: setattr(w, "clk", w.clk + 1) or w.clk)
            skip = False
            for (t, a) in word:
                if w.illegal:
                    skip = True      # only the first illegal step matters
                    break
                if a[0] == "x":
                    if w.st[t] == "dead":
                        skip = True
                        break
                    w.thread_op(t, "x", cpu=c0 if a == "x0" else cv)
                elif a in ("p", "r", "e"):
                    w.thread_op(t, a)
                elif a[0] == "s":
                    w.affinity_set(t, c0 if a == "s0" else c1)
                else:
                    w.affinity_remote(t, 1 - t, c1 if a == "r1" else cv)
            if not skip:
                out.append((sysd, w.events, w.expected(), "; ".join(w.illegal + w.unspecified)))
    return out


def c05_oracle(sysd, events, itl):
    """Independent oracle on ovniemu's output: cpu.prv types 1, 2, 3 recomputed at every
    instant from thread.prv types 4 and 6; no physical CPU row with more than one
    running thread."""
    return emu_props.oracle_cpu_rows(sysd, itl)


def check(res, tier, replay=None):
    res.cov["rule"] = ("thread (OH*) and affinity (OAs local, OAr remote) events of 1-3 threads per process, 1-2 processes, 1-2 looms "
                       "over 1-3 physical CPUs + the virtual CPU per loom: random walks over the documented behaviour with at most "
                       "one illegal step (wrong state, oversubscription by execute / resume / OAs / OAr), the theorem witnesses, and "
                       "every history up to a fixed length over a 9-letter alphabet on two threads. Each trace is written by an "
                       "independent Python writer, emulated by the real ovniemu -l and by the Lean reference emulator; verdict, "
                       "failing event, thread.prv types 2/4/6 and cpu.prv types 1/2/3 must agree; the verdict must equal the "
                       "specification walk's; cpu.prv is recomputed from thread.prv (independent oracle). "
                       "non-trivial = at least one event; distinct by script")
    prep = engine.prepare(res, drivers=("drv_emu",))
    proved = vcommon.prove(res, "C05")
    found = False
    if prep.bdir and prep.driver_ok:
        r = vcommon.rng("c05")
        n = 1500 if tier == "quick" else 15000
        cases = directed() + c0405_lib.kernel_cases()
        cases += [gen_history(r, res) for _ in range(n)]
        if tier == "quick":
            # all words up to length 2 and a seeded sample of the words of length 3
            ex = exhaustive(3)
            short = [c for c in ex if len(c[1]) <= 2]
            longer = [c for c in ex if len(c[1]) > 2]
            cases += short + r.sample(longer, min(1500, len(longer)))
            res.cov["exhaustive_upto"] = 2
            res.cov["sampled_words_of_length"] = 3
        else:
            cases += exhaustive(3)
            res.cov["exhaustive_upto"] = 3
        found = c04.run_cases(res, prep, cases, "c05", TYPES, oracle=c05_oracle)
        for b in res.cov.get("correspondence_breaks", [])[:3]:
            proved = False
            res.failed_obligations = getattr(res, "failed_obligations", []) + ["correspondence emu: " + b["what"] + "\n" + b["script"]]
    for pr in prep.problems:
        res.failed_obligations = getattr(res, "failed_obligations", []) + [pr]
        proved = False
    if not proved:
        vcommon.obligations_failed(res, found)
