"""C03 — the emulator replays all streams as one time-ordered, loss-free sequence.

X1  heap.h (real source, ASan/UBSan harness) vs the Lean heap model: random and
    bounded-exhaustive insert/pop/rekey scripts with many equal keys.
X2  ovnidump / ovniemu on traces written by the independent Python writer
    (several looms/procs/threads, equal clocks across streams, empty streams,
    clock-offset tables, shuffled directory creation) vs the Lean player, plus
    independent property oracles on the tools' outputs.
"""
import glob
import hashlib
import itertools
import json
import os

import engine
import vcommon
from ovnitrace import Prv, Scratch, Stream, i32, u64, read_rows, run_tool, write_trace

PID = "C03"
PRV_THREAD_STATE = 4
MAXGATE = 3600 * 10**9


def hx(s):
    if isinstance(s, str):
        s = s.encode("latin1")
    return s.hex() if s else "-"


# --------------------------------------------------------------------------
# X1: heap scripts
# --------------------------------------------------------------------------

def heap_script(r, nops, keyrange, pins, prekey=0.04, pdump=0.03, cap=200):
    """One script: starts with reset, ends with dump + drain (pop until empty)."""
    lines = ["heap reset"]
    nid, size = 0, 0
    for _ in range(nops):
        k = r.random()
        if k < pdump:
            lines.append("heap dump")
        elif k < pdump + prekey and nid:
            lines.append(f"heap rekey {r.randrange(nid)} {r.randrange(-keyrange, keyrange + 1)}")
        elif (r.random() < pins and size < cap) or size == 0 and r.random() < 0.9:
            lines.append(f"heap ins {r.randrange(-keyrange, keyrange + 1)} {nid}")
            nid += 1
            size += 1
        else:
            lines.append("heap pop")
            size = max(0, size - 1)
    lines.append("heap dump")
    for _ in range(size + 1):
        lines.append("heap pop")
    return lines


def heap_scripts(r, tier):
    scripts = []
    n = 1500 if tier == "quick" else 30000
    for i in range(n):
        keyrange = r.choice([0, 1, 1, 2, 3, 5, 50, 10**12])
        pins = r.choice([0.5, 0.55, 0.6, 0.7, 0.9])
        nops = r.choice([5, 20, 60, 200, 400, 600])
        scripts.append(heap_script(r, nops, keyrange, pins,
                                   prekey=r.choice([0, 0, 0.03, 0.1])))
    # growth to 200 and full drain, all keys equal / two values
    for keys in ([0], [0, 1], [3, 1, 2]):
        l = ["heap reset"]
        for i in range(200):
            l.append(f"heap ins {keys[(i * 7) % len(keys)]} {i}")
            if i % 37 == 0:
                l.append("heap dump")
        l.append("heap dump")
        l += ["heap pop"] * 201
        scripts.append(l)
    # bounded exhaustive: every key sequence over {0,1,2} up to a length, fully drained
    maxlen = 5 if tier == "quick" else 8
    for ln in range(0, maxlen + 1):
        for keys in itertools.product(range(3), repeat=ln):
            l = ["heap reset"]
            for i, k in enumerate(keys):
                l.append(f"heap ins {k} {i}")
            l.append("heap dump")
            l += ["heap pop"] * (ln + 1)
            scripts.append(l)
    return scripts


def heap_oracle(lines, impl):
    """Independent properties of the implementation's own outputs: each pop
    returns a maximal key among the elements present; elements come out exactly
    once; dumps have the complete-tree shape, the heap order and consistent
    parent pointers."""
    present = {}
    bad = []
    for l, o in zip(lines, impl):
        w = l.split()
        t = o.split()
        if w[1] == "reset":
            present = {}
        elif w[1] == "ins":
            present[int(w[3])] = int(w[2])
            if t[:1] != ["ok"] or int(t[1]) != len(present):
                bad.append(f"ins result '{o}' with {len(present)} elements")
        elif w[1] == "rekey":
            if int(w[2]) in present:
                present[int(w[2])] = int(w[3])
        elif w[1] == "pop":
            if not present:
                if t[:2] != ["pop", "none"]:
                    bad.append(f"pop on empty gave '{o}'")
                continue
            if len(t) != 4 or t[1] == "none":
                bad.append(f"pop on {len(present)} elements gave '{o}'")
                continue
            k, i = int(t[1]), int(t[2])
            if i not in present or present[i] != k:
                bad.append(f"pop returned ({k},{i}) which is not in the heap")
            else:
                del present[i]
            if int(t[3]) != len(present):
                bad.append(f"size after pop {t[3]} != {len(present)}")
        elif w[1] == "dump":
            if "!parent" in t:
                bad.append("parent pointers inconsistent")
            toks = [x for x in t[2:] if x != "!parent"]
            pos = [0]

            def parse(idx):
                if pos[0] >= len(toks):
                    bad.append("dump truncated")
                    return {}
                x = toks[pos[0]]
                pos[0] += 1
                if x == ".":
                    return {}
                k, i = x.split(":")
                d = {idx: (int(k), int(i))}
                d.update(parse(2 * idx))
                d.update(parse(2 * idx + 1))
                return d
            nodes = parse(1)
            if sorted(nodes) != list(range(1, len(present) + 1)) or int(t[1]) != len(present):
                bad.append(f"dump shape: indices {sorted(nodes)[:8]}.. for {len(present)} elements")
            if sorted(v[1] for v in nodes.values()) != sorted(present):
                bad.append("dump elements differ from inserted-minus-popped")
    return bad


def heap_pop_max_oracle(lines, impl):
    """pop returns a maximum — only valid for scripts without rekey (rekey
    deliberately breaks the heap order)."""
    present = {}
    bad = []
    for l, o in zip(lines, impl):
        w, t = l.split(), o.split()
        if w[1] == "reset":
            present = {}
        elif w[1] == "ins":
            present[int(w[3])] = int(w[2])
        elif w[1] == "pop" and present and len(t) == 4 and t[1] != "none":
            k, i = int(t[1]), int(t[2])
            if k != max(present.values()):
                bad.append(f"pop returned key {k}, maximum is {max(present.values())}")
            present.pop(i, None)
    return bad


def run_heap(res, h, scripts, found):
    flat = [l for s in scripts for l in s]
    rc1, impl, err1 = engine.run_lines(h, flat)
    rc2, model, _ = engine.run_lines(engine.exe("drv_heap"), flat)
    if rc1 != 0:
        res.violation("heap:harness-exit", f"heap harness exited with {rc1} (die/sanitizer)",
                      "\n".join(flat[max(0, len(impl) - 30):len(impl) + 1]) + "\n# stderr:\n" + err1[-1500:])
        found = True
    pos = 0
    for s in scripts:
        a, b = impl[pos:pos + len(s)], model[pos:pos + len(s)]
        pos += len(s)
        nins = sum(1 for l in s if l.startswith("heap ins"))
        res.case("\n".join(s), nontrivial=nins > 0)
        res.dist("heap:ops<=%d" % (10 if len(s) <= 10 else 100 if len(s) <= 100 else 1000))
        if any(l.startswith("heap rekey") for l in s):
            res.dist("heap:with-rekey")
        if a != b:
            i = next(i for i in range(len(s)) if i >= len(a) or i >= len(b) or a[i] != b[i])
            found = True
            res.violation("heap:" + hashlib.sha1("\n".join(s[:i + 1]).encode()).hexdigest()[:12],
                          f"heap.h and the proved model disagree at op {i} '{s[i]}': "
                          f"impl='{a[i] if i < len(a) else '<missing>'}' model='{b[i] if i < len(b) else '<missing>'}'",
                          "\n".join(s[:i + 1]))
            continue
        bad = heap_oracle(s, a)
        if not any(l.startswith("heap rekey") for l in s):
            bad += heap_pop_max_oracle(s, a)
        if bad:
            found = True
            res.violation("heap-oracle:" + hashlib.sha1("\n".join(s).encode()).hexdigest()[:12],
                          "heap.h output violates a heap property: " + bad[0], "\n".join(s))
    res.sample({"script": scripts[0][:6], "impl": impl[:6]})
    return found


# --------------------------------------------------------------------------
# X2: traces
# --------------------------------------------------------------------------

def relpath(s):
    return f"loom.{s['loom']}/proc.{s['pid']}/thread.{s['tid']}"


def mcvs(n):
    """A legal thread life: OHx (OHp OHr)* OHe for even n; odd n ends paused."""
    out = []
    for i in range(n):
        if i == 0:
            out.append("OHx")
        elif i == n - 1 and n % 2 == 0:
            out.append("OHe")
        else:
            out.append("OHp" if i % 2 == 1 else "OHr")
    return out


def gen_case(r, tier, res):
    kind = r.choices(["valid", "unsorted", "negfirst", "gate", "badtable", "odd"],
                     weights=[76, 5, 4, 5, 5, 5], k=1)[0]
    nlooms = r.choice([1, 1, 2, 2, 3, 4])
    # host names whose string order differs from their numeric order, and that are prefixes of one another
    hosts = r.sample(["node0", "node1", "node2", "node3", "node10", "node01", "n", "Node1"], nlooms) \
        if r.random() < 0.3 else [f"node{i}" for i in range(nlooms)]
    looms = []
    for i, h in enumerate(hosts):
        if r.random() < 0.3:
            looms.append(h + "." + r.choice(["a", "b", "12"]))
            if r.random() < 0.3:
                looms.append(h + ".z")       # two looms on one host
        else:
            looms.append(h)
    base = r.choice([0, 5, 1000, 10**6, 10**12])
    span = r.choice([1, 2, 3, 5, 10, 40, 1000])
    table = None
    offs = {}
    if r.random() < 0.6 and kind != "unsorted":
        table = []
        for h in hosts:
            if r.random() < 0.85:
                o = r.choice([0, 0, 1, -1, 2, -2, 3, -3, 7, -base // 2, r.randrange(-50, 50)])
                table.append([h, o])
                offs[h] = o
        if not table:
            table = None
    streams = []
    # process and thread numbers that cross digit boundaries (relpath order is strcmp order)
    pid, tid = r.choice([0, 0, 7, 8, 97]), r.choice([100, 100, 1, 7, 96, 997])
    for li, loom in enumerate(looms):
        for _ in range(r.choice([1, 1, 2])):
            pid += 1
            for _ in range(r.choice([1, 1, 2, 3, 5] if tier == "quick" else [1, 2, 3, 5, 9])):
                tid += r.choice([1, 1, 2, 10])
                k = r.random()
                if k < 0.12:
                    n = 0
                else:
                    n = 2 * r.choice([1, 1, 2, 3, 5, 8, 20])
                    if kind == "odd" and r.random() < 0.5:
                        n += 1
                host = loom.split(".")[0]
                off = offs.get(host, 0)
                c = base + r.randrange(0, span + 1)
                # (a negative corrected first clock is valid input: since `fix: do not compare the
                # first clock of a stream` the first event is not compared with lastclock = 0)
                clocks = []
                for _ in range(n):
                    clocks.append(c)
                    c += r.choice([0, 0, 0, 1, 1, 2, r.randrange(0, span + 1)])
                streams.append({"loom": loom, "pid": pid, "tid": tid, "clocks": clocks})
    nonempty = [s for s in streams if s["clocks"]]
    if kind == "unsorted" and nonempty:
        s = r.choice(nonempty)
        i = r.randrange(1, len(s["clocks"]))
        s["clocks"][i] = max(0, s["clocks"][i - 1] - r.choice([1, 2, span + 1]))
    if kind == "negfirst" and nonempty:
        s = r.choice(nonempty)
        host = s["loom"].split(".")[0]
        o = -(s["clocks"][0] + r.choice([1, 2, 100]))
        table = [t for t in (table or []) if t[0] != host] + [[host, o]]
    if kind == "gate" and len(nonempty) >= 2:
        s = nonempty[-1]
        d = MAXGATE + r.choice([1, 2, 10**9]) if r.random() < 0.7 else MAXGATE - r.choice([0, 1])
        s["clocks"] = [c + d for c in s["clocks"]]
    if kind == "badtable":
        table = table or [[hosts[0], 1]]
        k = r.random()
        if k < 0.4:
            table.append(["nohost", 5])
        elif k < 0.7:
            table.append([table[0][0], 9])
        else:
            table = []
    order = list(range(len(streams)))
    r.shuffle(order)
    res.dist("trace:" + kind)
    return {"kind": kind, "streams": streams, "table": table, "order": order}


def build_streams(case):
    per_loom = {}
    for s in case["streams"]:
        per_loom.setdefault(s["loom"], []).append(s)
    out = []
    for s in case["streams"]:
        mates = per_loom[s["loom"]]
        cpus = [(i, i) for i in range(len(mates))]
        st = Stream(loom=s["loom"], pid=s["pid"], tid=s["tid"], app_id=s["pid"], cpus=cpus)
        me = mates.index(s)
        for i, (c, m) in enumerate(zip(s["clocks"], mcvs(len(s["clocks"])))):
            st.ev(c, m, (i32(me, -1) + u64(0)) if m == "OHx" else b"")
        assert st.relpath == relpath(s)
        out.append(st)
    return out


def play_lines(case):
    body = [str(len(case["streams"]))]
    for s in case["streams"]:
        body += [hx(relpath(s)), hx(s["loom"]), str(len(s["clocks"]))] + [str(c) for c in s["clocks"]]
    if case["table"] is None:
        t = ["N"]
    else:
        t = [str(len(case["table"]))]
        for h, o in case["table"]:
            t += [hx(h), str(o)]
    return "play dump " + " ".join(body), "play emu " + " ".join(t + body)


def parse_out(line):
    """'out n si.tag:sclock:dclock ...' -> list of (si, tag, sclock, dclock) or None for err"""
    w = line.split()
    if not w or w[0] != "out":
        return None
    out = []
    for t in w[2:]:
        a, sc, dc = t.split(":")
        si, tag = a.split(".")
        out.append((int(si), int(tag), int(sc), int(dc)))
    return out


def host_offsets(case):
    """Independent of the model: offset of each stream, or None if the table
    must be refused (unknown host, duplicate host, no entries)."""
    if case["table"] is None:
        return [0] * len(case["streams"])
    tab = case["table"]
    names = [t[0] for t in tab]
    if not tab or len(set(names)) != len(names):
        return None
    hosts = {s["loom"].split(".")[0] for s in case["streams"]}
    if any(n not in hosts for n in names):
        return None
    d = dict(map(tuple, tab))
    return [d.get(s["loom"].split(".")[0], 0) for s in case["streams"]]


def merge_oracle(seq, streams, offs):
    """seq: [(stream index, corrected clock)] in replay order as observed on the
    implementation.  Checks: permutation of all events, per-stream order,
    non-decreasing corrected time when every stream is sorted, and equality
    with the stable merge up to the order inside groups of equal time."""
    bad = []
    per = {}
    for si, c in seq:
        per.setdefault(si, []).append(c)
    for i, s in enumerate(streams):
        want = [c + offs[i] for c in s["clocks"]]
        if per.get(i, []) != want:
            bad.append(f"stream {relpath(s)}: replayed clocks {per.get(i, [])[:6]} != stream's {want[:6]}")
    sorted_in = all(all(a <= b for a, b in zip(s["clocks"], s["clocks"][1:])) for s in streams)
    if sorted_in:
        cs = [c for _, c in seq]
        if any(a > b for a, b in zip(cs, cs[1:])):
            bad.append("replay order decreases in corrected time")
        ref = sorted(((c + offs[i], i, k) for i, s in enumerate(streams) for k, c in enumerate(s["clocks"])))
        refg = {}
        for c, i, k in ref:
            refg.setdefault(c, []).append(i)
        obsg = {}
        for si, c in seq:
            obsg.setdefault(c, []).append(si)
        if {c: sorted(v) for c, v in refg.items()} != {c: sorted(v) for c, v in obsg.items()}:
            bad.append("replay differs from the stable merge beyond reordering of equal times")
    return bad


def parse_dump(out, relidx):
    seq = []
    for ln in out.split("\n"):
        if not ln.strip():
            continue
        p = ln.split()
        if len(p) < 3 or p[2] not in relidx:
            return None
        seq.append((relidx[p[2]], int(p[0]), p[1]))
    return seq


def e2e_case(res, prep, d, case, samples):
    """Returns list of (key, text) violations."""
    viol = []
    streams = case["streams"]
    rels = [relpath(s) for s in streams]
    relidx = {rp: i for i, rp in enumerate(rels)}
    ldump, lemu = play_lines(case)
    _, mo, _ = engine.run_lines(engine.exe("drv_heap"), [ldump, lemu])
    mdump, memu = parse_out(mo[0]), parse_out(mo[1])
    st = build_streams(case)
    td = os.path.join(d, "t")
    dump_exe = os.path.join(prep.bdir, "src/emu/ovnidump")
    emu_exe = os.path.join(prep.bdir, "src/emu/ovniemu")
    nev = sum(len(s["clocks"]) for s in streams)
    res.case(lemu, nontrivial=nev > 0)
    res.dist("streams:%d" % min(len(streams), 12))
    res.dist("events:<=%d" % (0 if nev == 0 else 10 if nev <= 10 else 100 if nev <= 100 else 1000))
    if any(not s["clocks"] for s in streams):
        res.dist("has-empty-stream")
    allc = [c for s in streams for c in s["clocks"]]
    if len(allc) != len(set(allc)):
        res.dist("has-equal-clocks")

    def key(tag):
        return tag + ":" + hashlib.sha1(lemu.encode()).hexdigest()[:12]

    outs = []
    for variant, order in (("canonical", None), ("shuffled", case["order"]), ("symlink", None)):
        write_trace(td, st, order=order)
        if variant == "symlink":
            # the same trace with one loom directory (or the whole trace directory) reached through a
            # symbolic link: every stream must still be found
            import shutil
            shutil.rmtree(os.path.join(d, "real"), ignore_errors=True)
            os.makedirs(os.path.join(d, "real"))
            lo = sorted(x for x in os.listdir(td) if x.startswith("loom."))
            if lo and (len(allc) % 2 == 0):
                src = os.path.join(td, lo[-1])
                dst = os.path.join(d, "real", lo[-1])
                os.rename(src, dst)
                os.symlink(dst, src)
                res.dist("symlink:loom-dir")
            else:
                dst = os.path.join(d, "real", "trace")
                os.rename(td, dst)
                os.symlink(dst, td)
                res.dist("symlink:trace-dir")
        # ---------------- ovnidump ----------------
        rc, out, err = run_tool(dump_exe, [td])
        if rc != 0:
            viol.append((key("dump-fails"), f"ovnidump exit {rc} ({variant}); the proved model says it never fails\n" + err[-800:]))
            return viol
        seq = parse_dump(out, relidx)
        if seq is None:
            viol.append((key("dump-parse"), "cannot parse ovnidump output\n" + out[:500]))
            return viol
        want = [(si, streams[si]["clocks"][tag], mcvs(len(streams[si]["clocks"]))[tag]) for (si, tag, _, _) in (mdump or [])]
        if mdump is None or seq != want:
            i = next((i for i in range(min(len(seq), len(want))) if seq[i] != want[i]), min(len(seq), len(want)))
            viol.append((key("dump-order"), f"ovnidump order differs from the model at line {i} ({variant}): "
                         f"impl={seq[i:i + 3]} model={want[i:i + 3]}"))
        bad = merge_oracle([(si, c) for (si, c, _) in seq], streams, [0] * len(streams))
        bad += [f"mcv out of stream order in {rels[si]}" for si in range(len(streams))
                if [m for (x, _, m) in seq if x == si] != mcvs(len(streams[si]["clocks"]))]
        if bad:
            viol.append((key("dump-oracle"), f"ovnidump output ({variant}): " + bad[0]))
        # ---------------- ovniemu ----------------
        prv = None
        if case["kind"] != "odd" or True:
            args = ["-l"]
            if case["table"] is not None:
                tf = os.path.join(d, "offsets.txt")
                with open(tf, "w") as f:
                    f.write("rank       hostname             offset_median        offset_mean          offset_std\n")
                    for i, (h, o) in enumerate(case["table"]):
                        f.write(f"{i}          {h}             {o}           {float(o):.6f}    0.000000\n")
                args += ["-c", tf]
            rc, _, err = run_tool(emu_exe, args + [td])
            ran = "emulation starts" in err
            hard = [l for l in err.split("\n") if "ERROR" in l and "is not dead" not in l and
                    "finish failed" not in l and "emu_finish" not in l]
            completed = ran and (rc == 0 or (rc == 1 and not hard and "is not dead" in err))
            if rc not in (0, 1):
                viol.append((key("emu-crash"), f"ovniemu exit {rc} ({variant})\n" + err[-1200:]))
                return viol
            res.dist("emu:" + ("ok" if completed else "reject"))
            offs = host_offsets(case)
            # independent of the model: per-stream sorted input, a usable table and first corrected
            # clocks within the one-hour gate of each other must be replayed
            if offs is not None and not completed and variant == "canonical":
                firsts = [s["clocks"][0] + offs[i] for i, s in enumerate(streams) if s["clocks"]]
                srt = all(a <= b for s in streams for a, b in zip(s["clocks"], s["clocks"][1:]))
                if srt and (not firsts or max(firsts) - min(firsts) <= MAXGATE):
                    res.dist("oracle-failed:sorted-input-refused")
                    viol.append((key("emu-refuses-sorted"), "ovniemu refuses per-stream sorted streams with a valid "
                                 "offset table inside the clock gate\n" + err[-800:]))
            if memu is None:
                if completed:
                    viol.append((key("emu-accepts"), f"ovniemu replays a trace the model refuses ({variant})"))
            else:
                if not completed:
                    viol.append((key("emu-rejects"), f"ovniemu refuses a trace the model replays ({variant})\n" + err[-1200:]))
                else:
                    prv = open(os.path.join(td, "thread.prv")).read()
                    P = Prv(os.path.join(td, "thread.prv"))
                    names, _ = read_rows(os.path.join(td, "thread.row"))
                    tid2row = {int(n.rsplit(".", 1)[1]): i + 1 for i, n in enumerate(names)}
                    st4 = [(row, t) for (t, row, ty, v) in P.records if ty == PRV_THREAD_STATE]
                    wantp = [(tid2row[streams[si]["tid"]], dc) for (si, _, _, dc) in memu]
                    if st4 != wantp:
                        i = next((i for i in range(min(len(st4), len(wantp))) if st4[i] != wantp[i]), min(len(st4), len(wantp)))
                        viol.append((key("emu-order"), f"thread-state records of thread.prv differ from the model at "
                                     f"{i} ({variant}): impl(row,time)={st4[i:i + 3]} model={wantp[i:i + 3]}"))
                    # independent oracle on the PRV: time = corrected - first corrected
                    if offs is None:
                        viol.append((key("emu-table"), "ovniemu accepted a clock-offset table that must be refused"))
                    else:
                        firsts = [s["clocks"][0] + offs[i] for i, s in enumerate(streams) if s["clocks"]]
                        first = min(firsts) if firsts else 0
                        row2si = {tid2row[s["tid"]]: i for i, s in enumerate(streams)}
                        seqe = [(row2si[row], t + first) for (row, t) in st4]
                        bad = merge_oracle(seqe, streams, offs)
                        if bad:
                            viol.append((key("emu-oracle"), f"thread.prv ({variant}): " + bad[0] +
                                         " (times must be corrected clock minus first corrected clock)"))
                    if len(samples) < 2 and nev and variant == "canonical":
                        samples.append({"streams": rels[:4], "table": case["table"],
                                        "prv_state_records(row,time)": st4[:8], "model": wantp[:8]})
                        res.sample(samples[-1])
        outs.append((out, prv))
    if len(outs) >= 2 and outs[0] != outs[1]:
        viol.append((key("enum-order"), "output depends on the creation order of the stream directories "
                     f"(order {case['order']}): ovnidump equal={outs[0][0] == outs[1][0]} thread.prv equal={outs[0][1] == outs[1][1]}"))
    if len(outs) == 3 and outs[0] != outs[2]:
        viol.append((key("symlink"), "output differs when part of the trace is reached through a symbolic link: "
                     f"ovnidump equal={outs[0][0] == outs[2][0]} thread.prv equal={outs[0][1] == outs[2][1]}"))
    if os.path.islink(td):
        os.unlink(td)
    return viol


def run_cases(res, prep, cases, found):
    samples = []
    with Scratch("c03") as d:
        for case in cases:
            for key, text in e2e_case(res, prep, d, case, samples):
                found = True
                res.violation(key, text, "case " + json.dumps(case) + "\n# " + text.replace("\n", "\n# "))
    return found


def fixed_cases():
    """Hand-picked: ties everywhere, empties, looms sharing a host, 17 streams
    with one clock value (every heap tie-break path)."""
    cs = []
    cs.append({"kind": "valid", "table": [["node0", 0], ["node1", -3]], "order": [4, 2, 0, 3, 1],
               "streams": [{"loom": "node0.a", "pid": 1, "tid": 10, "clocks": [100, 105, 110, 120]},
                           {"loom": "node0.a", "pid": 1, "tid": 11, "clocks": [101, 106, 110, 120]},
                           {"loom": "node0.a", "pid": 1, "tid": 12, "clocks": []},
                           {"loom": "node1", "pid": 2, "tid": 20, "clocks": [100, 105, 110, 120]},
                           {"loom": "node1", "pid": 2, "tid": 21, "clocks": [101, 106, 110, 120]}]})
    cs.append({"kind": "valid", "table": None, "order": list(reversed(range(17))),
               "streams": [{"loom": "n", "pid": 1, "tid": 100 + i, "clocks": [7] * (2 + 2 * (i % 3))} for i in range(17)]})
    cs.append({"kind": "valid", "table": [["h", 4]], "order": [1, 0, 2],
               "streams": [{"loom": "h.1", "pid": 1, "tid": 5, "clocks": [1, 1]},
                           {"loom": "h.2", "pid": 2, "tid": 6, "clocks": [1, 2]},
                           {"loom": "g", "pid": 3, "tid": 7, "clocks": [5, 5, 5, 6]}]})
    cs.append({"kind": "valid", "table": None, "order": [0], "streams": [{"loom": "n", "pid": 1, "tid": 1, "clocks": []}]})
    # past failure (repaired by `fix: do not compare the first clock of a stream`): negative first corrected clock
    cs.append({"kind": "negfirst", "table": [["node0", -5]], "order": [1, 0],
               "streams": [{"loom": "node0", "pid": 1, "tid": 101, "clocks": [3, 9]},
                           {"loom": "node1", "pid": 2, "tid": 102, "clocks": [1, 2]}]})
    # relpath order is strcmp order, not numeric: thread.10 < thread.9
    cs.append({"kind": "valid", "table": None, "order": [2, 1, 0],
               "streams": [{"loom": "n", "pid": 1, "tid": 9, "clocks": [5, 5]},
                           {"loom": "n", "pid": 1, "tid": 10, "clocks": [5, 5]},
                           {"loom": "n", "pid": 10, "tid": 11, "clocks": [5, 5]}]})
    return cs


def load_replay(path):
    heap, cases = [], []
    for l in open(path):
        l = l.strip()
        if l.startswith("heap "):
            heap.append(l)
        elif l.startswith("case "):
            cases.append(json.loads(l[5:]))
    return heap, cases


def check(res, tier, replay=None):
    res.cov["rule"] = ("X1: random + bounded-exhaustive insert/pop/rekey scripts (0-200 elements, many equal keys) through "
                       "the real heap.h (ASan/UBSan harness) and the Lean heap model, every output line compared, plus "
                       "independent heap oracles on heap.h's outputs; X2: generated multi-loom traces (equal clocks across "
                       "streams, empty streams, offset tables, shuffled creation order, a malformed share: unsorted stream, "
                       "negative first corrected clock, clock gate, bad tables) through ovnidump and ovniemu vs the Lean "
                       "player (exact order incl. ties, exact Paraver times) and an independent merge oracle. "
                       "non-trivial = at least one element inserted / at least one event replayed")
    res.assumptions = ["heap.h pointer surgery is modelled as a value tree of the same shape (tie: X1)",
                       "stream bytes are decoded correctly by stream.c (subject of C12/C19); the player model works on event lists",
                       "int64 clock arithmetic does not overflow (clocks and offsets below 2^62)",
                       "DL_SORT is a stable merge sort and strcmp compares unsigned bytes",
                       "every thread-state change of the ovni model writes one type-4 record in processing order (used to observe ovniemu's replay order)"]
    prep = engine.prepare(res, drivers=("drv_heap",))
    proved = vcommon.prove(res, "C03", extra_targets=("drv_heap",))
    found = False
    if prep.bdir and prep.driver_ok:
        r = vcommon.rng("c03")
        h = vcommon.cc_harness("heap_h", [os.path.join(vcommon.HARNESS, "heap_h.c")], prep.bdir)
        corpus = sorted(glob.glob(os.path.join(vcommon.VERIF, "corpus", PID, "*.txt")))
        if replay:
            corpus = [replay]
        for c in corpus:
            hl, cases = load_replay(c)
            res.dist("corpus-files")
            if hl:
                found = run_heap(res, h, [["heap reset"] + hl], found)
            if cases:
                found = run_cases(res, prep, cases, found)
        if not replay:
            found = run_heap(res, h, heap_scripts(r, tier), found)
            n = 2200 if tier == "quick" else 25000
            cases = fixed_cases() + [gen_case(r, tier, res) for _ in range(n)]
            found = run_cases(res, prep, cases, found)
    for pr in prep.problems:
        res.failed_obligations = getattr(res, "failed_obligations", []) + [pr]
        proved = False
    if not proved:
        vcommon.obligations_failed(res, found)
