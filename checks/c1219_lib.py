"""Shared machinery of C12 and C19: valid seed traces over an explicit event
list, corruption / mutation operators, canonicalisation of the stream-layer
outputs, tool runners and crash classification."""
import copy
import json
import os
import re
import struct

import engine
import gen
import vcommon
from ovnitrace import (MAGIC, META_VERSION, STREAM_VERSION, Stream, ev_bytes, i32, run_emu, run_tool, u32, u64,
                       verdict, write_trace)

TOOLS = ("ovniemu", "ovnidump", "ovnitop", "ovnisort")
TIMEOUT = 5
RETRY_TIMEOUT = 60
HOOK_ENV = "OVNI_VERIF_HEAPBUF"


def hook_present():
    """The add-only OVNI_VERIF hook of hooks/stream-heapbuf.patch is applied to
    the tree being checked (then the sanitized tools see stream over-reads)."""
    try:
        return HOOK_ENV in open(os.path.join(vcommon.REPO, "src/emu/stream.c")).read()
    except OSError:
        return False


# --------------------------------------------------------------------------
# traces as explicit event lists
# --------------------------------------------------------------------------

class Ev:
    """One event kept symbolically so that operators can edit it."""
    def __init__(self, clock, mcv, payload=b"", jumbo=None, raw=None):
        self.clock, self.mcv, self.payload, self.jumbo, self.raw = clock, mcv, payload, jumbo, raw

    def bytes(self):
        if self.raw is not None:
            return self.raw
        return ev_bytes(self.clock, self.mcv, self.payload, self.jumbo)


class Tr:
    """A trace = list of (Stream metadata holder, [Ev])."""
    def __init__(self):
        self.streams = []   # list of [Stream, [Ev]]

    def add(self, stream, evs):
        self.streams.append([stream, evs])

    def clone(self):
        return copy.deepcopy(self)

    def obs(self, i):
        s, evs = self.streams[i]
        if s.raw_obs is not None:
            return s.raw_obs
        return MAGIC + struct.pack("<I", STREAM_VERSION) + b"".join(e.bytes() for e in evs)

    def offsets(self, i):
        """start offset of every event of stream i, plus the end"""
        o, out = 8, []
        for e in self.streams[i][1]:
            out.append(o)
            o += len(e.bytes())
        out.append(o)
        return out

    def materialise(self):
        out = []
        for i, (s, evs) in enumerate(self.streams):
            s2 = copy.copy(s)
            s2.raw_obs = self.obs(i)
            out.append(s2)
        return out

    def write(self, d):
        write_trace(d, self.materialise())

    def describe(self):
        lines = []
        for i, (s, evs) in enumerate(self.streams):
            lines.append("stream %s json=%s" % (s.relpath, s.json_text().replace("\n", " ")))
            lines.append("obs %s" % self.obs(i).hex())
        return "\n".join(lines)


def model_pairs(tabs):
    pairs = {}
    for m, t in tabs.items():
        pushes = [(c, v, ch, val) for (c, v, ch, act, val) in t["table"] if act == 1]
        for (c, v, ch, val) in pushes:
            pops = [(c2, v2) for (c2, v2, ch2, act2, val2) in t["table"] if act2 == 2 and ch2 == ch and val2 == val]
            if pops:
                pairs[m] = (chr(t["char"]) + chr(c) + chr(v), chr(t["char"]) + chr(pops[0][0]) + chr(pops[0][1]))
                break
    pairs["kernel"] = ("KCO", "KCI")
    return pairs


def seed_trace(r, tabs, kind=None):
    """A valid trace accepted by `ovniemu -l`: 1-3 threads, payload events of
    several shapes (OHx 16 bytes, OAs 4, OAr 8), model enter/leave pairs, a
    jumbo event (nOS-V type creation), equal and distinct clocks."""
    pairs = model_pairs(tabs)
    kind = kind or r.choice(["one", "two", "three", "models", "jumbo"])
    nth = {"one": 1, "two": 2, "three": 3, "models": 1, "jumbo": 2}[kind]
    models = [m for m in pairs if m != "ovni" and (kind == "models" or r.random() < 0.3)]
    require = {"ovni": tabs["ovni"]["version"]}
    for m in models:
        require[m] = tabs[m]["version"]
    if kind == "jumbo" or r.random() < 0.4:
        require["nosv"] = tabs["nosv"]["version"]
    ncpu = nth + 1
    tr = Tr()
    for t in range(nth):
        s = Stream(tid=100 + t, pid=1, cpus=[(i, i) for i in range(ncpu)] if t == 0 else None, require=require)
        clk = 10 + t
        evs = [Ev(clk, "OHx", i32(t, -1) + u64(0))]
        if t == 0:
            for m in models:
                clk += r.choice([0, 1, 10])
                evs.append(Ev(clk, pairs[m][0]))
                clk += r.choice([1, 10])
                evs.append(Ev(clk, pairs[m][1]))
            if "nosv" in require:
                clk += 5
                label = bytes(r.choice(b"abcdefgh") for _ in range(r.randrange(1, 9))) + b"\0"
                evs.append(Ev(clk, "VYc", jumbo=u32(r.randrange(1, 50)) + label))
            clk += 3
            evs.append(Ev(clk, "OAs", i32(nth)))       # move to the spare CPU
            clk += 3
            evs.append(Ev(clk, "OAs", i32(0)))
        if t == 1:
            clk += 7
            evs.append(Ev(clk, "OHp"))
            clk += 2
            evs.append(Ev(clk, "OHr"))
        if t == 0 and nth >= 2:
            # remote affinity of thread 1 to the spare CPU and back, while it runs
            evs.insert(-2, Ev(evs[-2].clock, "OAr", i32(nth, 101)))
            evs.insert(-2, Ev(evs[-2].clock, "OAr", i32(1, 101)))
        evs.append(Ev(1000 + t, "OHe"))
        tr.add(s, evs)
    return tr


# --------------------------------------------------------------------------
# stream-layer correspondence helpers
# --------------------------------------------------------------------------

def stream_harness(prep):
    ab = prep.bdir_asan
    libs = gen._find_libs(ab)
    return vcommon.cc_harness("stream_h", [os.path.join(vcommon.HARNESS, "stream_h.c")], ab,
                              libs=[libs[k] for k in ("libemu.a", "libovni-static.a", "libparson-static.a",
                                                      "libcommon-static.a")])


def canon_model(line):
    """Model output -> what the harness can observe (no error classes)."""
    t = line.split()
    if not t:
        return line
    if t[0] == "load":
        return "load err"
    if t[0] == "end" and t[1] != "eof":
        return " ".join(["end", "err"] + t[2:])
    if t[0] in ("oob", "ub"):
        return " ".join(t[:2])
    return line


def model_class(line):
    t = line.split()
    if t[0] == "load":
        return "reject"
    if t[0] == "end":
        return "accept" if t[1] == "eof" else "reject"
    return t[0]        # oob | ub | hang


def run_stream_layer(prep, harness, lines, scratch, res=None):
    """Real stream.c (harness) and the Lean cursor on the same `cur` lines.
    The driver is asked for both the transcription of the current code (`cur`)
    and of the repaired code (`fix`); the variant the implementation follows
    (fewer disagreements) is the one returned and diffed, and is recorded in
    the evidence as `stream_model` — after the repair is ported to C the
    correspondence moves to `Stream.Fixed` without touching the check."""
    env = dict(os.environ)
    env["HX_DIR"] = scratch
    env["ASAN_OPTIONS"] = "detect_leaks=0:exitcode=99:abort_on_error=0"
    env["UBSAN_OPTIONS"] = "halt_on_error=1:exitcode=98"
    _, impl, _ = engine.run_lines(harness, lines, env=env, timeout=1800)
    _, cur, _ = engine.run_lines(engine.exe("drv_stream"), lines, timeout=1800)
    want = os.environ.get("VERIF_STREAM_MODEL", "auto")
    model, which = cur, "current"
    if want in ("auto", "fix"):
        _, fix, _ = engine.run_lines(engine.exe("drv_stream"), ["fix" + l[3:] for l in lines], timeout=1800)
        bad_cur = sum(1 for a, b in zip(impl, cur) if a != canon_model(b))
        bad_fix = sum(1 for a, b in zip(impl, fix) if a != canon_model(b))
        if want == "fix" or bad_fix < bad_cur:
            model, which = fix, "fixed"
    if res is not None:
        res.cov["stream_model"] = which
    return impl, model


# --------------------------------------------------------------------------
# tools
# --------------------------------------------------------------------------

def run_one(bdir, tool, tracedir, heapbuf=False):
    args = (["-l"] if tool == "ovniemu" else []) + [tracedir]
    envx = {}
    if heapbuf and tool != "ovnisort":
        envx[HOOK_ENV] = "1"
    rc, out, err = run_tool(os.path.join(bdir, "src/emu", tool), args, timeout=TIMEOUT, env_extra=envx)
    if rc == "timeout":
        # a loaded machine is not a hang: only a run that also exceeds the long limit counts
        rc, out, err = run_tool(os.path.join(bdir, "src/emu", tool), args, timeout=RETRY_TIMEOUT, env_extra=envx)
    return rc, out, err


def run_emu_patient(bdir, tracedir, opts):
    """run_emu with the short limit, retried once with the long one."""
    rc, err = run_emu(bdir, tracedir, opts, timeout=TIMEOUT)
    if rc == "timeout":
        rc, err = run_emu(bdir, tracedir, opts, timeout=RETRY_TIMEOUT)
    return rc, err


FRAME = re.compile(r"#\d+ 0x[0-9a-f]+ in (\w+) .*?/src/(?:emu|rt)/([\w/.]+):\d+")


def top_repo_frame(err):
    m = FRAME.search(err)
    return f"{m.group(1)}" if m else "?"


def outcome(rc, err):
    """'clean' (exit 0/1) or a violation class"""
    if rc in (0, 1):
        return "clean"
    if rc == "timeout":
        return "timeout"
    if rc in (98, 99):
        kind = "asan" if rc == 99 else "ubsan"
        m = re.search(r"AddressSanitizer: ([\w-]+)", err)
        what = m.group(1) if m else ("signed-overflow" if "signed integer overflow" in err else "ub")
        return f"{kind}:{what}:{top_repo_frame(err)}"
    if isinstance(rc, int) and rc < 0:
        if rc == -6:
            return "abort"
        return f"signal:{-rc}"
    return f"exit:{rc}"


# --------------------------------------------------------------------------
# metadata seen through parson's getters (for the model's `meta` line)
# --------------------------------------------------------------------------

MISSING = object()


def _dotget(meta, path, missing=None):
    cur = meta
    for k in path.split("."):
        if not isinstance(cur, dict) or k not in cur:
            return missing
        cur = cur[k]
    return cur


def _num(v):
    """json_value_get_number: the number, or 0 for anything else (bools are not numbers)"""
    if isinstance(v, bool) or not isinstance(v, (int, float)):
        return 0
    return v


def _cint(x):
    """(int) double on x86-64: truncation, INT_MIN when out of range"""
    try:
        t = int(x)
    except (OverflowError, ValueError):
        return -2**31
    return t if -2**31 <= t < 2**31 else -2**31


def _hexs(s):
    b = s.encode("utf-8")
    return b.hex() if b else "-"


def version_is_cast():
    try:
        return "(int) json_number(version_val)" in open(os.path.join(vcommon.REPO, "src/emu/stream.c")).read()
    except OSError:
        return True


def meta_tokens(text, tabs, compat):
    """Tokens of one stream for the driver's `meta` line, or parsed=0."""
    try:
        meta = json.loads(text)
        ok = isinstance(meta, dict)
    except ValueError:
        ok = False
    if not ok:
        return ["0", "N", "N", "N", "0", "0", "N", "0", "0", "0", "N", "-"]
    ver = meta.get("version")
    # check_version: `(int) json_number(v)` truncates; once the cast is gone (fix ported) only an
    # integral number can equal OVNI_METADATA_VERSION, anything else is passed as a mismatch
    if version_is_cast():
        version = "N" if "version" not in meta else str(_cint(_num(ver)))
    else:
        n = _num(ver)
        version = "N" if "version" not in meta else (str(int(n)) if n == _cint(n) else "0")
    part = _dotget(meta, "ovni.part")
    loom = _dotget(meta, "ovni.loom")
    app = _dotget(meta, "ovni.app_id", MISSING)    # a JSON null is a value, not a missing key
    fin = _dotget(meta, "ovni.finished")
    req = _dotget(meta, "ovni.require")
    cpus = _dotget(meta, "ovni.loom_cpus")
    if isinstance(cpus, list):
        if not cpus:
            cp = "E"
        else:
            cp = ",".join("%d:%d" % (_cint(_num(c.get("index"))) if isinstance(c, dict) else 0,
                                     _cint(_num(c.get("phyid"))) if isinstance(c, dict) else 0) for c in cpus)
    else:
        cp = "N"
    # the string-valued entries of ovni.require, verbatim: parsing and compatibility are decided by
    # the Lean version model (C14), not here
    reqs = []
    if isinstance(req, dict):
        for m, v in req.items():
            if isinstance(v, str) and m and "\x00" not in m + v:
                reqs.append(m.encode("utf-8").hex() + "=" + (v.encode("utf-8").hex() or "E"))
    lib = isinstance(_dotget(meta, "ovni.lib.version"), str) and isinstance(_dotget(meta, "ovni.lib.commit"), str)
    return ["1", version,
            _hexs(part) if isinstance(part, str) else "N",
            _hexs(loom) if isinstance(loom, str) else "N",
            str(_cint(_num(_dotget(meta, "ovni.pid")))), str(_cint(_num(_dotget(meta, "ovni.tid")))),
            "N" if app is MISSING else str(_cint(_num(app))),
            "1" if (not isinstance(fin, bool) and isinstance(fin, (int, float)) and fin == 1) else "0",
            "1" if isinstance(req, dict) else "0", "1" if lib else "0", cp, ",".join(reqs) or "-"]


def simple_compat(want, have):
    try:
        w = [int(x) for x in want.split(".")[:3]]
        h = [int(x) for x in have.split(".")[:3]]
    except ValueError:
        return False
    return len(w) == 3 and w[0] == h[0] and w[1] <= h[1]
