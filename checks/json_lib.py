"""Correspondence between the parson model (lean/OvniModel/Json.lean, driver
drv_json) and the real /repo/src/parson.c (harness/json_h.c, ASan+UBSan).

`run_json_correspondence(res, prep, tier, rng)` generates documents, runs both
sides on the same protocol lines and compares byte for byte; on top of the
diff it evaluates oracles on parson's own output:

* value oracle   — a document emitted from a known value tree parses to that tree
                   (numbers: Python's correctly rounded float as exact dyadic);
* round trip     — parse(serialize(v)) = v on the C side;
* accepted-garbage — no strict prefix of a serialized object/array/string parses
                   (what the crash model of C09 relies on).

Value trees: ("null",) ("bool", b) ("num", n, k) ("numtxt", spelling)
("str", bytes) ("arr", [..]) ("obj", [(key bytes, node), ..]).
"""
import os
import re

import engine
import vcommon

MAX_NESTING = 2048
P53 = 2 ** 53


def hx(b):
    return b.hex() if b else "-"


# --------------------------------------------------------------------------
# canonical dump (must match harness/json_h.c and Drivers/Json.lean)
# --------------------------------------------------------------------------

def dump_num(n, k):
    return "#%d" % n if k == 0 else "#%d/%d" % (n, k)


def dyadic(x):
    """exact n / 2^k of a Python float, as the harness prints a double"""
    if x == 0:
        return (0, 0)
    n, d = x.as_integer_ratio()
    return (n, d.bit_length() - 1)


STD_NUM = re.compile(rb"-?(0|[1-9][0-9]*)(\.[0-9]+)?([eE][+-]?[0-9]+)?\Z")


def numtxt_value(sp):
    """what a correct strtod gives for a standard JSON number, or None"""
    if not STD_NUM.match(sp):
        return None
    if re.match(rb"-?0[eE]", sp):
        return None       # valid JSON (RFC 8259) that parson's is_decimal refuses: `0e1`, `-0E+2` (reported; the model follows parson)
    try:
        x = float(sp)
    except (ValueError, OverflowError):
        return None
    if x in (float("inf"), float("-inf")):
        return "fail"
    return dyadic(x)


def dump(t):
    k = t[0]
    if k == "null":
        return "n"
    if k == "bool":
        return "t" if t[1] else "f"
    if k == "num":
        return dump_num(t[1], t[2])
    if k == "numtxt":
        v = numtxt_value(t[1])
        return None if v is None or v == "fail" else dump_num(*v)
    if k == "str":
        return "s" + hx(t[1])
    if k == "arr":
        parts = [dump(x) for x in t[1]]
        return None if None in parts else "[" + ",".join(parts) + "]"
    if k == "obj":
        parts = [dump(v) for _, v in t[1]]
        return None if None in parts else "{" + ",".join(hx(key) + ":" + p for (key, _), p in zip(t[1], parts)) + "}"
    raise ValueError(k)


def has_kind(t, kind):
    if t[0] == kind:
        return True
    if t[0] == "arr":
        return any(has_kind(x, kind) for x in t[1])
    if t[0] == "obj":
        return any(has_kind(v, kind) for _, v in t[1])
    return False


def modelled(t):
    """every number of the tree has a value the model computes"""
    if t[0] == "numtxt":
        v = numtxt_value(t[1])
        return v not in (None, "fail") and abs(v[0]) <= P53 and v[1] <= 1000 and exact_decimal(t[1])
    if t[0] == "arr":
        return all(modelled(x) for x in t[1])
    if t[0] == "obj":
        return all(modelled(v) for _, v in t[1])
    return True


def exact_decimal(sp):
    """the decimal denotes exactly the double it rounds to"""
    from fractions import Fraction
    try:
        return Fraction(sp.decode()) == Fraction(float(sp))
    except (ValueError, OverflowError, ZeroDivisionError):
        return False


def valid_utf8(b):
    try:
        b.decode("utf-8")
        return True
    except UnicodeDecodeError:
        return False


def strings_valid(t):
    if t[0] == "str":
        return valid_utf8(t[1])
    if t[0] == "arr":
        return all(strings_valid(x) for x in t[1])
    if t[0] == "obj":
        return all(strings_valid(v) for _, v in t[1])
    return True


def depth(t):
    if t[0] == "arr":
        return 1 + max([depth(x) for x in t[1]] or [0])
    if t[0] == "obj":
        return 1 + max([depth(v) for _, v in t[1]] or [0])
    return 0


# --------------------------------------------------------------------------
# generators of value trees
# --------------------------------------------------------------------------

ASCII = bytes(range(32, 127))


def gen_bytes(r, res=None, key=False):
    """string contents: printable ASCII mostly, then escapes, controls, UTF-8 of
    all lengths, the characters parson escapes, invalid UTF-8 (values only)"""
    n = r.choice([0, 1, 1, 2, 3, 5, 8, 13, 30])
    out = b""
    for _ in range(n):
        k = r.random()
        if k < 0.55:
            out += bytes([r.choice(ASCII)])
        elif k < 0.67:
            out += bytes([r.choice(b"\"\\/\b\f\n\r\t")])
        elif k < 0.75:
            out += bytes([r.randrange(1 if key else 0, 32)])
        elif k < 0.77:
            out += chr(r.choice([0x7f, 0x80, 0x7ff, 0x800, 0xd7ff, 0xe000, 0xffff, 0x10000, 0x103ff, 0x10fc00, 0x10ffff])).encode()
        elif k < 0.80:
            out += chr(r.randrange(0x80, 0x800)).encode()
        elif k < 0.85:
            out += chr(r.choice([r.randrange(0x800, 0xd800), r.randrange(0xe000, 0x10000)])).encode()
        elif k < 0.90:
            out += chr(r.randrange(0x10000, 0x110000)).encode()
        elif k < 0.93:
            out += b"\x7f"
        elif k < 0.96:
            out += r.choice([b"/*", b"*/", b"//", b"\\\"", b"\\\\", b"\\u", b"\\"])
        else:
            out += bytes([r.randrange(0x80, 0x100)])      # stray continuation / invalid lead
    return out


def gen_key(r):
    k = r.random()
    if k < 0.6:
        return bytes(r.choice(b"abcdefghijklmnopqrstuvwxyz_0123456789") for _ in range(r.randrange(1, 9)))
    if k < 0.65:
        return b""
    if k < 0.75:
        return r.choice([b"a.b", b".", b"a.", b".a", b"ovni.tid"])
    return gen_bytes(r, key=True).replace(b"\x00", b"\x01")


def gen_int(r):
    k = r.random()
    if k < 0.5:
        return r.randrange(-5, 1000)
    if k < 0.7:
        return r.choice([0, 1, -1, 2 ** 31 - 1, 2 ** 31, -2 ** 31, -2 ** 31 - 1, 2 ** 32, 2 ** 53, -2 ** 53, 2 ** 53 - 1,
                         10 ** 15, 999999999999999, 4194304, 65535])
    return r.randrange(-P53, P53 + 1)


def gen_num(r):
    k = r.random()
    if k < 0.75:
        return ("num", gen_int(r), 0)
    j = r.choice([1, 1, 2, 3, 4, 10, 20])
    n = r.randrange(1, 2 ** r.choice([3, 10, 30, 53]))
    n |= 1
    return ("num", r.choice([1, -1]) * n, j)


NUM_SPELLINGS = [b"0.1", b"1e400", b"1e-400", b"-1e999", b"9007199254740993", b"123456789012345678901234567890",
                 b"1e16", b"1e17", b"3.14159", b"2.5e-7", b"1.7976931348623157e308", b"4.9e-324", b"0.30000000000000004",
                 b"1e22", b"1e23", b"5e-324", b"2.2250738585072014e-308", b"0.000001", b"1.0000000000000002",
                 b"18446744073709551616", b"1e1000000", b"1e-1000000"]


def gen_numtxt(r):
    if r.random() < 0.5:
        return ("numtxt", r.choice(NUM_SPELLINGS))
    ip = str(r.randrange(0, 10 ** r.choice([1, 3, 17, 25]))).encode()
    fp = b"." + bytes(r.choice(b"0123456789") for _ in range(r.randrange(1, 20))) if r.random() < 0.7 else b""
    ex = (r.choice([b"e", b"E"]) + r.choice([b"", b"+", b"-"]) + str(r.randrange(0, r.choice([3, 30, 400]))).encode()
          if r.random() < 0.5 else b"")
    return ("numtxt", (b"-" if r.random() < 0.3 else b"") + ip + fp + ex)


def gen_value(r, d=0, exotic=True):
    k = r.random()
    if d >= 5:
        k = k * 0.7
    if k < 0.25:
        return gen_num(r)
    if k < 0.30 and exotic:
        return gen_numtxt(r)
    if k < 0.50:
        return ("str", gen_bytes(r))
    if k < 0.58:
        return ("bool", r.random() < 0.5)
    if k < 0.64:
        return ("null",)
    if k < 0.80:
        return ("arr", [gen_value(r, d + 1, exotic) for _ in range(r.choice([0, 1, 2, 3, 5]))])
    return gen_obj(r, d + 1, exotic)


def gen_obj(r, d=0, exotic=True, n=None):
    n = r.choice([0, 1, 2, 3, 4, 6]) if n is None else n
    ms, seen = [], set()
    for _ in range(n):
        key = gen_key(r)
        if key in seen:
            continue
        seen.add(key)
        ms.append((key, gen_value(r, d + 1, exotic)))
    return ("obj", ms)


def S(s):
    return ("str", s.encode() if isinstance(s, str) else s)


def N(n):
    return ("num", n, 0)


def O(*ms):
    return ("obj", [(k.encode() if isinstance(k, str) else k, v) for k, v in ms])


def gen_metadata(r, res=None):
    """a stream.json as libovni / the independent trace writer produce it"""
    ver = lambda: "%d.%d.%d" % (r.randrange(0, 4), r.randrange(0, 20), r.randrange(0, 10))
    ovni = [("lib", O(("version", S(ver())), ("commit", S(r.choice(["unknown", "verif", "a1b2c3d", "v1.11.0-3-g0f\u00e9"]))))),
            ("part", S(r.choice(["thread"] * 8 + ["proc", "", "loom"]))),
            ("tid", N(r.choice([1, 100, 5678, 2 ** 22, 2 ** 31 - 1]))),
            ("pid", N(r.choice([1, 1234, 2 ** 22]))),
            ("loom", S(r.choice(["node0", "node.1", "host-a.b.c", "n/0", "n\u00f3de", ""]))),
            ("app_id", N(r.randrange(1, 50))),
            ("require", O(*[(m, S(ver())) for m in r.sample(["ovni", "nosv", "nanos6", "nodes", "tampi", "mpi", "openmp",
                                                              "kernel"], r.randrange(0, 5))]))]
    if r.random() < 0.5:
        marks = []
        for t in r.sample(range(0, 100), r.randrange(1, 4)):
            m = [("title", S(r.choice(["a/b \"q\"", "Mark", "t\u00edtulo", "x\ty", "100%"]))),
                 ("chan_type", S(r.choice(["single", "stack"])))]
            if r.random() < 0.6:
                m.append(("labels", O(*[(str(v), S(r.choice(["one", "two", "l/3", "\u2603"])))
                                         for v in sorted(r.sample(range(1, 2 ** 20), r.randrange(0, 4)))])))
            marks.append((str(t), O(*m)))
        ovni.append(("mark", O(*marks)))
    if r.random() < 0.5:
        nr = r.randrange(1, 9)
        ovni += [("rank", N(r.randrange(0, nr))), ("nranks", N(nr))]
    if r.random() < 0.7:
        ovni.append(("loom_cpus", ("arr", [O(("index", N(i)), ("phyid", N(r.randrange(0, 256))))
                                           for i in range(r.choice([0, 1, 2, 4, 8]))])))
    if r.random() < 0.85:
        ovni.append(("finished", N(1)))
    top = [("version", N(r.choice([3, 3, 3, 3, 2, 4]))), ("ovni", O(*ovni))]
    if r.random() < 0.5:
        top.append(("nosv", O(("can_breakdown", ("bool", r.random() < 0.5)), ("lib_version", S(ver())))))
    if r.random() < 0.3:
        top.append(("nanos6", O(("x", N(r.randrange(0, 9))))))
    return O(*top)


# --------------------------------------------------------------------------
# spelling a tree as text
# --------------------------------------------------------------------------

SIMPLE_ESC = {0x22: b'\\"', 0x5c: b"\\\\", 0x08: b"\\b", 0x0c: b"\\f", 0x0a: b"\\n", 0x0d: b"\\r", 0x09: b"\\t"}


def spell_string(r, b, style):
    """a JSON string literal that denotes the bytes `b`"""
    out = b'"'
    i = 0
    while i < len(b):
        c = b[i]
        # a whole UTF-8 sequence may be written as \uXXXX (pair)
        if c >= 0x80 and style != "plain":
            for ln in (2, 3, 4):
                try:
                    ch = b[i:i + ln].decode("utf-8")
                except UnicodeDecodeError:
                    continue
                if len(ch) == 1 and len(ch.encode()) == ln:
                    if r.random() < 0.5:
                        cp = ord(ch)
                        if cp < 0x10000:
                            out += (b"\\u%04x" if r.random() < 0.5 else b"\\u%04X") % cp
                        else:
                            cp -= 0x10000
                            out += b"\\u%04x\\u%04x" % (0xd800 + (cp >> 10), 0xdc00 + (cp & 0x3ff))
                        i += ln
                        c = None
                    break
            if c is None:
                continue
        if c in SIMPLE_ESC:
            out += SIMPLE_ESC[c] if style == "plain" or r.random() < 0.8 else b"\\u%04x" % c
        elif c < 0x20:
            out += b"\\u%04x" % c
        elif c == 0x2f:
            out += b"\\/" if style == "parson" or (style != "plain" and r.random() < 0.5) else b"/"
        elif style == "wild" and c < 0x7f and r.random() < 0.1:
            out += b"\\u%04X" % c
        else:
            out += bytes([c])
        i += 1
    return out + b'"'


def spell_num(r, n, k, style):
    if k == 0:
        s = str(n).encode()
        if style != "wild" or r.random() < 0.6:
            return s
        a = abs(n)
        sign = b"-" if n < 0 else b""
        c = r.random()
        if c < 0.2:
            return s + b".0"
        if c < 0.4:
            return s + r.choice([b"e0", b"E+0", b"e-0", b"e00"]) if a != 0 else s
        if c < 0.6 and a % 10 == 0 and a != 0:
            z = len(str(a)) - len(str(a).rstrip("0"))
            return sign + str(a)[:-z].encode() + b"e" + str(z).encode()
        if c < 0.8 and a != 0:
            d = str(a)
            return sign + d[0].encode() + (b"." + d[1:].encode() if len(d) > 1 else b"") + b"e" + str(len(d) - 1).encode()
        return s + b"." + b"0" * r.randrange(1, 5)
    # n / 2^k = n * 5^k / 10^k
    a = abs(n) * 5 ** k
    ds = str(a).rjust(k + 1, "0")
    s = (b"-" if n < 0 else b"") + ds[:-k].encode() + b"." + ds[-k:].encode()
    if style == "wild" and r.random() < 0.3:
        return (b"-" if n < 0 else b"") + str(a).encode() + b"e-" + str(k).encode()
    return s


WS = [b" ", b" ", b"\n", b"\t", b"\r", b"\x0b", b"\x0c", b"  "]


def spell(r, t, style, lvl=0, flags=None):
    """style: parson (exactly json_serialize_to_string_pretty), python (json.dumps indent=1),
    compact, wild (random whitespace, comments, alternative spellings).  `flags`
    collects "nasty" when a `//` comment holds a quote or a `/*` (also `//*`): parson's first
    pass (block comments) scans the text of line comments as code, so
    such a document no longer denotes the tree (model and parson still have to agree)."""
    def ws():
        if style != "wild":
            return b""
        k = r.random()
        if k < 0.5:
            return b""
        if k < 0.85:
            return b"".join(r.choice(WS) for _ in range(r.randrange(1, 4)))
        if k < 0.93:
            return b"/*" + r.choice([b"", b" c ", b"\"", b"*", b"/", b"// x\n", b"{[,", b"\\"]) + b"*/"
        c = r.choice([b"", b" c", b"\"", b"/* ", b"}", b" \\", b"*/"])
        if flags is not None and (b"\"" in c or b"/*" in c or c.startswith(b"*")):
            flags.add("nasty")
        return b"//" + c + b"\n"
    k = t[0]
    if k == "null":
        return b"null"
    if k == "bool":
        return b"true" if t[1] else b"false"
    if k == "num":
        return spell_num(r, t[1], t[2], style)
    if k == "numtxt":
        return t[1]
    if k == "str":
        return spell_string(r, t[1], style)
    items = t[1]
    op, cl = (b"[", b"]") if k == "arr" else (b"{", b"}")
    if not items:
        return op + ws() + cl
    ind = {"parson": 4, "python": 1}.get(style)
    parts = []
    for it in items:
        if k == "arr":
            parts.append(spell(r, it, style, lvl + 1, flags))
        else:
            sep = b": " if ind else b":"
            parts.append(spell_string(r, it[0], style) + ws() + sep + ws() + spell(r, it[1], style, lvl + 1, flags))
    if ind:
        pad = b"\n" + b" " * (ind * (lvl + 1))
        return op + pad + (b"," + pad).join(parts) + b"\n" + b" " * (ind * lvl) + cl
    return op + ws() + (ws() + b"," + ws()).join(parts) + ws() + cl


# --------------------------------------------------------------------------
# fixed corpus: the quirks of parson the model transcribes
# --------------------------------------------------------------------------

QUIRKS = [b'{"a":1}', b"-", b"-x", b"[-]", b"0x", b"0x1", b"[0x]", b"01", b"0e1", b"0.", b"-0", b"-.5", b"1.", b"1.e2",
          b"-inf", b"-nan", b"-Infinity", b"-i", b"-INF", b"-NaN(abc)", b"-in", b"-na", b"-infinit",
          b'{"a":1,"a":2}', b'{"a":1} trailing', b'{"a":1}}', b'{"a":1}{', b'{"a":1,}', b"[1,]", b"[,1]", b"[1,,2]",
          b'/* c */ {"a": /* x */ 1 // y\n }', b'{"a":"/* not */ // c"}', b'{"a": 1 // unterminated',
          b'{"a": 1 /* unterminated }', b'{"a": 1 } // unterminated', b'{"a": 1 } /* unterminated',
          b'"\\u0000abc"', b'{"\\u0000":1}', b'{"a\\u0000b":1}', b'"a\x01"', b'"\xff\xfe"', b"", b" ", b"\n",
          b"\xef\xbb\xbf{}", b"[1,2", b"[1 2]", b"tru", b"true", b"nul", b"null", b"falsehood", b"nullx", b"truex",
          b'"\\ud800"', b'"\\udc00"', b'"\\ud800\\u0041"', b'"\\ud83d\\ude00"', b'"\\ud83d\\ude0"', b'"\\ud83d\\u"',
          b'"\\uD83D\\uDE00"', b'"\\ud800\\udc00"', b'"\\udbff\\udfff"', b'"\\ud800\\udfff"', b'"\\udbff\\udc00"',
          b'"\\ud800\\udbff"', b'"\\ud800\\ue000"', b'"\\ud7ff"', b'"\\ue000"', b'"\\uffff"', b'"\\u007f"', b'"\\u0080"',
          b'"\\u07ff"', b'"\\u0800"', b'"\\u0000"', b'"\\u001f"', b'"\\u0020"', b'"\\uDBFF\\uDFFF"', b'"\\udc00\\ud800"', b'"\\ud83d\\\\ude00"', b'"\\ud83dx\\ude00"', b'"\\x"', b'"\\', b'"\\"', b'"\\u12"',
          b'"\\u12G4"', b'"\\u 123"', b'"\\u+123"', b'{"a" 1}', b"{1:2}", b'\\"', b"\\/* */ 1", b'"a\\\\" /* c */',
          b'1 /* "*/ ', b"[1,/*]*/2]", b"/*/ 1", b"/**/1", b"/* */ /* */ 2", b"// a\n// b\n3", b"//\n4", b"/ 1", b"/",
          b'"//"', b'"\\"//"', b'"\\\\"//c\n', b'["a\\"/*",1]', b'"/*" /* */', b"/* // */ 5", b"// /* \n 6 /* */",
          b"7 // */ \n", b"/* \" */ 8", b"// \" \n 9", b'\\"/* x */ 1', b'[1, // c"\n 2]', b"[1, /* \" */ 2]",
          b"'a'", b"{'a':1}", b"[1;2]", b"{\"a\"=1}", b"\x00", b"1\x00 2", b'{"a":1\x00}', b'"a\x00b"',
          b"0.5e1", b"5e-1", b"0.0625", b"1.0", b"100e-2", b"-1.5", b"1E+2", b"1e+", b"1e", b"[1e]", b"[1e+]", b"1.5.5",
          b"--1", b"-+1", b"+1", b".5", b"0.000", b"-0.0", b"2.5e-1", b"0x.8", b"0X1P3", b"[0x.]", b"00", b"-00",
          b"-01", b"-0x1", b"-0e1", b"-0.e1", b"0.e1", b"4e0", b"4e00", b"0.5e+01", b"1e16", b"9e15", b"[1.]",
          b"[-.5]", b"[1 ]", b"[ 1]", b"[1\x0b]", b"[1\x0c,\r2]", b"{\"a\"\x0b:\x0c1}", b"[1\xa0]", b"[1\x1c]",
          b"[0x]", b"[0x,1]", b"[-,1]", b"{\"a\":-}", b"{\"a\":-,\"b\":1}", b"9007199254740992", b"-9007199254740992",
          b"9007199254740992.0", b"900719925474099200e-2", b"0.5", b"0.25", b"0.75", b"1e-1", b"5e-2", b"25e-2",
          b"125e-3", b"1.25", b"1" + b"0" * 30 + b"e-30", b"0." + b"0" * 30 + b"1e31", b"1e-30", b"0e99999999999999999999",
          b"0.0e99999999999999999999", b"1e99999999999999999999", b"1e-99999999999999999999", b"0.0e-5", b"-0.0e+5",
          b"1.e", b"1.e+", b"1.E-", b"1.5e+x", b"1e1.5", b"1e1e1", b"0.5.", b"{}", b"[]", b"{ }", b"[ ]", b"{\n}",
          b"[[]]", b"[{}]", b"{\"\":{}}", b"{\"\":\"\"}", b"\"\"", b"[\"\"]", b"{\"a\":{\"a\":1},\"b\":{\"a\":2}}"]

QUIRK_GETS = [(b'{"a":{"b":{"c":3.5,"s":"x\\u0000y","i":-7.75}},"n":null,"arr":[1,2],"t":true,"f":false,"a.b":7,"":{"":5},'
               b'"big":4294967296,"neg":-2147483649,"s":"str","e":{}}',
               ["num:a.b.c", "int:a.b.c", "int:a.b.i", "str:a.b.s", "len:a.b.s", "obj:a.b", "obj:a.x", "arr:arr", "bool:t",
                "bool:f", "bool:n", "val:a.b", "has:n", "has:zz", "gval:a.b", "val:a.b.c.d", "val:n.x", "num:arr",
                "val:a..b", "val:.", "val:", "gval:", "int:big", "int:neg", "num:s", "str:arr", "str:s", "len:s",
                "obj:e", "arr:e", "bool:s", "val:a.b.", "val:.a", "has:a.b", "has:a.b.c", "obj:", "val:e.x"])]


def nested(op, cl, n, inner):
    return op * n + inner + cl * n


def nesting_docs():
    out = []
    for n in (MAX_NESTING - 1, MAX_NESTING, MAX_NESTING + 1, MAX_NESTING + 2):
        for inner in (b"", b"1", b"\"s\"", b"null"):
            out.append(("nest-arr-%d" % n, nested(b"[", b"]", n, inner)))
        out.append(("nest-obj-%d" % n, b'{"a":' * n + b"1" + b"}" * n))
        out.append(("nest-obj-empty-%d" % n, b'{"a":' * n + b"{}" + b"}" * n))
        out.append(("nest-mixed-%d" % n, b'[{"a":' * (n // 2) + b"[]" + b"}]" * (n // 2)))
    return out


# --------------------------------------------------------------------------
# running both sides
# --------------------------------------------------------------------------

def harness(prep):
    bdir = prep.bdir_asan or prep.bdir
    return vcommon.cc_harness("json_h", [os.path.join(vcommon.HARNESS, "json_h.c"),
                                          os.path.join(vcommon.REPO, "src/parson.c")], bdir, libs=["-lm"])


def run_both(h, lines, scratch=None):
    """returns (impl, model, crashes) — a sanitizer abort of the harness on a
    line is recorded and the run continues with the next line"""
    env = dict(os.environ)
    if scratch:
        env["HX_DIR"] = scratch
    env["ASAN_OPTIONS"] = "detect_leaks=1:exitcode=99:abort_on_error=0"
    env["UBSAN_OPTIONS"] = "halt_on_error=1:exitcode=98:print_stacktrace=1"
    impl, crashes, start = [], [], 0
    while start < len(lines):
        rc, out, err = engine.run_lines(h, lines[start:], env=dict(env), timeout=1800)
        if rc == 0 and len(out) == len(lines) - start:
            impl += out
            break
        # leak reports come at exit (all lines answered); anything else is the line that was being processed
        if len(out) >= len(lines) - start:
            impl += out[:len(lines) - start]
            crashes.append((None, rc, err[-3000:]))
            break
        bad = start + len(out)
        impl += out + ["crash rc=%s" % rc]
        crashes.append((bad, rc, err[-3000:]))
        start = bad + 1
    _, model, merr = engine.run_lines(engine.exe("drv_json"), lines, timeout=1800)
    return impl, model, crashes


def decode_line(l):
    t = l.split()
    if len(t) >= 2 and t[0] in ("parse", "parsef", "get", "utf8"):
        try:
            return repr(bytes.fromhex(t[1]) if t[1] != "-" else b"")[:600]
        except ValueError:
            pass
    return ""


def run_json_correspondence(res, prep, tier, rng, replay_lines=None):
    """Returns a list of findings: dicts with kind = 'disagree' (model and
    parson differ: a broken correspondence) or 'oracle' (parson's own output
    violates a stated property), key, text, replay (the protocol line)."""
    r = rng
    quick = tier != "thorough"
    h = harness(prep)
    findings = []
    lines = []      # (line, cls, expect or None)

    def add(line, cls, expect=None, oracle=None, nounsup=False):
        lines.append((line, cls, expect, (oracle, nounsup)))
        res.dist("json:" + cls)

    if replay_lines is not None:
        for l in replay_lines:
            add(l, "replay")
    else:
        build_lines(r, quick, add, h, findings, res)
    from ovnitrace import Scratch
    with Scratch("json") as d:
        impl, model, crashes = run_both(h, [l[0] for l in lines], d)
    for (bad, rc, err) in crashes:
        l = lines[bad][0] if bad is not None else "(at exit: leak report)"
        findings.append({"kind": "oracle", "key": "parson-sanitizer:" + (lines[bad][1] if bad is not None else "exit"),
                         "text": f"parson under ASan/UBSan: exit {rc} on: {l[:200]} {decode_line(l)}",
                         "replay": "jsonline " + l + "\n" + err})
    res.cov["json_lines"] = len(lines)
    nuns = 0
    for i, (l, cls, expect, oracle) in enumerate(lines):
        a = impl[i] if i < len(impl) else "<missing>"
        b = model[i] if i < len(model) else "<missing>"
        res.case("json|" + l, nontrivial=True)
        op = l.split(" ", 1)[0]
        if op in ("parse", "parsef"):
            res.dist("json-parson:" + ("fail" if a == "parse fail" else "ok" if a.startswith("parse ") else "crash"))
        unsup = b.startswith("parse unsup") or b == "get unsup"
        if unsup:
            nuns += 1
            res.dist("json-model:unsup")
            # the grammar decision and everything but the unknown number values still have to agree; parson may
            # also refuse the document (ERANGE overflow of such a number)
            if b.startswith("parse unsup ") and a != "parse fail" and not a.startswith("crash"):
                pat = re.escape(b[len("parse unsup "):]).replace(re.escape("#?"), r"#-?[0-9]+(/[0-9]+)?")
                if not re.fullmatch(pat, a[len("parse "):]):
                    findings.append({"kind": "disagree", "key": "json-corr-shape:" + cls,
                                     "text": f"parson says '{a[:300]}', the Lean model (number values aside) '{b[:300]}' ({cls}: {decode_line(l)})",
                                     "replay": "jsonline " + l + f"\n# impl:  {a}\n# model: {b}"})
        if a.startswith("crash"):
            continue
        if not unsup and a != b:
            findings.append({"kind": "disagree", "key": "json-corr:" + cls,
                             "text": f"parson says '{a[:300]}', the Lean model says '{b[:300]}' ({cls}: {decode_line(l)})",
                             "replay": "jsonline " + l + f"\n# impl:  {a}\n# model: {b}"})
        oracle, nounsup = oracle
        if nounsup and unsup:
            findings.append({"kind": "disagree", "key": "json-unsup:" + cls,
                             "text": f"the model gives 'unsupported' for a document of modelled numbers ({cls}: {decode_line(l)})",
                             "replay": "jsonline " + l})
        if expect is not None:
            if a != expect:
                findings.append({"kind": "oracle", "key": "json-value:" + cls,
                                 "text": f"parson says '{a[:300]}' where the document denotes '{expect[:300]}' ({cls}: {decode_line(l)})",
                                 "replay": "jsonline " + l + f"\n# impl:   {a}\n# expect: {expect}"})
        if oracle == "reject" and a != "parse fail":
            findings.append({"kind": "oracle", "key": "json-accepted-garbage:" + cls,
                             "text": f"parson accepts a strict prefix of a serialized document: '{a[:200]}' ({decode_line(l)})",
                             "replay": "jsonline " + l + f"\n# impl: {a}"})
    res.cov["json_unsupported"] = nuns
    shown = 0
    for i, (l, cls, expect, _) in enumerate(lines):
        if shown < 3 and cls in ("metadata-parson", "wild", "mut-flip") and len(l) < 700:
            res.sample({"json": cls, "line": l[:400], "parson": impl[i][:300] if i < len(impl) else None})
            shown += 1
    return findings


def build_lines(r, quick, add, h, findings, res):
    # ---- fixed quirks
    for q in QUIRKS:
        add("parse " + hx(q), "quirk")
    for q in QUIRKS[:40]:
        add("parsef " + hx(q), "quirk-file")
    for doc, qs in QUIRK_GETS:
        add("get " + hx(doc) + " " + " ".join(k.split(":")[0] + ":" + hx(k.split(":", 1)[1].encode()) for k in qs), "quirk-get")
    for name, doc in nesting_docs():
        add("parse " + hx(doc), name.rsplit("-", 1)[0] + "-limit")
    # ---- documents from value trees
    trees = []
    nmeta, nrand = (80, 400) if quick else (600, 4000)
    for _ in range(nmeta):
        trees.append(("metadata", gen_metadata(r)))
    for _ in range(nrand):
        trees.append(("random", gen_value(r) if r.random() < 0.5 else gen_obj(r)))
    ser_docs = []
    for cls, t in trees:
        exp = dump(t)
        clean = modelled(t)
        for style in (["parson", "python", "compact", "wild"] if cls == "metadata" else [r.choice(["parson", "python", "compact", "wild", "wild"])]):
            flags = set()
            text = spell(r, t, style, flags=flags)
            has0 = has_kind(t, "obj") and any(b"\x00" in k for k in keys_of(t))
            e = "parse " + exp if exp is not None and not has0 and "nasty" not in flags else None
            if "nasty" in flags:
                res.dist("json:line-comment-with-quote")
            add("parse " + hx(text), cls + "-" + style if cls == "metadata" else style, expect=e, nounsup=clean)
            if clean:
                res.dist("json:numbers-all-modelled")
        if t[0] == "obj" and r.random() < (1.0 if cls == "metadata" else 0.3):
            qs = gen_queries(r, t)
            add("get " + hx(spell(r, t, "compact")) + " " + " ".join(qs), "get-" + cls)
        # serialization of trees without free-text numbers
        if not has_kind(t, "numtxt") and frac_short(t):
            d = dump(t)
            if strings_valid(t):
                ser_docs.append((cls, t, d))
            add("ser " + d, "ser-" + cls)
    # ---- round trip and truncation on the C side need the serialized text: ask the harness first
    sl = ["ser " + d for _, _, d in ser_docs]
    _, out, _ = engine.run_lines(h, sl)
    ntr = {}
    for (cls, t, d), o in zip(ser_docs, out):
        if not o.startswith("ser ") or o in ("ser bad", "ser badutf8", "ser fail"):
            continue
        text = bytes.fromhex(o[4:]) if o[4:] != "-" else b""
        smallfrac = has_frac(t)
        if not smallfrac:
            add("parse " + hx(text), "roundtrip", expect="parse " + d)
        closed = t[0] in ("obj", "arr", "str")
        budget = (5 if quick else 40) if cls == "metadata" else (60 if quick else 400)
        if closed and ntr.get(cls, 0) < budget and not smallfrac:
            ntr[cls] = ntr.get(cls, 0) + 1
            for k in range(0, len(text)):
                add("parse " + hx(text[:k]), "trunc-" + cls, oracle="reject")
        elif closed and not smallfrac:
            for k in sorted({0, 1, len(text) // 2, len(text) - 2, len(text) - 1} & set(range(len(text)))):
                add("parse " + hx(text[:k]), "trunc-sample", oracle="reject")
        # single-byte mutations of the text
        nm = (10 if quick else 60)
        for _ in range(nm):
            if not text:
                break
            k = r.random()
            p = r.randrange(len(text))
            if k < 0.4:
                v = r.choice([text[p] ^ (1 << r.randrange(8)), r.choice(b"\"\\{}[],:/* \n0-.eEx\x00"), r.randrange(256)])
                add("parse " + hx(text[:p] + bytes([v]) + text[p + 1:]), "mut-flip")
            elif k < 0.7:
                v = r.choice([r.choice(b"\"\\{}[],:/* \n0-.eEx\x00u"), r.randrange(256)])
                add("parse " + hx(text[:p] + bytes([v]) + text[p:]), "mut-insert")
            else:
                add("parse " + hx(text[:p] + text[p + 1:]), "mut-delete")
    # ---- duplicate names
    for _ in range(20 if quick else 300):
        t = gen_obj(r, n=r.randrange(2, 6), exotic=False)
        if len(t[1]) < 2:
            continue
        i, j = r.sample(range(len(t[1])), 2)
        ms = list(t[1])
        ms[j] = (ms[i][0], ms[j][1])
        flags = set()
        text = spell(r, ("obj", ms), r.choice(["compact", "wild"]), flags=flags)
        add("parse " + hx(text), "dup-key", expect=None if "nasty" in flags else "parse fail")
        if r.random() < 0.5:      # the same name in two different objects is fine
            t2 = ("obj", [(b"p", ("obj", [ms[i]])), (b"q", ("obj", [ms[j]]))])
            add("parse " + hx(spell(r, t2, "compact")), "dup-key-distinct-objects", expect="parse " + dump(t2))
    # ---- dotset sequences as libovni issues them
    paths = [b"version", b"ovni.lib.version", b"ovni.lib.commit", b"ovni.part", b"ovni.tid", b"ovni.pid", b"ovni.loom",
             b"ovni.app_id", b"ovni.require.ovni", b"ovni.require.nosv", b"ovni.finished", b"ovni.loom_cpus", b"ovni.rank",
             b"ovni.mark.7.title", b"ovni.mark.7.chan_type", b"ovni.mark.7.labels.1", b"ovni.mark.7.labels.2",
             b"nosv.can_breakdown", b"nosv.lib_version", b"a", b"a.b", b"a.b.c", b"a..b", b".", b"", b"a.", b".a", b"ovni",
             b"ovni.lib", b"ovni.mark", b"ovni.mark.7"]
    for _ in range(60 if quick else 1500):
        root = gen_obj(r, exotic=False) if r.random() < 0.4 else ("obj", [])
        if has_frac(root):
            continue
        sets = []
        for _ in range(r.randrange(1, 12)):
            v = r.choice([N(gen_int(r)), S(r.choice(["thread", "1.2.3", "a/b", "\u00e9"])), ("bool", True), ("null",),
                          ("obj", []), ("arr", [N(1)]), ("str", b"\xff"), gen_obj(r, 3, exotic=False)])
            if has_frac(v):
                continue
            sets.append(hx(r.choice(paths)) + "=" + dump(v))
        add("set " + dump(root) + " " + " ".join(sets), "dotset")
    # ---- UTF-8 validation (json_value_init_string)
    for _ in range(150 if quick else 5000):
        k = r.random()
        if k < 0.4:
            b = gen_bytes(r)
        elif k < 0.7:
            b = bytes(r.choice([0x00, 0x41, 0x7f, 0x80, 0xbf, 0xc0, 0xc1, 0xc2, 0xdf, 0xe0, 0xed, 0xef, 0xf0, 0xf4, 0xf5, 0xff,
                                0x9f, 0xa0, 0x8f, 0x90]) for _ in range(r.randrange(1, 6)))
        else:
            b = chr(r.choice([0x7f, 0x80, 0x7ff, 0x800, 0xd7ff, 0xe000, 0xffff, 0x10000, 0x10ffff])).encode()
            b = b[:r.randrange(1, len(b) + 1)] + r.choice([b"", b"a", b"\x80"])
        add("utf8 " + hx(b), "utf8")


def keys_of(t):
    if t[0] == "obj":
        for k, v in t[1]:
            yield k
            yield from keys_of(v)
    elif t[0] == "arr":
        for x in t[1]:
            yield from keys_of(x)


def has_frac(t):
    if t[0] == "num":
        return t[2] != 0
    if t[0] == "arr":
        return any(has_frac(x) for x in t[1])
    if t[0] == "obj":
        return any(has_frac(v) for _, v in t[1])
    return False


def frac_short(t):
    """every dyadic fraction of the tree has a decimal expansion that `%.17g` prints in full"""
    if t[0] == "num" and t[2] != 0:
        a = abs(t[1]) * 5 ** t[2]
        return len(str(a)) <= 17 and abs(t[1]) * 10000 >= 2 ** t[2]
    if t[0] == "arr":
        return all(frac_short(x) for x in t[1])
    if t[0] == "obj":
        return all(frac_short(v) for _, v in t[1])
    return True


def all_paths(t, prefix=b""):
    if t[0] != "obj":
        return
    for k, v in t[1]:
        if b"\x00" in k:
            continue
        p = prefix + k
        yield p
        yield from all_paths(v, p + b".")


def gen_queries(r, t):
    kinds = ["num", "int", "str", "len", "obj", "arr", "bool", "val", "has", "gval"]
    ps = list(all_paths(t))
    qs = []
    for p in ps[:40]:
        for k in r.sample(kinds, 3):
            qs.append(k + ":" + hx(p))
    for _ in range(6):
        p = r.choice(ps) if ps and r.random() < 0.7 else b"zz"
        p = r.choice([p + b".x", p + b".", b"." + p, p[:-1], p + b"x", b"ovni.tid", b"ovni.require.ovni", b""])
        if b"\x00" not in p:
            qs.append(r.choice(kinds) + ":" + hx(p))
    return qs
