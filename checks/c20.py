"""C20 — breakdown view: rows always hold the sorted per-CPU breakdown values."""
import itertools
import os

import c20_lib as L
import engine
import gen
import vcommon
from ovnitrace import Scratch, run_emu, verdict, write_trace

PID = "C20"

STALE_KEYS = {
    ("nosv", "A"): "breakdown-stale-select:VAP-then-VTr",
    ("nosv", "B"): "breakdown-stale-select:VTp-in-body",
    ("nanos6", "A"): "breakdown-stale-select:6pop-then-6Tr",
    ("nanos6", "B"): "breakdown-stale-select:6Tp-in-body",
}
STALE_TEXT = {
    "A": ("mux0 keeps the subsystem input selected (it was selected while the task type was NULL) after the task "
          "type became non-NULL without a subsystem change: the breakdown row shows ST_TASK_BODY, cpu.prv shows a "
          "task type (DESIGN.md 6-G)"),
    "B": ("mux0 keeps the task_type input selected after the task type went NULL without a subsystem change (bare "
          "task pause in the task body): the breakdown row shows 0 (NULL), cpu.prv shows subsystem = ST_TASK_BODY"),
}


# --------------------------------------------------------------------------
# unit scripts
# --------------------------------------------------------------------------

def sorted_arrays(vals, n):
    return itertools.combinations_with_replacement(vals, n)


def replace_lines(r, tier):
    lines = []
    vals, maxn = (range(0, 4), 4) if tier == "quick" else (range(0, 5), 6)
    for n in range(1, maxn + 1):
        for arr in sorted_arrays(vals, n):
            for old in sorted(set(arr)):
                for new in range(min(vals) - 1, max(vals) + 2):
                    if new != old:
                        lines.append("sort replace %d %d %s" % (old, new, " ".join(map(str, arr))))
    nrand = 400 if tier == "quick" else 6000
    big = [-2**63, -2**63 + 1, -2**31, -1, 0, 1, 2**31, 2**63 - 2, 2**63 - 1]
    for _ in range(nrand):
        n = r.choice([1, 2, 3, 5, 8, 16, 31, 32, 33, 64]) if tier == "quick" else r.randrange(1, 300)
        k = r.random()
        if k < 0.4:
            pool = list(range(0, max(2, n // 3)))        # many ties
        elif k < 0.8:
            pool = list(range(-50, 50))
        else:
            pool = big + list(range(-3, 4))
        arr = sorted(r.choice(pool) for _ in range(n))
        old = r.choice(arr)
        new = old
        while new == old:
            new = r.choice(pool + [min(arr) - 1 if min(arr) > -2**63 else 0, max(arr) + 1 if max(arr) < 2**63 - 1 else 0,
                                   arr[n // 2], arr[n // 2] + 1 if arr[n // 2] < 2**63 - 1 else 0])
        lines.append("sort replace %d %d %s" % (old, new, " ".join(map(str, arr))))
    lines.append("sort replace 5 5 1 5 7")     # die("old == new")
    return lines


def sort_histories(r, tier):
    """list of histories; a history = (n, [set-line ...])"""
    H = []
    V = ["N", "0", "1", "2"]
    maxn, maxlen = (3, 3) if tier == "quick" else (4, 4)
    for n in range(1, maxn + 1):
        moves = ["%d %s" % (i, v) for i in range(n) for v in V]
        for ln in range(1, maxlen + 1):
            if len(moves) ** ln > 70000:
                continue
            for h in itertools.product(moves, repeat=ln):
                H.append((n, ["sort set " + m for m in h]))
    nrand = 60 if tier == "quick" else 1200
    for _ in range(nrand):
        n = r.choice([1, 2, 3, 4, 7, 16, 33, 64])
        k = r.random()
        if k < 0.5:
            pool = ["N"] + [str(x) for x in range(0, 4)]
        elif k < 0.85:
            pool = ["N", "D4607182418800017408", "D0"] + [str(x) for x in range(-20, 20)]
        else:
            pool = ["N", str(-2**63), str(2**63 - 1), "0", "-1", "1"]
        ls = []
        for _ in range(r.randrange(1, 60 if tier == "quick" else 200)):
            m = 1 if r.random() < 0.7 else r.randrange(1, min(n, 5) + 1)
            idx = r.sample(range(n), m)
            ls.append("sort set " + " ".join("%d %s" % (i, r.choice(pool)) for i in idx))
        H.append((n, ls))
    H.append((0, ["sort set"]))
    return H


def bd_histories(r, tier, consts):
    """unit histories for the real connect_cpu + sort: (model, n, lines)"""
    H = []
    for model in ("nosv", "nanos6"):
        body, unk, prog = consts[model]
        sv = {"ss": ["N", str(body), str(body + 4)], "tt": ["N", "7", str(body)],
              "idle": ["N", str(prog), str(prog + 1)]}
        srcs = ["ss", "tt", "idle"]
        props = [[]]
        for k in (1, 2, 3):
            for order in itertools.permutations(srcs, k):
                for vs in itertools.product(*[sv[s] for s in order]):
                    props.append(list(zip(order, vs)))
        fmt = lambda p: "bd set " + " ".join("0 %s %s" % (s, v) for s, v in p) if p else "bd set"
        # every single propagation from the initial state, and after one
        # "thread starts running" propagation
        for p in props:
            H.append((model, 1, [fmt(p)]))
        start = [("tt", "N"), ("ss", "N"), ("idle", str(prog))]
        pairs = props if tier == "thorough" else r.sample(props, 60)
        for p in pairs:
            for q in (props if tier == "thorough" else r.sample(props, 25)):
                H.append((model, 1, [fmt(start), fmt(p), fmt(q)]))
        nrand = 40 if tier == "quick" else 600
        for _ in range(nrand):
            n = r.choice([1, 2, 3, 4, 8, 17])
            ls = []
            for _ in range(r.randrange(1, 40)):
                items = []
                for c in r.sample(range(n), r.randrange(1, min(n, 3) + 1)):
                    if r.random() < 0.5:
                        order = ["tt", "ss", "idle"]       # th_running change
                    else:
                        order = r.sample(srcs, r.randrange(1, 4))
                    for s in order:
                        pool = sv[s] + ([str(x) for x in (unk, body + 1, 101, 102)] if s != "tt" else ["9", "3"])
                        items.append("%d %s %s" % (c, s, r.choice(pool)))
                if r.random() < 0.5:
                    r.shuffle(items)
                ls.append("bd set " + " ".join(items))
            H.append((model, n, ls))
    return H


def parse_outs(line):
    """'outs a b c w i j' (possibly preceded by 'tr .. tri ..') -> (outs, w)"""
    t = line.split()
    if "outs" not in t or "w" not in t:
        return None, None
    a, b = t.index("outs"), len(t) - 1 - t[::-1].index("w")
    outs = [x for x in t[a + 1:b] if x != "-"]
    w = [int(x) for x in t[b + 1:] if x != "-"]
    return outs, w


def tok_int(x):
    if x == "N" or x.startswith("D"):
        return 0
    return int(x)


def sort_oracle(n, lines, outs_lines):
    """Property oracle on the implementation's outputs of one history: rows
    non-decreasing, same multiset as the inputs, written iff changed."""
    vals = [0] * n
    prev = ["N"] * n
    for ln, out in zip(lines, outs_lines):
        t = ln.split()[2:]
        sets = [(int(t[i]), t[i + 1]) for i in range(0, len(t), 2)]
        for i, v in sets:
            vals[i] = tok_int(v)
        outs, w = parse_outs(out)
        if outs is None or len(outs) != n:
            return "malformed output: " + out
        iv = [tok_int(x) for x in outs]
        if any(iv[i] > iv[i + 1] for i in range(n - 1)):
            return f"rows not non-decreasing after '{ln}': {out}"
        if sorted(vals) != iv:
            return f"rows {iv} are not the sorted input values {sorted(vals)} after '{ln}'"
        changed = [i for i in range(n) if outs[i] != prev[i]]
        if len(sets) == 1:
            if w != changed:
                return f"outputs written {w} != outputs whose value changed {changed} after '{ln}'"
        elif not set(changed) <= set(w):
            return f"changed outputs {changed} not all written {w} after '{ln}'"
        prev = outs
    return None


# --------------------------------------------------------------------------
# e2e
# --------------------------------------------------------------------------

def e2e_params(r, tier, i):
    model = "nosv" if r.random() < 0.55 else "nanos6"
    ncpus = r.choice([1, 1, 2, 2, 3, 4, 4, 12]) if tier == "quick" else r.choice([1, 2, 2, 3, 4, 6, 8, 12, 20])
    nth = r.randrange(1, ncpus + 3)
    nprocs = 1 if r.random() < 0.7 else 2
    steps = r.choice([15, 30, 60, 120]) if tier == "quick" else r.choice([20, 60, 150, 400])
    k = r.random()
    stale = "none" if k < 0.62 else "A" if k < 0.75 else "B" if k < 0.88 else "AB"
    nprocs = min(nprocs, nth)
    # a third of the two-process histories spread over two looms (the breakdown counts and orders the physical
    # CPUs of ALL looms: seeded C20-7 counted ncpus - 1 instead of ncpus - nlooms)
    split = r.randrange(1, ncpus) if (nprocs == 2 and ncpus >= 2 and r.random() < 0.6) else 0
    return model, ncpus, nth, nprocs, steps, stale, split


def fixed_histories():
    """(name, model, events-per-thread) minimal traces: the documented finding
    and its neighbours. Each event: (mcv, kind)"""
    return ["G-nosv", "ok-nosv", "bare-nosv", "G-nanos6", "bare-nanos6"]


def build_fixed(name, mts, consts):
    import random
    from ovnitrace import i32, u32, u64
    model = name.split("-")[1]
    mt = mts[model]
    g = L.Gen(random.Random(0), model, mt, consts[model], 2, 1, 1, 0, "AB")
    g.tick = lambda: (setattr(g, "clk", g.clk + 10), g.clk)[1]
    th = g.threads[0]
    ch = mt["ch"]
    body = consts[model][0]

    def pair(mcv):
        return [x for x in mt["pairs"] if x[1] == mcv][0]

    g.ev(th, "OHx", i32(0, -1) + u64(0)); th.state = "run"; th.cpu = 0; g.running[0] = 0
    g.sel_change(g.clk, [0])
    g.ev(th, ch + "Yc", b"", u32(7) + b"type7\0")
    g.ev(th, ch + "Tc", u32(1, 7))
    reg = pair("VAp") if model == "nosv" else pair("6Bb")

    def push(rg):
        c = g.ev(th, rg[1]); th.ss.append(rg[0]); g.chan_change(c, th, ["ss"])

    def pop(rg):
        c = g.ev(th, rg[2]); th.ss.pop(); g.chan_change(c, th, ["ss"])

    def tx():
        c = g.ev(th, ch + "Tx", g.task_payload(1)); th.ss.append(body); th.tt = 7; g.chan_change(c, th, ["ss", "tt"])

    def tp():
        c = g.ev(th, ch + "Tp", g.task_payload(1)); th.tt = None; g.chan_change(c, th, ["tt"])

    def tr():
        c = g.ev(th, ch + "Tr", g.task_payload(1)); th.tt = 7; g.chan_change(c, th, ["tt"])

    def te():
        c = g.ev(th, ch + "Te", g.task_payload(1)); th.ss.pop(); th.tt = None; g.chan_change(c, th, ["ss", "tt"])

    if model == "nanos6":
        push(pair("6Wt"))        # "handling task", so that 6Tx does not push a duplicate
    tx()
    kind = name.split("-")[0]
    if kind == "G":
        push(reg); tp(); pop(reg); tr()
    elif kind == "ok":
        push(reg); tp(); tr(); pop(reg)
    elif kind == "bare":
        tp(); tr()
    te()
    if model == "nanos6":
        pop(pair("6Wt"))
    g.ev(th, "OHe"); g.running[0] = None
    g.sel_change(g.clk, [0])
    return L.Case.of_gen(g, label="fixed history " + name)


def run_case(prep, d, case, mt, consts, res):
    """Runs ovniemu -b -l, the Lean model on the bookkeeping lines, and the
    oracle. Returns list of (key, text) problems."""
    model = case.model
    label = case.label
    td = os.path.join(d, "t")
    write_trace(td, case.streams(mt["version"]))
    rc, err = run_emu(prep.bdir, td, ["-b", "-l"])
    v = verdict(rc, err)
    res.dist("e2e:verdict:" + v)
    if v != "ok":
        return [("e2e:valid-history-rejected:" + model, f"ovniemu -b -l verdict {v} on a legal history ({label})\n# "
                 + err[-1200:].replace("\n", "\n# "))]
    o = L.read_outputs(td, model, mt)
    if o["bad"]:
        return [("e2e:prv-malformed", "unparsable PRV lines: %r" % o["bad"][:3])]
    gids = L.type_gids(td, mt)
    t0 = case.t0()
    lines = ["bd init %s %d" % (model, case.ncpus)]
    times = []
    for (clk, ln) in case.lines:
        toks = ln.split()
        for i, t in enumerate(toks):
            if t.startswith("T") and t[1:].isdigit():
                toks[i] = str(gids.get("type" + t[1:], -1))
        lines.append(" ".join(toks))
        lines.append("bd cls")
        times.append(clk - t0)
    _, mo, merr = engine.run_lines(engine.exe("drv_sort"), lines)
    if len(mo) != len(lines) or mo[0] != "ok":
        return [("e2e:driver-failed", "driver output malformed: %r %s" % (mo[:2], merr[-300:]))]
    model_steps = []     # (time, rows, classes)
    for k, t in enumerate(times):
        outs, _ = parse_outs(mo[1 + 2 * k])
        cls = mo[2 + 2 * k].split()[1:]
        model_steps.append((t, [tok_int(x) for x in outs], cls))
    problems = []
    seen_keys = set()

    def add(key, text):
        if key not in seen_keys:
            seen_keys.add(key)
            problems.append((key, text))

    alltimes = sorted(set(o["times"]) | set(times))
    nphys = len(o["phys"])
    if nphys != case.ncpus or (o["nrows"] is not None and o["nrows"] != case.ncpus):
        add("e2e:row-count", f"breakdown rows {o['nrows']} / physical cpus {nphys} != {case.ncpus}")
    stale_seen = False
    for t in alltimes:
        act = L.rows_actual(o, t)
        orc = L.rows_oracle(o, t, mt, consts)
        mrow, mcls = [0] * case.ncpus, ["U"] * case.ncpus
        for (mt_, rows, cls) in model_steps:
            if mt_ <= t:
                mrow, mcls = rows, cls
            else:
                break
        if any(act[i] > act[i + 1] for i in range(len(act) - 1)):
            add("e2e:rows-not-sorted:" + model, f"t={t}: breakdown rows {act} are not non-decreasing ({label})")
        if act != mrow:
            add("e2e:model-mismatch:" + model, f"t={t}: breakdown rows {act} but the Lean model of the patch-bay "
                f"predicts {mrow} (classes {mcls}) ({label})")
        if act != orc:
            stale = sorted({c for c in mcls if c in ("A", "B")})
            if stale and act == mrow:
                stale_seen = True
                for c in stale:
                    add(STALE_KEYS[(model, c)], f"t={t}: breakdown rows {act}, values recomputed from cpu.prv {orc}: "
                        + STALE_TEXT[c] + f" ({label})")
            else:
                add("e2e:oracle-mismatch:" + model, f"t={t}: breakdown rows {act} are not the sorted per-CPU values "
                    f"recomputed from cpu.prv {orc}; not explained by a stale mux0 selection "
                    f"(model rows {mrow}, classes {mcls}) ({label})")
    res.dist("e2e:stale-observed" if stale_seen else "e2e:no-deviation")
    return problems


def malformed_cases(r, mts, consts, n):
    """legal prefix + one illegal step; must be rejected (never crash)."""
    out = []
    for i in range(n):
        model = r.choice(["nosv", "nanos6"])
        mt = mts[model]
        g = L.Gen(r, model, mt, consts[model], 2, 1, 1, r.choice([5, 15, 30]), "AB")
        for _ in range(g.steps):
            g.act_thread(g.threads[0])
        th = g.threads[0]
        if th.state != "run":
            continue
        kind = r.choice(["pop-mismatch", "pause-not-running", "idle-dup", "end-unknown-task", "no-can-breakdown"])
        ch = mt["ch"]
        if kind == "pop-mismatch":
            top = th.ss[-1] if th.ss else None
            cand = [x for x in mt["pairs"] if x[0] != top]
            g.ev(th, r.choice(cand)[2])
        elif kind == "pause-not-running":
            g.ev(th, ch + "Tp", g.task_payload(999))
        elif kind == "idle-dup":
            g.ev(th, mt["idle"][th.idle])
        elif kind == "end-unknown-task":
            g.ev(th, ch + "Te", g.task_payload(998))
        elif kind == "no-can-breakdown":
            if model != "nosv":
                continue
            th.stream.meta["nosv"] = {"can_breakdown": False}
        g.ev(th, "OHe")
        out.append((kind, L.Case.of_gen(g, label="malformed:" + kind)))
    return out


def is_stale_key(key):
    return key.startswith("breakdown-stale-select:")


# --------------------------------------------------------------------------

def check(res, tier, replay=None):
    res.cov["rule"] = (
        "X1 unit: bounded-exhaustive sort_replace (all sorted arrays n<=4 over 4 values, every old in arr, every new; "
        "thorough n<=6 over 5 values) + random n<=64 (thorough <300) incl. int64 extremes; bounded-exhaustive "
        "sort_cb_input histories (n<=3, values {NULL,0,1,2}, length<=3; thorough n<=4, length<=4) + random n<=64 with "
        "multi-input propagations, NULL and double values, through the real sort.c/bay.c/chan.c (ASan+UBSan harness) "
        "and the Lean model; every single propagation (all 16 dirty orders x 3 values per channel) of the real "
        "nosv/nanos6 connect_cpu muxes + random multi-CPU propagations vs the model; property oracle (sorted, same "
        "multiset, written iff changed) on the implementation's outputs.  X2 e2e: random legal nOS-V/Nanos6 "
        "histories (threads, CPUs, tasks, subsystems, idle, thread pause/cool/warm/migrate) through ovniemu -b -l: "
        "breakdown PRV rows vs the sorted per-CPU values recomputed from cpu.prv (oracle) and vs the Lean patch-bay "
        "model fed with the per-CPU channel changes; malformed histories must be rejected.  non-trivial = at least "
        "one propagation / one event processed")
    res.assumptions = [
        "qsort(cmp_int64) returns a sorted permutation (theorems hold for any such function; the driver uses insertion sort)",
        "per-CPU propagation model: the CPU track channels of one bay_propagate are all written before any is "
        "processed and enter the dirty list in the order given (checked by X1 on the real connect_cpu and by X2)",
        "int64 values are modelled as unbounded Int (sort.c only compares and copies them)",
    ]
    prep = engine.prepare(res, drivers=("drv_sort",))
    proved = vcommon.prove(res, "C20")
    found = False
    pending = []     # (key, text, replay content); stale-select findings are emitted last, once per key

    def viol(key, text, content):
        pending.append((key, text, content))

    if prep.bdir and prep.driver_ok:
        r = vcommon.rng("c20")
        drv = engine.exe("drv_sort")
        libs = [os.path.join(prep.bdir, p) for p in ("src/emu/libemu.a", "src/rt/libovni-static.a",
                                                     "src/libparson-static.a", "src/libcommon-static.a")]
        H = vcommon.HARNESS
        h = vcommon.cc_harness("sort_c", [os.path.join(H, f) for f in ("sort_c.c", "bd_nosv.c", "bd_nanos6.c")],
                               prep.bdir, extra=("-w",), libs=libs + libs + ["-lm"])
        tabs = gen.load_tables()
        mts = {m: L.model_tables(m, tabs) for m in L.MODELS}
        # ---------------- constants ----------------
        cl = ["bd consts nosv", "bd consts nanos6"]
        _, ci, _ = engine.run_lines(h, cl)
        _, cm, _ = engine.run_lines(drv, cl)
        consts = {}
        for l, a, b in zip(cl, ci, cm):
            res.case(l)
            if a != b:
                viol("consts:" + l, f"breakdown constants differ: headers '{a}' model '{b}'", l)
            consts[l.split()[2]] = tuple(int(x) for x in a.split()[1:4])
        if replay:
            txt = open(replay).read()
            lines = [l.strip() for l in txt.split("\n") if l.startswith(("sort ", "bd "))]
            if lines:
                _, impl, ierr = engine.run_lines(h, lines)
                _, model, _ = engine.run_lines(drv, lines)
                for (i, l, a, b) in engine.diff_lines(res, lines, impl, model, "sort")[:5]:
                    viol("unit:" + l[:100], f"line {i}: impl='{a}' model='{b}'", "\n".join(lines[:i + 1]))
                for l in lines:
                    res.case(l)
            case = L.Case.parse(txt)
            if case is not None:
                with Scratch("c20") as d:
                    for (key, text) in run_case(prep, d, case, mts[case.model], consts[case.model], res):
                        viol(key, text, case.text())
                    res.case(case.text())
        else:
            # ---------------- X1: sort_replace ----------------
            lines = replace_lines(r, tier)
            rc, impl, ierr = engine.run_lines(h, lines)
            _, model, _ = engine.run_lines(drv, lines)
            for l in lines:
                res.case(l)
                res.dist("unit:replace:" + ("old<new" if int(l.split()[2]) < int(l.split()[3]) else "new<=old"))
            for (i, l, a, b) in engine.diff_lines(res, lines, impl, model, "replace")[:3]:
                viol("unit:sort_replace", f"sort_replace: impl='{a}' model='{b}' (exit {rc}) {ierr[-300:]}", l)
            # independent oracle on the implementation's output
            for l, a in zip(lines, impl):
                t = l.split()
                old, new, arr = int(t[2]), int(t[3]), [int(x) for x in t[4:]]
                if old == new:
                    continue
                want = list(arr)
                want.remove(old)
                want = sorted(want + [new])
                if a != "arr " + " ".join(map(str, want)):
                    viol("unit:sort_replace-oracle", f"sort_replace result '{a}' is not the sorted update {want}", l)
                    break
            res.sample({"line": lines[100], "impl": impl[100] if len(impl) > 100 else None})
            # ---------------- X1: sort_cb_input ----------------
            hs = sort_histories(r, tier)
            lines, owner = [], []
            for hi, (n, ls) in enumerate(hs):
                lines.append("sort init %d" % n)
                owner.append((hi, -1))
                for j, l in enumerate(ls):
                    lines.append(l)
                    owner.append((hi, j))
            rc, impl, ierr = engine.run_lines(h, lines, timeout=1800)
            _, model, _ = engine.run_lines(drv, lines, timeout=1800)
            dis = engine.diff_lines(res, lines, impl, model, "sort")
            for (i, l, a, b) in dis[:3]:
                hi, j = owner[i]
                n, ls = hs[hi]
                viol("unit:sort_cb_input", f"sort module: impl='{a}' model='{b}' (exit {rc}) {ierr[-300:]}",
                     "sort init %d\n" % n + "\n".join(ls[:j + 1]))
            pos = 0
            nbad = 0
            for hi, (n, ls) in enumerate(hs):
                outs = impl[pos + 1:pos + 1 + len(ls)]
                pos += 1 + len(ls)
                res.case("sort init %d\n" % n + "\n".join(ls), nontrivial=n > 0)
                res.dist("unit:sort:n=%s" % (n if n <= 4 else "5-64"))
                if n == 0:
                    continue
                msg = sort_oracle(n, ls, outs)
                if msg and nbad < 2:
                    nbad += 1
                    viol("unit:sort-oracle", msg, "sort init %d\n" % n + "\n".join(ls))
            k = min(700, len(hs) - 1)
            p0 = sum(1 + len(x[1]) for x in hs[:k])
            res.sample({"history": ["sort init %d" % hs[k][0]] + hs[k][1], "impl": impl[p0 + 1:p0 + 1 + len(hs[k][1])]})
            # ---------------- X1: breakdown muxes ----------------
            bh = bd_histories(r, tier, consts)
            lines, owner = [], []
            for hi, (m, n, ls) in enumerate(bh):
                lines.append("bd init %s %d" % (m, n))
                owner.append((hi, -1))
                for j, l in enumerate(ls):
                    lines.append(l)
                    owner.append((hi, j))
            rc, impl, ierr = engine.run_lines(h, lines, timeout=1800)
            _, model, _ = engine.run_lines(drv, lines, timeout=1800)
            for (i, l, a, b) in engine.diff_lines(res, lines, impl, model, "bd")[:3]:
                hi, j = owner[i]
                m, n, ls = bh[hi]
                viol("unit:breakdown-mux:" + m, f"breakdown patch-bay: impl='{a}' model='{b}' (exit {rc}) {ierr[-300:]}",
                     "bd init %s %d\n" % (m, n) + "\n".join(ls[:j + 1]))
            for (m, n, ls) in bh:
                res.case("bd init %s %d\n" % (m, n) + "\n".join(ls))
                res.dist("unit:bd:" + m)
            k = len(bh) // 2
            p0 = sum(1 + len(x[2]) for x in bh[:k])
            res.sample({"history": ["bd init %s %d" % bh[k][:2]] + bh[k][2][:3], "impl": impl[p0 + 1:p0 + 1 + min(3, len(bh[k][2]))]})
            # ---------------- X2: e2e ----------------
            with Scratch("c20") as d:
                for name in fixed_histories():
                    model = name.split("-")[1]
                    case = build_fixed(name, mts, consts)
                    probs = run_case(prep, d, case, mts[model], consts[model], res)
                    res.case(case.text())
                    kind = name.split("-")[0]
                    keys = [p[0] for p in probs]
                    want = {"G": STALE_KEYS[(model, "A")], "bare": STALE_KEYS[(model, "B")]}.get(kind)
                    res.sample({"fixed": name, "events": case.pretty().replace("# ", "").split("\n"), "findings": keys})
                    for (key, text) in probs:
                        viol(key, text, case.pretty() + "\n" + case.text())
                    if want and want not in keys:
                        res.cov.setdefault("notes", []).append(f"{name}: finding {want} not reproduced on this tree")
                ncase = 1500 if tier == "quick" else 20000
                for i in range(ncase):
                    model, ncpus, nth, nprocs, steps, stale, split = e2e_params(r, tier, i)
                    g = L.Gen(r, model, mts[model], consts[model], ncpus, nth, nprocs, steps, stale, res, split=split)
                    res.dist("e2e:looms:%d" % (2 if g.split else 1))
                    g.run()
                    label = f"case {i} model={model} cpus={ncpus} threads={nth} procs={nprocs} steps={steps} stale={stale}"
                    if g.split and len({g.loom_of(th.proc) for th in g.threads if th.nev > 0}) < 2:
                        res.dist("e2e:looms:second-loom-empty-skipped")
                        continue        # a loom without a stream does not exist in the trace
                    case = L.Case.of_gen(g, label=label + (" split=%d" % g.split if g.split else ""))
                    probs = run_case(prep, d, case, mts[model], consts[model], res)
                    res.case(case.text(), nontrivial=len(g.hist) > 2)
                    res.dist("e2e:model:" + model)
                    res.dist("e2e:stale-mode:" + stale)
                    res.dist("e2e:cpus:%d" % ncpus)
                    for kk, vv in g.kinds.items():
                        res.dist("e2e:ev:" + kk, vv)
                    if i < 2:
                        res.sample({"case": label, "events": len(g.hist), "findings": [p[0] for p in probs]})
                    for (key, text) in probs:
                        if stale == "none" and is_stale_key(key):
                            key = "e2e:unexpected-stale:" + key
                        viol(key, text, case.pretty() + "\n" + case.text())
                # malformed
                for (kind, case) in malformed_cases(r, mts, consts, 40 if tier == "quick" else 400):
                    td = os.path.join(d, "m")
                    write_trace(td, case.streams(mts[case.model]["version"]))
                    rc, err = run_emu(prep.bdir, td, ["-b", "-l"])
                    v = verdict(rc, err)
                    res.case(case.text())
                    res.dist("e2e:malformed:" + kind + ":" + v)
                    if v != "reject":
                        viol("e2e:malformed-not-rejected:" + kind, f"illegal history ({kind}, {case.model}) gave verdict {v}",
                             case.pretty() + "\n" + case.text() + "\n# " + err[-800:].replace("\n", "\n# "))
    # emit: everything that is not the classified stale-select finding first,
    # then the stale-select findings once per key (shortest witness)
    done = set()
    for (key, text, content) in [p for p in pending if not is_stale_key(p[0])]:
        if key in done:
            continue
        done.add(key)
        found = True
        res.violation(key, text, content + "\n# replay: checks/check.py C20 --replay <this file>")
    stale = {}
    for (key, text, content) in [p for p in pending if is_stale_key(p[0])]:
        if key not in stale or len(content) < len(stale[key][1]):
            stale[key] = (text, content)
    for key in sorted(stale):
        found = True
        res.violation(key, stale[key][0], stale[key][1] + "\n# replay: checks/check.py C20 --replay <this file>")
    res.cov["findings"] = sorted(done | set(stale))
    for pr in prep.problems:
        res.failed_obligations = getattr(res, "failed_obligations", []) + [pr]
        proved = False
    if not proved:
        vcommon.obligations_failed(res, found)
