"""End-to-end emulator engine shared by C04 C05 C06 C08 C13 C17: build a trace
from an abstract history, run the real ovniemu, run the Lean reference
emulator (drv_emu), compare verdict, failing event and timelines."""
import os
import re
import struct
import subprocess

import engine
import gen
import vcommon
from ovnitrace import Prv, Stream, read_pcf, read_rows, run_emu, verdict, write_trace


class Sys:
    """Hierarchy: looms (by name) -> procs (pid) -> threads (tid); cpus per loom
    as list of phyids (index = position)."""

    def __init__(self, looms, require):
        # looms: list of (name, [ (pid, [tids]) ], [phyids])
        self.looms = sorted(looms, key=lambda l: l[0])
        self.require = dict(require)
        self.threads = []   # gindex order: (loom_idx, pid, tid)
        self.cpus = []      # gindex order: (loom_idx, index, virt, phyid)
        for li, (name, procs, phy) in enumerate(self.looms):
            for pid, tids in sorted(procs, key=lambda p: p[0]):
                for tid in sorted(tids):
                    self.threads.append((li, pid, tid))
            order = sorted(range(len(phy)), key=lambda i: phy[i])
            for i in order:
                self.cpus.append((li, i, 0, phy[i]))
            self.cpus.append((li, -1, 1, -1))

    def thread_gindex(self, li, pid, tid):
        return self.threads.index((li, pid, tid))

    def cpu_gindex(self, li, index):
        for g, c in enumerate(self.cpus):
            if c[0] == li and c[1] == index:
                return g
        return None


MODEL_CHAR = {"ovni": 79, "nanos6": 54, "nosv": 86, "nodes": 68, "tampi": 84, "mpi": 77, "kernel": 75, "openmp": 80}


def build_streams(sysd, events):
    """events: list of (thread gindex, clock, mcv str/bytes, payload bytes[, jumbo bytes])"""
    streams = []
    for g, (li, pid, tid) in enumerate(sysd.threads):
        name, procs, phy = sysd.looms[li]
        first_of_loom = all(t[0] != li for t in sysd.threads[:g])
        # `require_first_only`: only the first stream of the trace requires the models (a model is enabled
        # for the whole trace as soon as one stream requires it); the others require the base model alone
        req = sysd.require
        if getattr(sysd, "require_first_only", False) and g > 0:
            req = {k: v for k, v in sysd.require.items() if k == "ovni"}
        s = Stream(loom=name, pid=pid, tid=tid, app_id=1 + pid % 7, require=req,
                   cpus=[(i, p) for i, p in enumerate(phy)] if first_of_loom else None)
        streams.append(s)
    for ev in events:
        g, clk, mcv, payload = ev[:4]
        jumbo = ev[4] if len(ev) > 4 else None
        streams[g].ev(clk, mcv, payload, jumbo)
    return streams


def model_lines(sysd, events, lint=True):
    lines = ["reset"]
    for (li, pid, tid) in sysd.threads:
        lines.append(f"thread {tid} {pid} {li}")
    for (li, idx, virt, phy) in sysd.cpus:
        lines.append(f"cpu {li} {idx} {virt}")
    en = [MODEL_CHAR[m] for m in sysd.require if m in MODEL_CHAR]
    if 79 not in en:
        en.append(79)
    lines.append("enable %s %d" % (",".join(map(str, en)), 1 if lint else 0))
    for ev in events:
        g, clk, mcv, payload = ev[:4]
        if isinstance(mcv, str):
            mcv = mcv.encode("latin1")
        p = payload
        if len(ev) > 4 and ev[4] is not None:
            p = struct.pack("<I", len(ev[4])) + ev[4]
        lines.append("ev %d %d %s %s" % (g, clk, mcv.hex(), p.hex() if p else "-"))
    lines.append("finish")
    return lines


def model_result(lines, out, t0):
    """Interpret the driver's output for one trace. Returns
    (verdict, fail_time, timelines{(file,row,type): [(t,v)]})"""
    tl = {}
    verdict_ = "ok"
    fail_time = None
    for l, o in zip(lines, out):
        if o.startswith("err"):
            verdict_ = "reject"
            if l.startswith("ev "):
                fail_time = int(l.split()[2]) - t0
            break
        if l.startswith("ev ") and o.startswith("ok"):
            t = int(l.split()[2]) - t0
            recs = o[3:].strip()
            for r in recs.split(",") if recs else []:
                f, row, ty, val = r.split(":")
                k = (f, int(row), int(ty))
                lst = tl.setdefault(k, [])
                if lst and lst[-1][0] == t:
                    lst[-1] = (t, int(val))
                else:
                    lst.append((t, int(val)))
        if o == "bad-op":
            verdict_ = "bad-op"
            break
    return verdict_, fail_time, canon_tl(tl)


def canon_tl(tl):
    out = {}
    for k, lst in tl.items():
        c = []
        cur = 0
        for (t, v) in lst:
            if v != cur:
                c.append((t, v))
                cur = v
        if c:
            out[k] = c
    return out


def pv_oracle(tracedir, sysd, events):
    """C13: well-formedness and self-consistency of the Paraver output of an
    accepted trace (independent parsers)."""
    probs = []
    clocks = [e[1] for e in events]
    duration = (max(clocks) - min(clocks)) if clocks else 0
    expect_rows = {
        "thread": ["TH %d.%d" % (1 + pid % 7, tid) for (li, pid, tid) in sysd.threads],
        "cpu": [("vCPU %d.*" % li) if virt else (" CPU %d.%d" % (li, phy)) for (li, idx, virt, phy) in sysd.cpus],
    }
    for name in ("thread", "cpu"):
        try:
            prv = Prv(os.path.join(tracedir, name + ".prv"))
            pcf = read_pcf(os.path.join(tracedir, name + ".pcf"))
            rows, nrows = read_rows(os.path.join(tracedir, name + ".row"))
        except Exception as e:      # noqa: BLE001
            probs.append(f"{name}: output unreadable: {e}")
            continue
        if prv.bad_lines:
            probs.append(f"{name}.prv: malformed line {prv.bad_lines[0][:60]}")
        last = None
        for (t, row, ty, val) in prv.records:
            if last is not None and t < last:
                probs.append(f"{name}.prv: timestamp goes backwards {last} -> {t}")
                break
            last = t
        want = len(expect_rows[name])
        if prv.nrows != want:
            probs.append(f"{name}.prv: header declares {prv.nrows} rows, the trace has {want}")
        for (t, row, ty, val) in prv.records:
            if not (1 <= row <= (prv.nrows or 0)):
                probs.append(f"{name}.prv: row {row} outside 1..{prv.nrows}")
                break
        if prv.duration != duration:
            probs.append(f"{name}.prv: header duration {prv.duration} != last event time {duration}")
        if prv.records and prv.records[-1][0] > prv.duration:
            probs.append(f"{name}.prv: record after the declared duration")
        for (t, row, ty, val) in prv.records:
            if ty not in pcf:
                probs.append(f"{name}.prv: type {ty} not declared in {name}.pcf")
                break
        for (t, row, ty, val) in prv.records:
            if ty in pcf and pcf[ty][1] and val != 0 and val not in pcf[ty][1]:
                probs.append(f"{name}.prv: value {val} of state type {ty} ({pcf[ty][0]}) has no label")
                break
        if nrows != want or len(rows) != want:
            probs.append(f"{name}.row: declares {nrows} rows and names {len(rows)}, expected {want}")
        elif rows != expect_rows[name]:
            probs.append(f"{name}.row: names {rows[:4]} differ from the documented order {expect_rows[name][:4]}")
    return probs


# Paraver types that are emulator-defined *state* types whatever their PCF
# entry looks like: thread state, CPU affinity, task type (nOS-V, Nanos6),
# breakdown rows
STATE_TYPES = {4, 6, 11, 36, 17, 41}


def pv_selfcheck(tracedir, expect_rows=None):
    """C13 on whatever .prv files a run left in `tracedir` (thread, cpu and the
    optional breakdown traces), using only the files themselves."""
    import glob
    probs = []
    for prvp in sorted(glob.glob(os.path.join(tracedir, "*.prv"))):
        name = os.path.basename(prvp)[:-4]
        try:
            prv = Prv(prvp)
            pcf = read_pcf(os.path.join(tracedir, name + ".pcf"))
            rows, nrows = read_rows(os.path.join(tracedir, name + ".row"))
        except Exception as e:      # noqa: BLE001
            probs.append(f"{name}: output unreadable: {e}")
            continue
        if prv.bad_lines:
            probs.append(f"{name}.prv: malformed line {prv.bad_lines[0][:60]}")
        last = None
        for (t, row, ty, val) in prv.records:
            if last is not None and t < last:
                probs.append(f"{name}.prv: timestamp goes backwards {last} -> {t}")
                break
            last = t
        for (t, row, ty, val) in prv.records:
            if not (1 <= row <= (prv.nrows or 0)):
                probs.append(f"{name}.prv: row {row} outside the declared 1..{prv.nrows}")
                break
        if prv.records and prv.records[-1][0] > prv.duration:
            probs.append(f"{name}.prv: record at {prv.records[-1][0]} after the declared duration {prv.duration}")
        for (t, row, ty, val) in prv.records:
            if ty not in pcf:
                probs.append(f"{name}.prv: type {ty} not declared in {name}.pcf")
                break
        for (t, row, ty, val) in prv.records:
            if ty in pcf and (pcf[ty][1] or ty in STATE_TYPES) and val != 0 and val not in pcf[ty][1]:
                probs.append(f"{name}.prv: value {val} of state type {ty} ({pcf[ty][0].strip()}) has no label in {name}.pcf")
                break
        if nrows != prv.nrows or len(rows) != (prv.nrows or 0):
            probs.append(f"{name}.row: declares {nrows} rows and names {len(rows)}, {name}.prv declares {prv.nrows}")
        if expect_rows and name in expect_rows and rows != expect_rows[name]:
            probs.append(f"{name}.row: names {rows[:4]} differ from the documented order {expect_rows[name][:4]}")
    return probs


def impl_result(bdir, tracedir, sysd, events, lint=True, extra_opts=(), post=None):
    streams = build_streams(sysd, events)
    write_trace(tracedir, streams)
    rc, err = run_emu(bdir, tracedir, (["-l"] if lint else []) + list(extra_opts))
    v = verdict(rc, err)
    fail_time = None
    m = re.search(r"dclock=(-?\d+)", err)
    if m and v != "ok":
        fail_time = int(m.group(1))
    tl = {}
    if v == "ok":
        for f, name in (("T", "thread.prv"), ("C", "cpu.prv")):
            p = Prv(os.path.join(tracedir, name))
            for (row, ty), lst in p.timeline().items():
                tl[(f, row, ty)] = lst
    extra = []
    if v == "ok" and post is not None:
        extra = post(tracedir, sysd, events)
    return v, fail_time, tl, err, extra


# CPU rows whose mux has a default: Paraver type -> default (idle = Resting)
CPU_BASE = {16: 101, 40: 101}


def strip_base(tl):
    """A CPU row that has a default shows it from the start: drop a leading
    record equal to the default so that 'never written' and 'default written at
    the beginning' are the same timeline."""
    out = {}
    for k, lst in tl.items():
        if k[0] == "C" and k[2] in CPU_BASE and lst and lst[0][1] == CPU_BASE[k[2]]:
            lst = lst[1:]
        if lst:
            out[k] = lst
    return out


def compare(res, tag, sysd, events, mres, ires, types=None, desc=""):
    """Returns a list of disagreement strings."""
    mv, mft, mtl = mres
    iv, ift, itl, err = ires[:4]
    dis = []
    if iv not in ("ok", "reject"):
        dis.append(f"ovniemu {iv}")
        return dis
    if mv != iv:
        dis.append(f"verdict: ovniemu={iv} model={mv}")
        return dis
    if iv == "reject":
        if mft is not None and ift is not None and mft != ift:
            dis.append(f"rejected at different events: ovniemu dclock={ift} model dclock={mft}")
        return dis
    mtl, itl = strip_base(mtl), strip_base(itl)
    keys = set(mtl) | set(itl)
    for k in sorted(keys):
        if types is not None and k[2] not in types:
            continue
        a, b = itl.get(k, []), mtl.get(k, [])
        if a != b:
            dis.append(f"timeline {k}: ovniemu={a[:8]} model={b[:8]}")
            if len(dis) > 3:
                break
    return dis


def script_text(sysd, events, lint=True):
    return "\n".join(model_lines(sysd, events, lint))


def parse_script(text):
    """Inverse of script_text for --replay: returns (sysd-like lines, events)."""
    return [l for l in text.split("\n") if l and not l.startswith("#")]
