"""C08 — subsystem events nest like a stack and map to documented values."""
import c04
import emu_props
import engine
import vcommon

PID = "C08"


def gen_cases(r, res, tabs, tier):
    cases = []
    models = ["nosv", "nanos6", "nodes", "tampi", "mpi", "openmp", "kernel"]
    n = 350 if tier == "quick" else 5000
    for i in range(n):
        m = [r.choice(models)] if r.random() < 0.6 else r.sample(models, 2)
        cases.append(emu_props.gen_mixed(r, res, tabs, models=m, p_illegal=0.3, p_aff=0.05, p_model=0.7, maxlen=60))
    # deep nestings: around the stack limit
    deep_models = ["nosv", "nanos6", "nodes", "tampi", "mpi", "openmp"]
    depths = [511, 512, 513] if tier == "quick" else [1, 2, 100, 510, 511, 512, 513, 514, 600]
    for d in depths:
        for m in (deep_models if tier != "quick" else [deep_models[d % len(deep_models)], "nosv"]):
            cases.append(emu_props.deep_nesting(r, tabs, m, d))
            res.dist("case:deep-nesting")
    return cases


def state_matrix(r, res, tabs):
    """Every model x every live thread state: the first enter event of the
    model is accepted exactly in the states the model documents (running for
    NODES/TAMPI/MPI/OpenMP, active for nOS-V/Nanos6, any for the kernel)."""
    import emu_lib
    import histories
    out = []
    paths = {"running": "", "cooling": "c", "paused": "p", "warming": "pw"}
    for model in ["nosv", "nanos6", "nodes", "tampi", "mpi", "openmp", "kernel"]:
        tab = tabs[model]
        rows = [rw for rw in tab["table"] if rw[3] == 1 and (model not in histories.CATS or chr(rw[0]) in histories.CATS[model])]
        for state, path in paths.items():
            for row in (rows[:1] + [r.choice(rows)]):
                require = {"ovni": tabs["ovni"]["version"], model: tab["version"]}
                sysd = emu_lib.Sys([("node0", [(100, [10])], [0])], require)
                w = histories.Walk2(r, sysd, {model: tab})
                w.thread_op(0, "x")
                for op in path:
                    w.thread_op(0, op)
                w.model_event(0, model, row)
                if w.illegal:
                    # complete the history as if the event had been accepted, so that an
                    # implementation that wrongly accepts it ends with exit 0 (a concrete input)
                    why = list(w.illegal)
                    pops = [rw for rw in tab["table"] if rw[3] == 2 and rw[2] == row[2] and rw[4] == row[4]]
                    if pops:
                        w.emit(0, chr(tab["char"]) + chr(pops[0][0]) + chr(pops[0][1]))
                    guard = 0
                    while w.st[0] != "running" and guard < 3:
                        guard += 1
                        ops = [o for o in "rw" if w.st[0] in histories.LEGAL[o]]
                        if not ops:
                            break
                        op = "r" if "r" in ops else "w"
                        w.emit(0, "OH" + op)
                        w.st[0] = histories.LEGAL[op][w.st[0]]
                    w.emit(0, "OHe")
                    w.illegal = why
                if not w.illegal:
                    # leave the region where the model allows it, then finish
                    guard = 0
                    while w.st[0] != "running" and guard < 3:
                        guard += 1
                        ops = w.legal_ops(0)
                        w.thread_op(0, "r" if "r" in ops else "w")
                    w.close_all(0)
                    if "e" in w.legal_ops(0):
                        w.thread_op(0, "e")
                res.dist("case:state-matrix")
                out.append((sysd, w.events, w.expected(), "; ".join(w.illegal)))
    # a thread that the kernel switched out (KCO) may not emit nOS-V events until it is back (KCI), whatever
    # its state was when it was switched out (running, cooling, warming); continued as if accepted
    # (seeded C08-8: KCO recorded "out of CPU" only for a RUNNING thread)
    tab = tabs["nosv"]
    rows = [rw for rw in tab["table"] if rw[3] == 1 and chr(rw[0]) in histories.CATS.get("nosv", "".join(chr(x[0]) for x in tab["table"]))]
    rows = [rw for rw in rows if any(p[3] == 2 and p[2] == rw[2] and p[4] == rw[4] for p in tab["table"])]
    for path in ("", "c", "pw"):
        for row in (rows[:1] + [r.choice(rows)]) if rows else []:
            pop = next(p for p in tab["table"] if p[3] == 2 and p[2] == row[2] and p[4] == row[4])
            require = {"ovni": tabs["ovni"]["version"], "nosv": tab["version"], "kernel": tabs["kernel"]["version"]}
            sysd = emu_lib.Sys([("node0", [(100, [10])], [0])], require)
            w = histories.Walk2(r, sysd, {"nosv": tab})
            w.thread_op(0, "x")
            for op in path:
                w.thread_op(0, op)
            w.emit(0, "KCO")
            M = chr(tab["char"])
            w.emit(0, M + chr(row[0]) + chr(row[1]))
            w.emit(0, M + chr(pop[0]) + chr(pop[1]))
            w.emit(0, "KCI")
            guard = 0
            while w.st[0] != "running" and guard < 3:
                guard += 1
                ops = [o for o in "rw" if w.st[0] in histories.LEGAL[o]]
                if not ops:
                    break
                op = "r" if "r" in ops else "w"
                w.emit(0, "OH" + op)
                w.st[0] = histories.LEGAL[op][w.st[0]]
            w.emit(0, "OHe")
            w.st[0] = "dead"
            why = "t0: nOS-V event from a thread the kernel switched out (state before KCO: %s)" % (
                {"": "running", "c": "cooling", "pw": "warming"}[path])
            res.dist("case:out-of-cpu-matrix")
            out.append((sysd, w.events, "reject", why))
    # the same for the LEAVE event: enter while running, change the thread state, then the matching leave
    for model in ["nosv", "nanos6", "nodes", "tampi", "mpi", "openmp"]:
        tab = tabs[model]
        rows = [rw for rw in tab["table"] if rw[3] == 1 and (model not in histories.CATS or chr(rw[0]) in histories.CATS[model])]
        rows = [rw for rw in rows if any(p[3] == 2 and p[2] == rw[2] and p[4] == rw[4] for p in tab["table"])]
        for state, path in paths.items():
            if not path or not rows:
                continue
            for row in (rows[:1] + [r.choice(rows)]):
                pop = next(p for p in tab["table"] if p[3] == 2 and p[2] == row[2] and p[4] == row[4])
                require = {"ovni": tabs["ovni"]["version"], model: tab["version"]}
                sysd = emu_lib.Sys([("node0", [(100, [10])], [0])], require)
                w = histories.Walk2(r, sysd, {model: tab})
                w.thread_op(0, "x")
                w.model_event(0, model, row)
                for op in path:
                    w.thread_op(0, op)
                w.model_event(0, model, pop)
                if w.illegal:
                    why = list(w.illegal)
                    guard = 0
                    while w.st[0] != "running" and guard < 3:
                        guard += 1
                        ops = [o for o in "rw" if w.st[0] in histories.LEGAL[o]]
                        if not ops:
                            break
                        op = "r" if "r" in ops else "w"
                        w.emit(0, "OH" + op)
                        w.st[0] = histories.LEGAL[op][w.st[0]]
                    w.emit(0, "OHe")
                    w.illegal = why
                else:
                    guard = 0
                    while w.st[0] != "running" and guard < 3:
                        guard += 1
                        ops = w.legal_ops(0)
                        w.thread_op(0, "r" if "r" in ops else "w")
                    w.close_all(0)
                    if "e" in w.legal_ops(0):
                        w.thread_op(0, "e")
                res.dist("case:state-matrix-leave")
                out.append((sysd, w.events, w.expected(), "; ".join(w.illegal)))
    return out


def check(res, tier, replay=None):
    res.cov["rule"] = ("per model random properly nested enter/leave words of the generated tables interleaved with thread state "
                       "changes, with single mismatched / re-entering / wrong-state steps and open regions at the end (lint), "
                       "plus nestings at depth 511..513 around MAX_CHAN_STACK; real ovniemu -l vs the Lean reference emulator "
                       "(verdict, failing event, all model rows of thread.prv and cpu.prv) and vs an independent Python oracle "
                       "recomputing every row from the raw history. non-trivial = at least one event; distinct by script")
    prep = engine.prepare(res, drivers=("drv_emu",))
    proved = vcommon.prove(res, ["C08Stack", "C08"])
    found = False
    if prep.bdir and prep.driver_ok:
        r = vcommon.rng("c08")
        tabs = emu_props.load_tables()
        doc = emu_props.load_doc_tables(tabs)
        cases = gen_cases(r, res, doc, tier) + state_matrix(r, res, doc)

        def orc(sysd, events, itl):
            # rows recomputed from the history with the DOCUMENTED event -> value mapping
            return emu_props.oracle_views(sysd, events, doc, itl) or []
        found = c04.run_cases(res, prep, cases, "c08", None, oracle=orc)
        for b in res.cov.get("correspondence_breaks", [])[:3]:
            proved = False
            res.failed_obligations = getattr(res, "failed_obligations", []) + ["correspondence emu: " + b["what"] + "\n" + b["script"]]
    for pr in prep.problems:
        res.failed_obligations = getattr(res, "failed_obligations", []) + [pr]
        proved = False
    if not proved:
        vcommon.obligations_failed(res, found)
