"""C07 — task life-cycle: bodies follow their state machine, never run twice at once."""
import hashlib
import os
import re
from concurrent.futures import ThreadPoolExecutor

import engine
import gen
import vcommon
import c07_lib as L
from ovnitrace import Prv, Scratch, Stream, i32, u32, u64, read_rows, run_emu, verdict, write_trace

PID = "C07"
NOSV_TYPES = (10, 11, 15, 12, 14)     # taskid, type, bodyid, appid, rank
NANOS6_TYPES = (35, 36, None, None, 38)


# --------------------------------------------------------------------------
# X1: unit correspondence over the real task.c / body.c
# --------------------------------------------------------------------------

FIXED = [
    # test/unit/task.c walk
    ["task reset 2", "task type 123 706172616c6c656c5f7461736b %d" % L.jenkins(b"parallel_task"),
     "task create 456 123 1", "task probe exec 0 456 0", "task exec 0 456 1", "task exec 1 456 2",
     "task probe exec 1 456 1", "task probe end 0 456 42", "task probe pause 0 456 1",
     "task probe resume 0 456 1", "task end 0 456 1", "task end 1 456 2", "task exec 0 456 1"],
    # resurrect: iteration counts; body on another thread after death
    ["task reset 2", "task type 1 - %d" % L.jenkins(L.type_label(1, b"")), "task create 7 1 6",
     "task exec 0 7 1", "task end 0 7 1", "task exec 1 7 1", "task pause 1 7 1", "task probe pause 0 7 1",
     "task probe resume 0 7 1", "task probe end 1 7 1", "task resume 1 7 1", "task end 1 7 1", "task exec 0 7 1"],
    # relaxed nesting, then not-top operations
    ["task reset 1", "task type 1 61 %d" % L.jenkins(b"a"), "task create 1 1 12", "task create 2 1 12",
     "task exec 0 1 1", "task exec 0 2 1", "task probe end 0 1 1", "task probe pause 0 1 1", "task pause 0 2 1",
     "task probe resume 0 1 1", "task resume 0 2 1", "task end 0 2 1", "task end 0 1 1", "task exec 0 1 1"],
    # strict nesting refused; failing execute leaves the body behind
    ["task reset 1", "task type 1 61 %d" % L.jenkins(b"a"), "task create 1 1 6", "task create 2 1 6",
     "task exec 0 1 1", "task exec 0 2 1"],
]


def unit_cases(r, tier, res):
    cases = []
    for f in FIXED:
        cases.append(("fixed", [(l, None, None) for l in f]))
    pairs = [(6, 6), (1, 1), (12, 12), (6, 1), (1, 12), (0, 0), (15, 15), (2, 4), (5, 9)]
    depth = 4
    if tier == "thorough":
        pairs = [(a, b) for a in range(16) for b in range(16)]
        depth = 5
    else:
        pairs += [(r.randrange(16), r.randrange(16)) for _ in range(3)]
    for (f1, f2) in pairs:
        d = depth
        if tier == "thorough" and bin(f1).count("1") + bin(f2).count("1") >= 7:
            d = 4   # the all-flags corner explodes; one level less
        for c in L.exhaustive_cases(f1, f2, d):
            cases.append(("exh", c))
    nrand = 6000 if tier == "quick" else 60000
    for _ in range(nrand):
        cases.append(("rand", L.random_case(r)))
    return cases


def run_unit(res, prep, harness, cases):
    """Returns found(bool)."""
    lines = []
    for kind, c in cases:
        lines.extend(l for (l, _, _) in c)
    rc1, impl, err1 = engine.run_lines(harness, lines, timeout=3600)
    rc2, model, err2 = engine.run_lines(engine.exe("drv_task"), lines, timeout=3600)
    found = False
    if rc1 != 0:
        found = True
        res.violation("unit:harness-exit", f"harness over task.c/body.c exited {rc1} (sanitizer?)",
                      "\n".join(lines[-40:]) + "\n# stderr:\n" + err1[-3000:])
    if len(impl) != len(lines) or len(model) != len(lines):
        found = True
        res.violation("unit:line-count", f"outputs {len(impl)}/{len(model)} for {len(lines)} lines",
                      "\n".join(lines[:50]))
        return found
    i = 0
    nshown = 0
    for kind, c in cases:
        n = len(c)
        ci, cm = impl[i:i + n], model[i:i + n]
        cl = [l for (l, _, _) in c]
        canon = "\n".join(cl)
        nops = sum(1 for l in cl if l.split()[1] in ("exec", "pause", "resume", "end", "probe"))
        res.case(canon, nontrivial=nops > 0)
        res.dist("unit:" + kind)
        bad = None
        prev = None
        for j, (l, op, exp) in enumerate(c):
            a, b = ci[j], cm[j]
            w = l.split()
            res.dist("unit-op:" + (w[2] if w[1] == "probe" else w[1]) + ":" + a.split()[0])
            if a != b:
                bad = (j, f"implementation and model disagree at line {j}: impl='{a}' model='{b}'")
                break
            if exp is not None and (a.startswith("ok") != exp) and a != "skip":
                bad = (j, f"reference automaton expected {'ok' if exp else 'err'} but implementation says '{a}'")
                break
            if a.startswith("ok ") and " | " in a:
                cur = L.parse_dump(a)
                if "!" in a:
                    bad = (j, "accessor mismatch in dump: " + a)
                    break
                rop = op
                if rop is None and w[1] in L.KINDS + ("probe",):
                    ww = w[2:] if w[1] == "probe" else w[1:]
                    rop = (ww[0], int(ww[1]), int(ww[2]), int(ww[3]))
                if rop is not None:
                    o = L.oracle_dump(prev, cur, rop)
                    if o:
                        bad = (j, "property oracle on the implementation's dump: " + "; ".join(o[:3]))
                        break
                prev = cur
        if bad:
            found = True
            j, txt = bad
            res.violation("unit:" + " ".join(cl[j].split()[1:3]) + ":" + hashlib.sha1(canon.encode()).hexdigest()[:8], txt,
                          canon + f"\n# impl:  {ci[j]}\n# model: {cm[j]}\n# replay: checks/check.py C07 --replay <this file>")
        elif nshown < 2 and kind == "rand" and n > 8:
            nshown += 1
            res.sample({"unit_case": cl, "impl_last": ci[-1], "model_last": cm[-1]})
        i += n
    return found


# --------------------------------------------------------------------------
# X2: end to end through ovniemu -l
# --------------------------------------------------------------------------

def ss_pairs(tab, ssidx):
    """(push mcv, pop mcv, value) of the model's table-driven subsystem events"""
    out = []
    ch = chr(tab["char"])
    for (c, v, chan, act, val) in tab["table"]:
        if chan == ssidx and act == 1:
            for (c2, v2, chan2, act2, val2) in tab["table"]:
                if chan2 == ssidx and act2 == 2 and val2 == val:
                    out.append((ch + chr(c) + chr(v), ch + chr(c2) + chr(v2), val))
                    break
    return out


def ss_index(tab):
    """index of the subsystem channel, read back from the regenerated Lean table"""
    src = open(os.path.join(gen.OUT, tab["ns"] + ".lean")).read()
    m = re.search(r"def chanNames : List String := \[(.*?)\]\n", src)
    names = re.findall(r'"([^"]*)"', m.group(1))
    return names.index("subsystem")


class Scenario:
    def __init__(self):
        self.model = "V"
        self.procs = []      # dict(pid, appid, rank, threads=[tid], labels={typeid: bytes})
        self.events = []     # (pid, ev) ev as in L2Ref plus ("type", th, typeid, label)
        self.mcv = {}        # index -> mcv for ss events
        self.note = "legal"
        self.expect = None   # reference automaton's verdict: "ok" | index of the refused event | "finish"
        self.finding_key = None   # stable key when the scenario probes a recorded finding


def note_transition(res, ref, e):
    """input distribution: which expanded transition a legal state event is"""
    if e[0] != "task":
        res.dist("e2e-ev:" + e[0])
        return
    _, th, v, t, bp = e
    top = ref.ref.top(th)
    running = top is not None and ref.ref.phase.get(top) == 'R'
    if v == "x":
        b = ref.bodyid(t, bp)
        k = "X(nested over running)" if running else ("x over paused" if top is not None else "x")
        if ref.ref.phase.get((t, b)) == 'D':
            k += " resurrect"
        if ref.ref.flags[t] & L.PAR:
            k += " parallel"
    elif v == "e":
        l = ref.ref.stack[th]
        below = l[1] if len(l) > 1 else None
        k = "E(back to running)" if below is not None and ref.ref.phase.get(below) == 'R' else ("e to paused" if below else "e")
    else:
        k = v
    res.dist("e2e-tr:" + k)


def fixed_scenarios(tabs):
    """Subsystem stack capacity: 511 pushes leave room for the running-body push, 512 do not."""
    out = []
    tab = tabs["nosv"]
    pairs = ss_pairs(tab, ss_index(tab))
    pu, po, val = pairs[0]
    for n in (511, 512):
        sc = Scenario()
        sc.model = "V"
        sc.note = "ss-depth-%d" % n
        sc.procs = [dict(pid=10, appid=1, rank=None, threads=[100], labels={1: b"deep"})]
        sc.events = [(10, ("type", 100, 1, b"deep")), (10, ("create", 100, "c", 1, 1))]
        sc.events += [(10, ("sspush", 100, val, pu))] * n
        sc.events += [(10, ("task", 100, "x", 1, 0)), (10, ("task", 100, "e", 1, 0))]
        sc.events += [(10, ("sspop", 100, val, po))] * n
        sc.expect = "ok" if n == 511 else 2 + n
        out.append(sc)
    # label length limit of task_type_create (MAX_PCF_LABEL)
    for n in (511, 512):
        sc = Scenario()
        sc.model = "V"
        sc.note = "label-len-%d" % n
        sc.procs = [dict(pid=10, appid=1, rank=None, threads=[100], labels={1: b"L" * n})]
        sc.events = [(10, ("type", 100, 1, b"L" * n)), (10, ("create", 100, "c", 1, 1)),
                     (10, ("task", 100, "x", 1, 0)), (10, ("task", 100, "e", 1, 0))]
        sc.expect = "ok" if n == 511 else 0
        out.append(sc)
    # Finding probe: a Nanos6 history made only of task events that is legal in the pure life-cycle
    # (task 2 nested over the PAUSED task 1).  The Nanos6 subsystem channel refuses the second
    # "running body" push (no CHAN_ALLOW_DUP), so the emulator rejects it unless some other
    # subsystem state was entered in between; nOS-V allows the duplicate.  Expectation here = the
    # property text (accepted); the model (which follows the code) rejects at event 5.
    for (note, mid) in (("nanos6-nest-over-paused", [("task", 100, "p", 1, 0)]), ("nanos6-nest-relaxed", [])):
        sc = Scenario()
        sc.model = "6"
        sc.note = note
        sc.procs = [dict(pid=10, appid=1, rank=None, threads=[100], labels={1: b"ty"})]
        evs = [("type", 100, 1, b"ty"), ("create", 100, "c", 1, 1), ("create", 100, "c", 2, 1),
               ("task", 100, "x", 1, 0)] + mid + [("task", 100, "x", 2, 0), ("task", 100, "e", 2, 0)]
        evs += ([("task", 100, "r", 1, 0)] if mid else []) + [("task", 100, "e", 1, 0)]
        sc.events = [(10, e) for e in evs]
        sc.expect = "ok"
        sc.finding_key = "e2e:nanos6:nested-execute-needs-subsystem-change"
        out.append(sc)
    return out


def gen_scenario(r, tabs, res):
    sc = Scenario()
    sc.model = r.choice(["V", "V", "6"])
    mname = "nosv" if sc.model == "V" else "nanos6"
    tab = tabs[mname]
    ssidx = ss_index(tab)
    ss_dup = tab["chanDup"][ssidx]
    st_body = 11 if sc.model == "V" else 1
    pairs = ss_pairs(tab, ssidx)
    nproc = r.choice([1, 1, 1, 2])
    nth = r.choice([1, 2, 2, 3])
    with_rank = r.random() < 0.5
    tid = 100
    refs = {}
    for p in range(nproc):
        pr = dict(pid=10 + p, appid=r.choice([1, 2, 7]), rank=(r.randrange(0, 4) * 2 + p if with_rank else None), threads=[], labels={})
        if p == 1 and r.random() < 0.4:
            pr["loom"] = "node1"        # the second process in a loom of its own
        sc.procs.append(pr)
        refs[pr["pid"]] = L.L2Ref(sc.model, ss_dup, st_body)
    # size of the MPI job: the smallest legal one (nranks = highest rank + 1, so a lone rank 0 has
    # nranks 1: seeded C07-7 cleared the rank row only for nranks > 1), a usual one, a huge one
    ranks = [pr["rank"] for pr in sc.procs if pr["rank"] is not None]
    sc.nranks = r.choice([max(ranks) + 1, max(ranks) + 1, 16, 2 ** 20]) if ranks else None
    if ranks and nproc == 1 and r.random() < 0.4:
        sc.procs[0]["rank"], sc.nranks = 0, 1
    res_dist_nranks = "none" if sc.nranks is None else "1" if sc.nranks == 1 else "min" if sc.nranks == max(
        [pr["rank"] for pr in sc.procs if pr["rank"] is not None]) + 1 else "large"
    sc.nranks_class = res_dist_nranks
    for t in range(max(nth, nproc)):
        pr = sc.procs[t % nproc]
        pr["threads"].append(tid + t)
    # every process: one or two types, a few tasks
    for pr in sc.procs:
        th0 = pr["threads"][0]
        for ty in r.sample([1, 2, 5, 9], r.choice([1, 2])):
            lab = r.choice([b"", b"main", b"Unlabeled0", b"type%d" % ty, b"t" + bytes([r.randrange(97, 123) for _ in range(6)])])
            pr["labels"][ty] = lab
            sc.events.append((pr["pid"], ("type", th0, ty, lab)))
    for pr in sc.procs:
        ntask = r.choice([1, 2, 3, 4])
        ids = r.sample([1, 2, 3, 4, 5, 77, 4000000000], ntask)
        for t in ids:
            c = "C" if (sc.model == "V" and r.random() < 0.35) else "c"
            sc.events.append((pr["pid"], ("create", r.choice(pr["threads"]), c, t, r.choice(sorted(pr["labels"])))))
    for (pid, ev) in sc.events:
        refs[pid].apply(ev if ev[0] != "type" else ("type", ev[1], ev[2]))
    # the history
    n = r.randrange(4, 40)
    mutate_at = r.randrange(n) if r.random() < 0.5 else None
    for i in range(n):
        pr = r.choice(sc.procs)
        ref = refs[pr["pid"]]
        th = r.choice(pr["threads"])
        tasks = sorted(ref.ref.flags)
        cands = []
        for t in tasks:
            bps = [0, 1, 2, 3] if sc.model == "V" else [0]
            for v in "xepr":
                for bp in bps:
                    cands.append(("task", th, v, t, bp))
        for (pu, po, val) in r.sample(pairs, min(4, len(pairs))):
            cands.append(("sspush", th, val, pu))
            cands.append(("sspop", th, val, po))
        legal = [e for e in cands if ref.legal(e[:5] if e[0] == "task" else e[:3])]
        illegal = [e for e in cands if not ref.legal(e[:5] if e[0] == "task" else e[:3])]
        if i == mutate_at:
            kind = r.random()
            if kind < 0.15:
                e = ("task", th, r.choice("xepr"), 999, 0)          # unknown task
                sc.note = "unknown-task"
            elif kind < 0.25 and tasks:
                t = r.choice(tasks)
                e = ("create", th, "c", t, r.choice(sorted(pr["labels"])))   # duplicate task id
                sc.note = "dup-create"
            elif kind < 0.30:
                e = ("type", th, r.choice(sorted(pr["labels"]) + [0]), b"again")
                sc.note = "dup-or-zero-type"
            elif kind < 0.36:
                e = ("create", th, "c", 555, 42)                    # unknown type
                sc.note = "unknown-type"
            elif illegal:
                # prefer the interesting illegal task events over random ss pops
                ti = [e for e in illegal if e[0] == "task"]
                e = r.choice(ti if ti and r.random() < 0.8 else illegal)
                sc.note = "illegal-" + (e[2] if e[0] == "task" else e[0])
            else:
                continue
            sc.expect = len(sc.events)
            sc.events.append((pr["pid"], e))
            continue    # the reference state is not advanced: the emulator stops here
        if not legal:
            continue
        top = ref.ref.top(th)
        toprun = top is not None and ref.ref.phase.get(top) == 'R'
        sstop = ref.ss.get(th, [None])[0] if ref.ss.get(th) else None

        def weight(e):
            if e[0] == "task":
                return {"x": 6.0 if toprun else 3.0, "e": 2.0, "p": 1.2, "r": 2.5}[e[2]]
            if e[0] == "sspush":
                return 2.5 if (toprun and sstop == st_body and not ss_dup) else 0.5
            return 1.0
        e = r.choices(legal, weights=[weight(x) for x in legal])[0]
        sc.events.append((pr["pid"], e))
        note_transition(res, ref, e)
        ref.apply(e[:5] if e[0] == "task" else e[:3])
    # drain (most of the time): unwind every thread's subsystem stack
    if r.random() < 0.9:
        for pr in sc.procs:
            ref = refs[pr["pid"]]
            for th in pr["threads"]:
                guard = 0
                while ref.ss.get(th) and guard < 2000:
                    guard += 1
                    top = ref.ss[th][0]
                    if top == st_body and ref.ref.top(th) is not None:
                        (t, b) = ref.ref.top(th)
                        bp = 0 if (sc.model == "6" or not ref.ref.flags[t] & L.PAR) else b
                        if ref.ref.phase[(t, b)] == 'P':
                            e = ("task", th, "r", t, bp)
                        else:
                            e = ("task", th, "e", t, bp)
                    else:
                        po = [x for x in pairs if x[2] == top]
                        if not po:
                            break
                        e = ("sspop", th, top, po[0][1])
                    if not ref.legal(e[:5] if e[0] == "task" else e[:3]):
                        break
                    sc.events.append((pr["pid"], e))
                    note_transition(res, ref, e)
                    ref.apply(e[:5] if e[0] == "task" else e[:3])
    else:
        if sc.note == "legal":
            sc.note = "legal-undrained"
    if sc.expect is None:
        empty = all(not refs[pr["pid"]].ss.get(th) for pr in sc.procs for th in pr["threads"])
        sc.expect = "ok" if empty else "finish"
    res.dist("e2e-model:" + mname)
    res.dist("e2e-kind:" + sc.note)
    res.dist("e2e-nranks:" + getattr(sc, "nranks_class", "none"))
    res.dist("e2e-looms:%d" % len({pr.get("loom", "node0") for pr in sc.procs}))
    return sc


def scenario_lines(sc):
    """The `emu …` script for the Lean driver (one line per event)."""
    lines = ["emu reset"]
    for pr in sc.procs:
        lines.append("emu proc %d %s %d %d" % (pr["pid"], sc.model, pr["appid"], -1 if pr["rank"] is None else pr["rank"]))
    evl = []
    for (pid, e) in sc.events:
        if e[0] == "type":
            full = L.type_label(e[2], e[3])
            l = "emu type %d %d %d %d" % (pid, e[2], L.jenkins(full), 1 if len(full) < 512 else 0)
        elif e[0] == "create":
            l = "emu create %d %s %d %d" % (pid, e[2], e[3], e[4])
        elif e[0] == "task":
            l = "emu task %d %d %s %d %d" % (pid, e[1], e[2], e[3], e[4])
        else:
            l = "emu %s %d %d %d" % (e[0], pid, e[1], e[2])
        evl.append(l)
    return lines, evl, ["emu finish"]


def scenario_streams(sc, tabs):
    mname = "nosv" if sc.model == "V" else "nanos6"
    req = {"ovni": tabs["ovni"]["version"], mname: tabs[mname]["version"]}
    allth = [t for pr in sc.procs for t in pr["threads"]]
    streams = {}
    # processes may live in different looms (key "loom", default one loom): each loom declares its CPUs
    # in its first stream and its threads run on the CPUs of their own loom
    byloom = {}
    for pr in sc.procs:
        byloom.setdefault(pr.get("loom", "node0"), []).extend(pr["threads"])
    seen = set()
    for pr in sc.procs:
        loom = pr.get("loom", "node0")
        lth = byloom[loom]
        for t in pr["threads"]:
            s = Stream(loom=loom, tid=t, pid=pr["pid"], app_id=pr["appid"], require=req,
                       cpus=[(i, i) for i in range(len(lth))] if loom not in seen else None,
                       rank=pr["rank"], nranks=getattr(sc, "nranks", 16) if pr["rank"] is not None else None)
            seen.add(loom)
            s.ev(100 + allth.index(t), "OHx", i32(lth.index(t), -1) + u64(0))
            streams[t] = s
    clk = 1000
    clocks = []
    for (pid, e) in sc.events:
        clk += 10
        clocks.append(clk)
        s = streams[e[1]]
        M = sc.model
        if e[0] == "type":
            s.ev(clk, M + "Yc", jumbo=u32(e[2]) + e[3] + b"\0")
        elif e[0] == "create":
            s.ev(clk, M + "T" + e[2], u32(e[3], e[4]))
        elif e[0] == "task":
            if M == "V":
                s.ev(clk, "VT" + e[2], u32(e[3], e[4]))
            else:
                s.ev(clk, "6T" + e[2], u32(e[3]))
        else:
            s.ev(clk, e[3])
    for i, t in enumerate(allth):
        streams[t].ev(clk + 100 + i, "OHe")
    return [streams[t] for t in allth], clocks, 100


def collapse(points):
    """[(time, value)] -> step function as Prv.timeline() returns it"""
    out = []
    cur = 0
    last = {}
    for (t, v) in points:
        last[t] = v
    for t in sorted(last):
        if last[t] != cur:
            out.append((t, last[t]))
            cur = last[t]
    return out


def e2e_one(args):
    sc, tabs, bdir, d, idx = args
    streams, clocks, base = scenario_streams(sc, tabs)
    td = os.path.join(d, "t%d" % idx)
    write_trace(td, streams)
    rc, err = run_emu(bdir, td, ["-l"])
    v = verdict(rc, err)
    tl = rows = None
    pcf = None
    if v == "ok":
        tl = Prv(os.path.join(td, "thread.prv")).timeline()
        rows, _ = read_rows(os.path.join(td, "thread.row"))
    import shutil
    shutil.rmtree(td, ignore_errors=True)
    return v, err, tl, rows, clocks, base


def check_e2e(res, prep, r, tier, tabs, replay_sc=None):
    n = 1000 if tier == "quick" else 8000
    scs = (fixed_scenarios(tabs) + [gen_scenario(r, tabs, res) for _ in range(n)]) if replay_sc is None else [replay_sc]
    # model side: one driver run for all scenarios
    lines = []
    spans = []
    for sc in scs:
        h, evl, f = scenario_lines(sc)
        spans.append((len(lines), len(h), len(evl)))
        lines += h + evl + f
    _, mout, _ = engine.run_lines(engine.exe("drv_task"), lines, timeout=3600)
    found = False
    with Scratch("c07") as d:
        with ThreadPoolExecutor(max_workers=max(2, min(8, vcommon.NCPU // 2))) as ex:
            outs = list(ex.map(e2e_one, [(sc, tabs, prep.bdir, d, i) for i, sc in enumerate(scs)]))
    for i, sc in enumerate(scs):
        v, err, tl, rows, clocks, base = outs[i]
        off, nh, ne = spans[i]
        mo = mout[off + nh: off + nh + ne + 1]
        script = "\n".join(lines[off: off + nh + ne + 1])
        model_ok = all(x.startswith("ok") for x in mo) and len(mo) == ne + 1
        want = "ok" if model_ok else "reject"
        res.case(script, nontrivial=ne > 0)
        res.dist("e2e-verdict:" + v)
        firstbad = next((k for k, x in enumerate(mo) if not x.startswith("ok")), None)
        if firstbad is not None:
            res.dist("e2e-model-reject-at:" + ("finish" if firstbad == ne else lines[off + nh + firstbad].split()[1]))
        if i < 2:
            res.sample({"e2e_script": lines[off: off + nh + ne + 1][:14], "ovniemu": v, "model": want})
        replay = "# e2e scenario\n" + repr(dict(model=sc.model, procs=sc.procs, events=sc.events, note=sc.note, expect=sc.expect)) + "\n# script:\n# " + script.replace("\n", "\n# ")
        # where did the emulator stop?  (the panic block names the raw clock of the event)
        where = None
        if v == "reject":
            mm = re.search(r"panic:\s+rclock=(\d+)", err)
            if mm and int(mm.group(1)) in clocks:
                where = clocks.index(int(mm.group(1)))
            elif mm is None and "end_lint" in err:
                where = ne
            else:
                where = "?"
        # the reference automaton (written from the documentation) against the implementation
        if sc.expect is not None:
            got = "ok" if v == "ok" else ("finish" if where == ne else where)
            if got != sc.expect:
                key = sc.finding_key or f"e2e:oracle-verdict:{sc.note}:{sc.model}"
                if res.violation(key,
                                 f"life-cycle reference expects {sc.expect} (ok / index of refused event / finish) but ovniemu -l: {got}",
                                 replay + "\n# ovniemu stderr tail:\n# " + err[-1200:].replace("\n", "\n# ")):
                    found = True
                    continue
                res.dist("e2e-known-finding:" + sc.note)
        if v != want or (v == "reject" and where != firstbad):
            found = True
            res.violation(f"e2e:verdict:{sc.note}:{sc.model}",
                          f"ovniemu -l says {v} at event {where}, model says {want} (first model reject at event {firstbad}; {ne} = finish)",
                          replay + "\n# ovniemu stderr tail:\n# " + err[-1200:].replace("\n", "\n# "))
            continue
        if v != "ok":
            continue
        # predicted timelines from the model's channel values after every thread event
        types = NOSV_TYPES if sc.model == "V" else NANOS6_TYPES
        pred = {}
        for k, (pid, e) in enumerate(sc.events):
            if e[0] in ("type", "create"):
                continue
            vals = list(map(int, mo[k].split()[1:6]))
            for ty, val in zip(types, vals):
                if ty is not None:
                    pred.setdefault((e[1], ty), []).append((clocks[k] - base, val))
        rowof = {}
        for ri, name in enumerate(rows):
            rowof[int(name.rsplit(".", 1)[1])] = ri + 1
        bad = None
        for pr in sc.procs:
            for t in pr["threads"]:
                for ty in types:
                    if ty is None:
                        continue
                    got = tl.get((rowof[t], ty), [])
                    exp = collapse(pred.get((t, ty), []))
                    if got != exp:
                        bad = (t, ty, got, exp)
        if bad:
            found = True
            res.violation(f"e2e:timeline:{sc.model}:type{bad[1]}", f"thread {bad[0]} PRV type {bad[1]}: ovniemu {bad[2][:8]} model {bad[3][:8]}", replay)
            continue
        # oracle on the implementation's own output (task_view / body_unique_thread)
        o = oracle_prv(sc, tl, rowof)
        if o:
            found = True
            res.violation(f"e2e:oracle:{sc.model}", "; ".join(o[:3]), replay)
    return found


def value_at(steps, t):
    v = 0
    for (tt, vv) in steps:
        if tt <= t:
            v = vv
        else:
            break
    return v


def oracle_prv(sc, tl, rowof):
    """Independent of the Lean model: on the PRV written by ovniemu, (a) the
    task channels of a thread are all null or all set together, (b) the shown
    type / app id / rank are those of the shown task, (c) the same body is never
    shown by two threads at the same time."""
    bad = []
    types = NOSV_TYPES if sc.model == "V" else NANOS6_TYPES
    times = sorted({t for steps in tl.values() for (t, _) in steps})
    for pr in sc.procs:
        gids = {ty: L.gid_of_label(L.type_label(ty, lab)) for ty, lab in pr["labels"].items()}
        ttype = {}
        for (pid, e) in sc.events:
            if pid == pr["pid"] and e[0] == "create" and e[3] not in ttype:
                ttype[e[3]] = e[4]
        for tm in times:
            shown = {}
            for th in pr["threads"]:
                vals = [value_at(tl.get((rowof[th], ty), []), tm) if ty is not None else None for ty in types]
                taskid, gid, bodyid, appid, rank = vals
                if taskid == 0:
                    if any(v for v in vals if v is not None):
                        bad.append(f"t={tm} thread {th}: no task shown but {vals}")
                    continue
                if gid != gids.get(ttype.get(taskid)):
                    bad.append(f"t={tm} thread {th}: task {taskid} shown with type gid {gid}")
                if appid is not None and appid != pr["appid"]:
                    bad.append(f"t={tm} thread {th}: app id {appid} != {pr['appid']}")
                if rank != (0 if pr["rank"] is None else pr["rank"] + 1):
                    bad.append(f"t={tm} thread {th}: rank {rank}")
                if bodyid is not None and bodyid == 0:
                    bad.append(f"t={tm} thread {th}: task {taskid} shown without body id")
                key = (taskid, bodyid)
                if key in shown:
                    bad.append(f"t={tm}: body {key} shown on threads {shown[key]} and {th} at once")
                shown[key] = th
    return bad


# --------------------------------------------------------------------------

def check(res, tier, replay=None):
    res.cov["rule"] = ("X1: the real task.c/body.c (ASan+UBSan harness, private struct body dumped) vs the Lean model on "
                       "fixed, bounded-exhaustive (every (state, operation) pair reachable within the depth from 2 tasks x "
                       "2 stacks x flag pairs, all 256 pairs in thorough) and random histories; dumps compared after every "
                       "operation and checked by an independent property oracle. X2: random nOS-V/Nanos6 task histories "
                       "over 1-3 threads / 1-2 processes with single illegal mutations through ovniemu -l: verdict and "
                       "thread.prv timelines of the task types vs the model; independently the verdict and the refused event are compared "
                       "with a reference automaton written from the documentation, and a PRV oracle checks the view (channels set "
                       "together, type/app id/rank of the shown task, no body shown by two threads at once). non-trivial = at least one "
                       "state operation / thread event executed")
    res.assumptions = ["threads stay Running for the whole history (the tracking muxes are C06's)",
                       "uthash tables behave as finite maps; string hash of the type label computed outside the model",
                       "processes share no task state (one model instance per process)"]
    prep = engine.prepare(res, drivers=("ovnimodel", "drv_task"))
    proved = vcommon.prove(res, "C07")
    found = False
    if prep.bdir and prep.driver_ok:
        r = vcommon.rng("c07")
        tabs = gen.load_tables()
        h = vcommon.cc_harness("task_c", [os.path.join(vcommon.HARNESS, "task_c.c")], prep.bdir,
                               libs=[os.path.join(prep.bdir, "src/emu/libemu.a"),
                                     os.path.join(prep.bdir, "src/rt/libovni-static.a"),
                                     os.path.join(prep.bdir, "src/libparson-static.a"),
                                     os.path.join(prep.bdir, "src/libcommon-static.a")])
        if replay:
            txt = open(replay).read()
            if "# e2e scenario" in txt:
                d = eval(txt.split("# e2e scenario\n", 1)[1].split("\n", 1)[0])
                sc = Scenario()
                sc.model, sc.procs, sc.events, sc.note = d["model"], d["procs"], d["events"], d["note"]
                sc.expect = d.get("expect")
                found |= check_e2e(res, prep, r, tier, tabs, replay_sc=sc)
            else:
                ls = [l.strip() for l in txt.split("\n") if l.startswith("task ")]
                found |= run_unit(res, prep, h, [("replay", [(l, None, None) for l in ls])])
        else:
            found |= run_unit(res, prep, h, unit_cases(r, tier, res))
            found |= check_e2e(res, prep, r, tier, tabs)
    for pr in prep.problems:
        res.failed_obligations = getattr(res, "failed_obligations", []) + [pr]
        proved = False
    if not proved:
        vcommon.obligations_failed(res, found)
